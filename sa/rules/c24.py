"""C24 - mixed-dimensional grid container: dict typestate of MixedDimensionalGrid.

R1 guarded-insert => guarded-access   R2 paired insert/delete coherence of the dict pairs
R3 interface selection completeness    R4 re-keying / stored values (replace, add_interface)
R5 sort key of the listing methods      R6 every rejecting raise precedes the first mutation
R7 add_subdomains: argument list checked for duplicates before the per-grid loops
"""
from __future__ import annotations

import ast
import operator
from dataclasses import dataclass
from typing import Optional

from ..core import cfg as cfgmod
from ..core.astutil import (u, walk_local, call_name, kwarg, names_in, stmts_local, assigned_targets,
                            parent_map, enclosing_stmt, methods, body_nodoc)
from ..core.loader import AnchorError, Undecided
from ..core.report import Ctx

MD = "src/porepy/grids/md_grid.py"
CLS = "MixedDimensionalGrid"

SD, IF_DATA, IF_SD, SD_BG, BG_DATA = ("_subdomain_data", "_interface_data", "_interface_to_subdomains",
                                      "_subdomain_to_boundary_grid", "_boundary_grid_data")
DICTS = (SD, IF_DATA, IF_SD, SD_BG, BG_DATA)
# key domain of each dict; dicts of one domain hold the same key set (invariant kept by R2)
DOMAIN = {SD: "sd", IF_DATA: "intf", IF_SD: "intf", SD_BG: "sd+", BG_DATA: "bg"}
# methods of the class whose returned elements are present keys of a domain
PRESENT_KEY_METHODS = {"interfaces": "intf", "subdomain_to_interfaces": "intf", "subdomains": "sd",
                       "boundaries": "bg"}
# pairs: (A, B, relation)   same: same key;  value: key of B is the value stored in A;
# cond: same key, B only for positive-dimensional subdomains
PAIRS = [(IF_DATA, IF_SD, "same"), (SD_BG, BG_DATA, "value"), (SD, SD_BG, "cond")]
LISTING = {"subdomains": SD, "interfaces": IF_DATA, "boundaries": BG_DATA}

META = {
    "explanation": (
        "Dict-typestate analysis of MixedDimensionalGrid's five parallel dictionaries on the statement CFG of every "
        "method. R1: _subdomain_to_boundary_grid/_boundary_grid_data are filled only for sd.dim>0, so every subscript "
        "read/del on them is guarded (`in` test, .get, try/except KeyError, same dim predicate), keyed by iteration "
        "over the dict, by a value read from the sd->bg map, or dominated by an earlier successful access with the "
        "same key (the repaired defect D2 is the unguarded form). R2: in every mutator each insert/delete on one dict "
        "of a pair (_interface_data/_interface_to_subdomains, _subdomain_to_boundary_grid/_boundary_grid_data, "
        "_subdomain_data/_subdomain_to_boundary_grid) has a partner on the other dict with the related key on exactly "
        "the same CFG paths (dominance + post-dominance), the boundary-grid side being allowed only a guard that is "
        "true for every dim>=1. R3: remove_subdomain and subdomain_to_interfaces select over all interfaces with the "
        "full disjunction pair[0]==sd or pair[1]==sd and delete/return every selected one. R4: replace_* keeps the "
        "tuple position of the replaced subdomain, transfers the stored data and builds the new boundary grid from the "
        "new subdomain; add_interface stores the pair returned by sort_subdomain_tuple. R5: the three listing methods "
        "return exactly the keys of their dict through argsort_grids/sort_* with data in lock-step; argsort_grids "
        "orders by descending dimension down to 0 and, within a dimension, gathers the positions by the ascending np.argsort "
        "of the grids' .id (a scatter through that argsort, i.e. the inverse permutation, is a finding). R6: no raise of a "
        "mutator is reachable from a mutation of the five dictionaries (a rejected call leaves no trace). R7: the per-grid "
        "loops of add_subdomains are dominated by a uniqueness test of the argument list (len(set(..)) vs len, `is` double "
        "loop, or de-duplication), else a grid listed twice gets two boundary grids. R8-R11 are clauses today's tree "
        "violates (known findings): re-keying must survive old is new; add_interface validates that the pair belongs to the "
        "container; listing methods never raise; the stored pair order is not re-sorted on read. Decides these "
        "structural clauses; does not decide the container's state for concrete histories, nor failures inside "
        "MortarGrid.update_* during a replacement."),
    "rule_text": "one obligation per (dict access | mutation event x pair | selection loop clause | re-key arm | "
                 "listing/sort clause | validation raise)",
    "trusted_base": ["python ast", "sa.core (loader, astutil, cfg)", "dict semantics: d[k] / del d[k] raise KeyError iff k absent",
                     "normalisation pre-pass (behaviour-preserving): aliases of the five dicts, dict.update({..}) -> item stores, "
                     "list comprehension -> loop, `if c: continue/return` + rest -> `if not c: rest`, statement calls to mutating "
                     "methods of the class inlined into the caller"],
    "assumptions": ["the five dicts are mutated only inside MixedDimensionalGrid (thorough tier sweeps src/porepy for "
                    "outside subscript stores/deletes)",
                    "Grid.dim is an int in 0..3 and Grid.id is unique and increasing with creation",
                    "methods interfaces()/subdomains()/boundaries()/subdomain_to_interfaces() return present keys (checked by R3/R5)"],
    "technique": "dict typestate over a statement CFG (dominance/post-dominance, reaching definitions) + shape rules for the sort key",
}
MIN_INSTANCES = {"R1": 6, "R2": 16, "R3": 6, "R4": 8, "R5": 20, "R6": 5, "R7": 1, "R8": 1, "R9": 1, "R10": 3, "R11": 1}


# ---------------------------------------------------------------------------------------
# events
# ---------------------------------------------------------------------------------------

@dataclass(eq=False)
class Ev:
    fn: ast.FunctionDef
    d: str                      # dict attribute name
    op: str                     # load | store | del | get
    key: ast.expr
    node: ast.AST               # the Subscript / Call
    stmt: ast.stmt
    value: Optional[ast.expr] = None    # stored value for op == store

    @property
    def q(self) -> str:
        return f"{CLS}.{self.fn.name}"


def _self_dict(node: ast.AST) -> Optional[str]:
    if isinstance(node, ast.Attribute) and isinstance(node.value, ast.Name) and node.value.id == "self" \
            and node.attr in DICTS:
        return node.attr
    return None


class FnInfo:
    """Per-method facts: events on the five dicts, parent map, CFG."""

    def __init__(self, fn: ast.FunctionDef):
        self.fn = fn
        self.pm = parent_map(fn)
        self.cfg = cfgmod.build(fn)
        self._node_cache: dict[int, int] = {}
        self._dom = None
        self._pdom = None
        self.events: list[Ev] = []
        for n in walk_local(fn):
            if isinstance(n, ast.Subscript) and _self_dict(n.value):
                st = enclosing_stmt(self.pm, n)
                op = {ast.Load: "load", ast.Store: "store", ast.Del: "del"}[type(n.ctx)]
                val = None
                if op == "store":
                    if isinstance(st, ast.Assign):
                        val = st.value
                    elif isinstance(st, ast.AnnAssign):
                        val = st.value
                    else:
                        raise Undecided(f"{MD}:{fn.name}: store into self.{n.value.attr} by {type(st).__name__}")
                self.events.append(Ev(fn, n.value.attr, op, n.slice, n, st, val))
            elif isinstance(n, ast.Call) and isinstance(n.func, ast.Attribute) and _self_dict(n.func.value):
                d, meth = n.func.value.attr, n.func.attr
                st = enclosing_stmt(self.pm, n)
                if meth == "get" and n.args:
                    self.events.append(Ev(fn, d, "get", n.args[0], n, st))
                elif meth == "pop" and n.args:
                    # pop(k) == del d[k]; pop(k, default) cannot raise
                    self.events.append(Ev(fn, d, "del", n.args[0], n, st,
                                          n.args[1] if len(n.args) > 1 else None))  # value set: cannot raise
                elif meth in ("items", "keys", "values", "copy"):
                    pass
                else:
                    raise Undecided(f"{MD}:{fn.name}: unknown dict operation self.{d}.{meth}(...)")
            elif isinstance(n, (ast.Assign, ast.AnnAssign, ast.AugAssign)) and fn.name != "__init__":
                for t in assigned_targets(n):
                    if _self_dict(t):
                        raise Undecided(f"{MD}:{fn.name}: whole-dict rebinding of self.{t.attr}")

    def node(self, stmt: ast.AST) -> int:
        k = id(stmt)
        if k not in self._node_cache:
            try:
                self._node_cache[k] = self.cfg.node_for(stmt)
            except KeyError:
                raise Undecided(f"{MD}:{self.fn.name}: statement not in CFG: {u(stmt)[:60]}")
        return self._node_cache[k]

    def dominates(self, a: int, b: int) -> bool:
        if self._dom is None:
            self._dom = self.cfg.dominators()
        return a in self._dom.get(b, set())

    def postdominates(self, a: int, b: int) -> bool:
        if self._pdom is None:
            self._pdom = self.cfg.postdominators()
        if b not in self._pdom:
            return True  # b cannot return normally
        return a in self._pdom[b]

    def common_loops(self, a: ast.AST, b: ast.AST) -> frozenset[int]:
        """CFG nodes of the loop headers enclosing both a and b (a path through one of them is the next iteration)."""
        la = [p for p, _ in self.enclosing(a, (ast.For, ast.While))]
        lb = {id(p) for p, _ in self.enclosing(b, (ast.For, ast.While))}
        return frozenset(self.node(p) for p in la if id(p) in lb)

    def mutations(self) -> list[Ev]:
        return [e for e in self.events if e.op in ("store", "del")]

    # ---- small dataflow helpers ----
    def strong_defs(self, name: str) -> list[ast.stmt]:
        out = []
        for s in stmts_local(self.fn):
            for t in assigned_targets(s):
                if isinstance(t, ast.Name) and t.id == name:
                    out.append(s)
        return out

    def reaching(self, name: str, at: ast.stmt) -> tuple[list[ast.stmt], bool]:
        """(definition statements of `name` reaching `at`, whether the entry value (parameter) reaches)."""
        defs = self.strong_defs(name)
        nodes = {self.node(d) for d in defs}
        atn = self.node(at)
        out = [d for d in defs if self.cfg.reachable(self.node(d), atn, frozenset(nodes - {self.node(d)}))]
        entry = self.cfg.reachable(cfgmod.ENTRY, atn, frozenset(nodes))
        return out, entry

    def value_defs(self, name: str, at: ast.stmt) -> Optional[list[ast.expr]]:
        """Right-hand sides of all plain `name = expr` definitions reaching `at`; None if some reaching
        definition is not a plain assignment (parameter, loop target, tuple unpacking)."""
        defs, entry = self.reaching(name, at)
        if entry or not defs:
            return None
        vals = []
        for d in defs:
            if isinstance(d, ast.Assign) and len(d.targets) == 1 and isinstance(d.targets[0], ast.Name):
                vals.append(d.value)
            elif isinstance(d, ast.AnnAssign) and d.value is not None and isinstance(d.target, ast.Name):
                vals.append(d.value)
            else:
                return None
        return vals

    def resolve(self, expr: ast.expr, at: ast.stmt, depth: int = 3) -> Optional[list[ast.expr]]:
        """Expressions `expr` may stand for at `at`, following plain local assignments (reaching
        definitions); None if a name has a non-plain reaching definition."""
        if not isinstance(expr, ast.Name) or depth == 0:
            return [expr]
        vals = self.value_defs(expr.id, at)
        if vals is None:
            return None
        out: list[ast.expr] = []
        defs, _ = self.reaching(expr.id, at)
        for v, d in zip(vals, defs):
            r = self.resolve(v, d, depth - 1) if isinstance(v, ast.Name) else [v]
            if r is None:
                return None
            out += r
        return out

    def enclosing(self, node: ast.AST, kinds) -> list[ast.AST]:
        """Enclosing nodes of the given kinds, innermost first, with the child through which we came."""
        out = []
        cur = node
        while cur in self.pm:
            par = self.pm[cur]
            if isinstance(par, kinds):
                out.append((par, cur))
            cur = par
        return out

    def in_body(self, par: ast.AST, child: ast.AST) -> bool:
        return any(child is s for s in getattr(par, "body", []))

    def key_loop(self, e: Ev) -> Optional[ast.For]:
        """Innermost enclosing for-loop whose target binds a name of the key."""
        kn = names_in(e.key)
        for par, child in self.enclosing(e.node, (ast.For,)):
            if self.in_body(par, child) and kn & {t.id for t in assigned_targets(par) if isinstance(t, ast.Name)}:
                return par
        return None


def _dim_pred(test: ast.expr, key: str):
    """`key.dim <op> const` -> python predicate on ints, else None."""
    if not (isinstance(test, ast.Compare) and len(test.ops) == 1):
        return None
    ops = {ast.Gt: operator.gt, ast.GtE: operator.ge, ast.Lt: operator.lt, ast.LtE: operator.le,
           ast.Eq: operator.eq, ast.NotEq: operator.ne}
    f = ops.get(type(test.ops[0]))
    l, r = test.left, test.comparators[0]
    if f is None:
        return None
    if u(l) == f"{key}.dim" and isinstance(r, ast.Constant) and isinstance(r.value, int):
        return lambda d, f=f, c=r.value: f(d, c)
    if u(r) == f"{key}.dim" and isinstance(l, ast.Constant) and isinstance(l.value, int):
        return lambda d, f=f, c=l.value: f(c, d)
    return None


def _conjuncts(test: ast.expr) -> list[ast.expr]:
    if isinstance(test, ast.BoolOp) and isinstance(test.op, ast.And):
        out = []
        for v in test.values:
            out += _conjuncts(v)
        return out
    return [test]


def _membership_guard(test: ast.expr, d: str) -> Optional[str]:
    """key text K if a conjunct of test is `K in self.d` / `K in self.d.keys()`."""
    for c in _conjuncts(test):
        if isinstance(c, ast.Compare) and len(c.ops) == 1 and isinstance(c.ops[0], ast.In):
            comp = c.comparators[0]
            if isinstance(comp, ast.Call) and isinstance(comp.func, ast.Attribute) and comp.func.attr == "keys":
                comp = comp.func.value
            if _self_dict(comp) == d:
                return u(c.left)
    return None


def _catches_keyerror(tr: ast.Try) -> bool:
    for h in tr.handlers:
        if h.type is None:
            return True
        names = [u(x) for x in (h.type.elts if isinstance(h.type, ast.Tuple) else [h.type])]
        if any(n.split(".")[-1] in ("KeyError", "LookupError", "Exception") for n in names):
            return True
    return False


def _iter_domain(fi: FnInfo, it: ast.expr, target: ast.expr, keyname: str, seen=()) -> Optional[str]:
    """Domain whose present keys `keyname` ranges over when bound by `for target in it`."""
    first = target.elts[0] if isinstance(target, (ast.Tuple, ast.List)) and target.elts else target
    e = it
    if isinstance(e, ast.Call) and call_name(e) in ("list", "tuple", "sorted") and len(e.args) == 1:
        e = e.args[0]
    if isinstance(e, ast.Call) and isinstance(e.func, ast.Attribute):
        d = _self_dict(e.func.value)
        if d and e.func.attr == "items":
            return DOMAIN[d] if isinstance(first, ast.Name) and first.id == keyname and first is not target else None
        if d and e.func.attr == "keys":
            return DOMAIN[d] if isinstance(target, ast.Name) and target.id == keyname else None
        if isinstance(e.func.value, ast.Name) and e.func.value.id == "self" and e.func.attr in PRESENT_KEY_METHODS:
            return PRESENT_KEY_METHODS[e.func.attr] if isinstance(target, ast.Name) and target.id == keyname else None
    if _self_dict(e):
        return DOMAIN[_self_dict(e)] if isinstance(target, ast.Name) and target.id == keyname else None
    if isinstance(e, ast.Name) and isinstance(target, ast.Name) and target.id == keyname and e.id not in seen:
        # a local list filled only by .append(x) with x a present key
        return _collected_domain(fi, e.id, seen + (e.id,))
    if isinstance(e, ast.Name) and isinstance(target, (ast.Tuple, ast.List)) and isinstance(first, ast.Name) \
            and first.id == keyname and e.id not in seen:
        # a local list of tuples (x, ...) with x a present key
        return _collected_domain(fi, e.id, seen + (e.id,), tuple_first=True)
    return None


def _collected_domain(fi: FnInfo, lst: str, seen, tuple_first: bool = False) -> Optional[str]:
    defs = fi.strong_defs(lst)
    for d in defs:
        v = d.value if isinstance(d, (ast.Assign, ast.AnnAssign)) else None
        if v is None or not ((isinstance(v, ast.List) and not v.elts) or (isinstance(v, ast.Call) and u(v) == "list()")):
            return None
    doms = set()
    for c in [n for n in walk_local(fi.fn) if isinstance(n, ast.Call)]:
        f = c.func
        if isinstance(f, ast.Attribute) and isinstance(f.value, ast.Name) and f.value.id == lst:
            if f.attr != "append" or len(c.args) != 1:
                return None
            item = c.args[0]
            if tuple_first:
                if not (isinstance(item, ast.Tuple) and item.elts):
                    return None
                item = item.elts[0]
            if not isinstance(item, ast.Name):
                return None
            dom = _name_domain(fi, item.id, c, seen)
            if dom is None:
                return None
            doms.add(dom)
    # any other use that could add elements (passed to a call is fine: read only by convention)
    return doms.pop() if len(doms) == 1 else None


def _name_domain(fi: FnInfo, name: str, at: ast.AST, seen=()) -> Optional[str]:
    """Domain of present keys that local `name` is known to range over at node `at` (bound by an
    enclosing for-loop over present keys)."""
    for par, child in fi.enclosing(at, (ast.For,)):
        if fi.in_body(par, child) and name in {t.id for t in assigned_targets(par) if isinstance(t, ast.Name)}:
            return _iter_domain(fi, par.iter, par.target, name, seen)
    return None


def _safe_reason(fi: FnInfo, e: Ev) -> Optional[str]:
    """Why access e cannot raise KeyError for a container that satisfies the pairing invariants, or None."""
    if e.op == "get" or (e.op == "del" and isinstance(e.node, ast.Call) and e.value is not None):
        return "get/pop with default"
    kt = u(e.key)
    # guards
    for par, child in fi.enclosing(e.node, (ast.If, ast.Try)):
        if isinstance(par, ast.If) and fi.in_body(par, child):
            if _membership_guard(par.test, e.d) == kt:
                return "guarded by `in`"
            if e.d == SD_BG and isinstance(e.key, ast.Name):
                for c in _conjuncts(par.test):
                    p = _dim_pred(c, e.key.id)
                    if p is not None and not p(0) and all(p(d) for d in (1, 2, 3)):
                        return "guarded by the insertion predicate dim>0"
        if isinstance(par, ast.Try) and fi.in_body(par, child) and _catches_keyerror(par):
            return "try/except KeyError"
    # keyed by iteration over present keys of the same domain
    if isinstance(e.key, ast.Name):
        dom = _name_domain(fi, e.key.id, e.node)
        if dom is not None and dom == DOMAIN[e.d]:
            return f"key iterates present keys ({dom})"
    # key is a value read from the sd->bg map (pair invariant: its values are the keys of _boundary_grid_data)
    if e.d == BG_DATA:
        vals = [e.key] if not isinstance(e.key, ast.Name) else fi.value_defs(e.key.id, e.stmt)
        if vals and all(_reads_map(v, SD_BG) is not None for v in vals):
            return "key read from _subdomain_to_boundary_grid"
    # dominated by an earlier successful access with the same key
    me = fi.node(e.stmt)
    for o in fi.events:
        if o is e or o.d != e.d or u(o.key) != kt or o.op not in ("load", "store"):
            continue
        on = fi.node(o.stmt)
        if on == me:
            # same statement: a load evaluated as part of the right-hand side precedes the store/del
            continue
        if fi.dominates(on, me) and not any(
                x.op == "del" and x.d == e.d and u(x.key) == kt and x is not e
                and fi.cfg.reachable(on, fi.node(x.stmt)) and fi.cfg.reachable(fi.node(x.stmt), me)
                for x in fi.events):
            if _names_stable(fi, e.key, o.stmt, e.stmt):
                return "dominated by an access with the same key"
    return None


def _reads_map(v: ast.AST, d: str) -> Optional[str]:
    """key text k if v is self.d[k] or self.d.pop(k) (both yield the stored value), else None."""
    if isinstance(v, ast.Subscript) and _self_dict(v.value) == d:
        return u(v.slice)
    if isinstance(v, ast.Call) and isinstance(v.func, ast.Attribute) and v.func.attr == "pop" and _self_dict(v.func.value) == d \
            and len(v.args) == 1:
        return u(v.args[0])
    return None


def _names_stable(fi: FnInfo, expr: ast.AST, a: ast.stmt, b: ast.stmt) -> bool:
    """No name of expr is re-assigned on a path a -> b that stays within one iteration of the loops
    enclosing both."""
    an, bn = fi.node(a), fi.node(b)
    avoid = fi.common_loops(a, b)
    for nm in names_in(expr):
        for d in fi.strong_defs(nm):
            dn = fi.node(d)
            if dn in (an, bn) or dn in avoid:
                continue
            if fi.cfg.reachable(an, dn, avoid) and fi.cfg.reachable(dn, bn, avoid):
                return False
    return True


# ---------------------------------------------------------------------------------------
# normalisation: behaviour-preserving rewrites of a method body into the forms the rules read
# ---------------------------------------------------------------------------------------

_NEG = {ast.In: ast.NotIn, ast.NotIn: ast.In, ast.Eq: ast.NotEq, ast.NotEq: ast.Eq, ast.Is: ast.IsNot,
        ast.IsNot: ast.Is, ast.Lt: ast.GtE, ast.GtE: ast.Lt, ast.Gt: ast.LtE, ast.LtE: ast.Gt}


def _negate(t: ast.expr) -> ast.expr:
    if isinstance(t, ast.UnaryOp) and isinstance(t.op, ast.Not):
        return t.operand
    if isinstance(t, ast.Compare) and len(t.ops) == 1 and type(t.ops[0]) in _NEG:
        return ast.copy_location(ast.Compare(left=t.left, ops=[_NEG[type(t.ops[0])]()], comparators=t.comparators), t)
    if isinstance(t, ast.BoolOp):
        op = ast.Or() if isinstance(t.op, ast.And) else ast.And()
        return ast.copy_location(ast.BoolOp(op=op, values=[_negate(v) for v in t.values]), t)
    return ast.copy_location(ast.UnaryOp(op=ast.Not(), operand=t), t)


def _simplify_not(t: ast.expr) -> ast.expr:
    if isinstance(t, ast.UnaryOp) and isinstance(t.op, ast.Not):
        inner = t.operand
        if isinstance(inner, (ast.Compare, ast.BoolOp)) or (isinstance(inner, ast.UnaryOp) and isinstance(inner.op, ast.Not)):
            return _simplify_not(_negate(inner)) if not isinstance(inner, ast.BoolOp) else _negate(inner)
    return t


def _norm_block(block: list[ast.stmt], exit_kind) -> list[ast.stmt]:
    """`if C: <exit>` followed by REST  ==>  `if not C: REST`   (exit = continue in a loop body, bare return in
    the function's own body: in both cases REST is all that remains of the block)."""
    out: list[ast.stmt] = []
    for i, s in enumerate(block):
        _norm_stmt(s, exit_kind)
        if isinstance(s, ast.If) and not s.orelse and len(s.body) == 1 and exit_kind is not None \
                and isinstance(s.body[0], exit_kind) and getattr(s.body[0], "value", None) is None and block[i + 1:]:
            rest = _norm_block(block[i + 1:], exit_kind)
            new = ast.copy_location(ast.If(test=_negate(s.test), body=rest, orelse=[]), s)
            out.append(new)
            return out
        if isinstance(s, ast.If):
            s.test = _simplify_not(s.test)
        out.append(s)
    return out


def _norm_stmt(s: ast.stmt, exit_kind) -> None:
    if isinstance(s, (ast.For, ast.While)):
        s.body = _norm_block(s.body, ast.Continue)
        s.orelse = _norm_block(s.orelse, None) if s.orelse else s.orelse
    elif isinstance(s, ast.If):
        s.body = _norm_block(s.body, None)
        s.orelse = _norm_block(s.orelse, None) if s.orelse else s.orelse
    elif isinstance(s, ast.With):
        s.body = _norm_block(s.body, None)
    elif isinstance(s, ast.Try):
        s.body = _norm_block(s.body, None)
        for h in s.handlers:
            h.body = _norm_block(h.body, None)


class _Rewrite(ast.NodeTransformer):
    """dict.update({k: v}) -> item stores; `L = [e for t in IT if C]` -> explicit loop; aliases of the five dicts."""

    def __init__(self, aliases: dict[str, str], derived: frozenset = frozenset()):
        self.aliases = aliases
        self.derived = derived      # local lists computed from the container's data

    def _from_self(self, comp: ast.ListComp) -> bool:
        return "self" in names_in(comp) or any(isinstance(g.iter, ast.Name) and g.iter.id in self.derived
                                                for g in comp.generators)

    def visit_Name(self, n: ast.Name):
        if n.id in self.aliases and isinstance(n.ctx, ast.Load):
            return ast.copy_location(ast.Attribute(value=ast.Name(id="self", ctx=ast.Load()), attr=self.aliases[n.id],
                                                   ctx=ast.Load()), n)
        return n

    def visit_FunctionDef(self, n):
        if getattr(self, "_root", None) is None:
            self._root = n
            self.generic_visit(n)
            n.body = self._flatten(n.body)
            return n
        return n  # nested defs untouched

    def _flatten(self, block):
        out = []
        for s in block:
            if isinstance(s, list):
                out += s
            else:
                for fld in ("body", "orelse", "finalbody"):
                    b = getattr(s, fld, None)
                    if isinstance(b, list) and b and isinstance(b[0], (ast.stmt, list)):
                        setattr(s, fld, self._flatten(b))
                for h in getattr(s, "handlers", []):
                    h.body = self._flatten(h.body)
                out.append(s)
        return out

    def visit_Expr(self, s: ast.Expr):
        self.generic_visit(s)
        c = s.value
        if isinstance(c, ast.Call) and isinstance(c.func, ast.Attribute) and c.func.attr == "update" \
                and _self_dict(c.func.value) and len(c.args) == 1 and not c.keywords:
            a = c.args[0]
            tgt = lambda k: ast.Subscript(value=c.func.value, slice=k, ctx=ast.Store())
            if isinstance(a, ast.Dict) and all(k is not None for k in a.keys):
                return [ast.fix_missing_locations(ast.copy_location(ast.Assign(targets=[tgt(k)], value=v), s))
                        for k, v in zip(a.keys, a.values)]
            if isinstance(a, ast.DictComp) and len(a.generators) == 1 and not a.generators[0].is_async:
                g = a.generators[0]
                body: list[ast.stmt] = [ast.Assign(targets=[tgt(a.key)], value=a.value)]
                if g.ifs:
                    body = [ast.If(test=g.ifs[0] if len(g.ifs) == 1 else ast.BoolOp(op=ast.And(), values=g.ifs),
                                   body=body, orelse=[])]
                loop = ast.For(target=g.target, iter=g.iter, body=body, orelse=[])
                return [ast.fix_missing_locations(ast.copy_location(loop, s))]
        return s

    def _comp_to_loop(self, s, target: ast.Name, comp: ast.ListComp):
        g = comp.generators[0]
        app = ast.Expr(value=ast.Call(func=ast.Attribute(value=ast.Name(id=target.id, ctx=ast.Load()), attr="append",
                                                         ctx=ast.Load()), args=[comp.elt], keywords=[]))
        body: list[ast.stmt] = [app]
        if g.ifs:
            body = [ast.If(test=g.ifs[0] if len(g.ifs) == 1 else ast.BoolOp(op=ast.And(), values=g.ifs), body=body, orelse=[])]
        init = ast.Assign(targets=[ast.Name(id=target.id, ctx=ast.Store())], value=ast.List(elts=[], ctx=ast.Load()))
        loop = ast.For(target=g.target, iter=g.iter, body=body, orelse=[])
        return [ast.fix_missing_locations(ast.copy_location(init, s)), ast.fix_missing_locations(ast.copy_location(loop, s))]

    def visit_Assign(self, s: ast.Assign):
        self.generic_visit(s)
        if len(s.targets) == 1 and isinstance(s.targets[0], ast.Name) and isinstance(s.value, ast.ListComp) \
                and len(s.value.generators) == 1 and s.targets[0].id not in names_in(s.value) \
                and self._from_self(s.value):
            return self._comp_to_loop(s, s.targets[0], s.value)
        return s

    def visit_AnnAssign(self, s: ast.AnnAssign):
        self.generic_visit(s)
        if isinstance(s.target, ast.Name) and isinstance(s.value, ast.ListComp) and len(s.value.generators) == 1 \
                and s.target.id not in names_in(s.value) and self._from_self(s.value):
            return self._comp_to_loop(s, s.target, s.value)
        return s


def _dict_aliases(fn: ast.FunctionDef) -> dict[str, str]:
    cand: dict[str, list] = {}
    for s in stmts_local(fn):
        for t in assigned_targets(s):
            if isinstance(t, ast.Name):
                v = s.value if isinstance(s, (ast.Assign, ast.AnnAssign)) and len(assigned_targets(s)) == 1 else None
                cand.setdefault(t.id, []).append(v)
    return {n: _self_dict(vs[0]) for n, vs in cand.items() if len(vs) == 1 and vs[0] is not None and _self_dict(vs[0])}


def _mutates(fn: ast.FunctionDef) -> bool:
    for n in walk_local(fn):
        if isinstance(n, ast.Subscript) and _self_dict(n.value) and isinstance(n.ctx, (ast.Store, ast.Del)):
            return True
        if isinstance(n, ast.Call) and isinstance(n.func, ast.Attribute) and _self_dict(n.func.value) \
                and n.func.attr in ("pop", "update", "clear", "setdefault", "popitem"):
            return True
    return False


class _Subst(ast.NodeTransformer):
    def __init__(self, mapping: dict[str, ast.expr], rename: dict[str, str]):
        self.mapping, self.rename = mapping, rename

    def visit_Name(self, n: ast.Name):
        import copy
        if n.id in self.rename:
            return ast.copy_location(ast.Name(id=self.rename[n.id], ctx=n.ctx), n)
        if n.id in self.mapping and isinstance(n.ctx, ast.Load):
            return ast.copy_location(copy.deepcopy(self.mapping[n.id]), n)
        return n


def _inline_calls(fn: ast.FunctionDef, meths: dict[str, ast.FunctionDef], inlined: set[str], depth: int = 0) -> None:
    """Replace statement calls `self.<m>(...)` to mutating methods of the class by the (normalised) body of m."""
    import copy
    counter = [0]

    def expand(block: list[ast.stmt]) -> list[ast.stmt]:
        out: list[ast.stmt] = []
        for s in block:
            for fld in ("body", "orelse", "finalbody"):
                b = getattr(s, fld, None)
                if isinstance(b, list) and b and isinstance(b[0], ast.stmt) and not isinstance(s, (ast.FunctionDef, ast.ClassDef)):
                    setattr(s, fld, expand(b))
            for h in getattr(s, "handlers", []):
                h.body = expand(h.body)
            c = s.value if isinstance(s, ast.Expr) else None
            if isinstance(c, ast.Call) and isinstance(c.func, ast.Attribute) and u(c.func.value) == "self" \
                    and c.func.attr in meths and c.func.attr != fn.name and _mutates_deep(meths[c.func.attr], meths):
                callee = meths[c.func.attr]
                if depth >= 2 or callee.args.vararg or callee.args.kwarg or any(isinstance(a, ast.Starred) for a in c.args):
                    raise Undecided(f"{MD}:{fn.name}: call to mutating helper {callee.name} cannot be inlined")
                body = [b for b in callee.body if not (isinstance(b, ast.Expr) and isinstance(b.value, ast.Constant))]
                if body and isinstance(body[-1], ast.Return) and body[-1].value is None:
                    body = body[:-1]
                if any(isinstance(n, ast.Return) for b in body for n in walk_local(b)):
                    raise Undecided(f"{MD}:{fn.name}: mutating helper {callee.name} returns from inside its body")
                params = [a.arg for a in callee.args.args if a.arg != "self"]
                defaults = callee.args.defaults
                dmap = {p: d for p, d in zip(params[len(params) - len(defaults):], defaults)} if defaults else {}
                mapping: dict[str, ast.expr] = dict(dmap)
                for pn, a in zip(params, c.args):
                    mapping[pn] = a
                for k in c.keywords:
                    if k.arg is None:
                        raise Undecided(f"{MD}:{fn.name}: **kwargs in call to {callee.name}")
                    mapping[k.arg] = k.value
                if set(params) - set(mapping):
                    raise Undecided(f"{MD}:{fn.name}: cannot bind arguments of {callee.name}")
                counter[0] += 1
                local = {t.id for b in body for st in [b] + list(stmts_local(b)) for t in assigned_targets(st)
                         if isinstance(t, ast.Name)} - set(params)
                # a parameter re-bound inside the helper becomes a local of the inlined copy
                rebound = {t.id for b in body for st in [b] + list(stmts_local(b)) for t in assigned_targets(st)
                           if isinstance(t, ast.Name)} & set(params)
                pre: list[ast.stmt] = []
                rename = {n: f"_inl{counter[0]}_{n}" for n in local | rebound}
                for pn in rebound:
                    pre.append(ast.Assign(targets=[ast.Name(id=rename[pn], ctx=ast.Store())], value=copy.deepcopy(mapping[pn])))
                    mapping.pop(pn)
                new = [_Subst(mapping, rename).visit(copy.deepcopy(b)) for b in body]
                for b in pre + new:
                    ast.copy_location(b, s)
                    for n in ast.walk(b):
                        if not hasattr(n, "lineno") or True:
                            n.lineno = getattr(s, "lineno", 0)
                            n.end_lineno = getattr(s, "end_lineno", 0)
                            n.col_offset = getattr(s, "col_offset", 0)
                            n.end_col_offset = getattr(s, "end_col_offset", 0)
                inlined.add(callee.name)
                out += pre + new
                continue
            out.append(s)
        return out

    fn.body = expand(fn.body)


def _mutates_deep(fn: ast.FunctionDef, meths: dict, seen=()) -> bool:
    if _mutates(fn):
        return True
    for c in walk_local(fn):
        if isinstance(c, ast.Call) and isinstance(c.func, ast.Attribute) and u(c.func.value) == "self" \
                and c.func.attr in meths and c.func.attr not in seen and c.func.attr != fn.name:
            if _mutates_deep(meths[c.func.attr], meths, seen + (fn.name,)):
                return True
    return False


def _normalise_methods(meths: dict[str, ast.FunctionDef]) -> tuple[dict[str, ast.FunctionDef], set[str]]:
    import copy
    out: dict[str, ast.FunctionDef] = {}
    for name, fn in meths.items():
        f2 = copy.deepcopy(fn)
        derived: set[str] = set()
        for _ in range(3):      # lists computed from self data, and lists computed from those
            for st in stmts_local(f2):
                if isinstance(st, (ast.Assign, ast.AnnAssign)) and isinstance(st.value, ast.ListComp):
                    tg = assigned_targets(st)
                    if len(tg) == 1 and isinstance(tg[0], ast.Name) and (
                            "self" in names_in(st.value) or any(isinstance(g.iter, ast.Name) and g.iter.id in derived
                                                                for g in st.value.generators)):
                        derived.add(tg[0].id)
        f2 = _Rewrite(_dict_aliases(f2), frozenset(derived)).visit(f2)
        ast.fix_missing_locations(f2)
        f2.body = _norm_block(f2.body, ast.Return)
        out[name] = f2
    inlined: set[str] = set()
    # callees first (two rounds are enough for helpers calling helpers)
    for _ in range(2):
        for name, fn in out.items():
            _inline_calls(fn, out, inlined)
    for fn in out.values():
        fn.body = _norm_block(fn.body, ast.Return)
        ast.fix_missing_locations(fn)
    return out, inlined



# ---------------------------------------------------------------------------------------
# R1
# ---------------------------------------------------------------------------------------

def _r1(ctx: Ctx, mod, infos: dict[str, FnInfo], mutators: set[str]) -> None:
    for name, fi in infos.items():
        for e in fi.events:
            if e.op == "store":
                continue
            if e.d == SD_BG or (e.d == BG_DATA and name in mutators):
                why = _safe_reason(fi, e)
                ctx.check("R1", why is not None, mod, e.q, e.node,
                          f"self.{e.d}[{u(e.key)}] is accessed ({e.op}) unconditionally, but entries exist only for "
                          f"subdomains with dim > 0 (add_subdomains): KeyError for a 0-d subdomain, after the container "
                          f"was already partly modified",
                          construct=f"{e.op} self.{e.d}[{u(e.key)}]", facts={"safe_because": why})
                ctx.sample({"rule": "R1", "method": name, "access": f"{e.op} {e.d}[{u(e.key)}]", "safe_because": why})
            elif e.d == BG_DATA:
                ctx.note(f"R1: {e.q}: self.{e.d}[{u(e.key)}] in a non-mutating getter - KeyError for an unknown "
                         f"boundary grid is the API contract (not an obligation)")


# ---------------------------------------------------------------------------------------
# R2
# ---------------------------------------------------------------------------------------

def _is_update(fi: FnInfo, e: Ev) -> bool:
    """A store whose key is already present (bound by iteration over present keys): an update, not an insert."""
    return (e.op == "store" and isinstance(e.key, ast.Name)
            and _name_domain(fi, e.key.id, e.node) == DOMAIN[e.d])


def _cooc(fi: FnInfo, sa: ast.AST, sb: ast.AST) -> bool:
    """Statements sa and sb are executed on exactly the same normally-returning paths."""
    a, b = fi.node(sa), fi.node(sb)
    if a == b or (fi.dominates(a, b) and fi.postdominates(b, a)) or (fi.dominates(b, a) and fi.postdominates(a, b)):
        return True
    # siblings of one block with no jump between them (covers bodies of try/except, where the CFG
    # conservatively lets every statement escape to the handler)
    pa, pb = fi.pm.get(sa), fi.pm.get(sb)
    if pa is not None and pa is pb:
        for field in ("body", "orelse", "finalbody"):
            blk = getattr(pa, field, None)
            if isinstance(blk, list) and any(x is sa for x in blk) and any(x is sb for x in blk):
                i, j = sorted([next(k for k, x in enumerate(blk) if x is sa), next(k for k, x in enumerate(blk) if x is sb)])
                jumps = [n for st in blk[i:j + 1] for n in walk_local(st)
                         if isinstance(n, (ast.Return, ast.Raise, ast.Break, ast.Continue))]
                return not jumps
    return False


def _every_iteration(fi: FnInfo, loop: ast.For, anchor: ast.AST) -> bool:
    """Every pass through the loop body executes `anchor` (no continue/conditional skip before it)."""
    inside = {id(n) for s in loop.body for n in ast.walk(s)}
    ln, an = fi.node(loop), fi.node(anchor)
    g = fi.cfg.g
    starts = [m for m in g.successors(ln) if g.edges[ln, m].get("cond") is True]
    seen, stack = set(), [s for s in starts if s != an]
    while stack:
        x = stack.pop()
        if x in seen:
            continue
        seen.add(x)
        for y in g.successors(x):
            if y == ln:
                return False
            if y == an or y not in fi.cfg.stmt or id(fi.cfg.stmt[y]) not in inside:
                continue
            stack.append(y)
    return True


def _p3_anchor(fi: FnInfo, e: Ev, old_keys: set[str]) -> ast.AST:
    """For an event on _subdomain_to_boundary_grid: the outermost directly enclosing guard that is
    admissible for the conditional pair (dim predicate true for all dim>=1; membership of the same /
    the replaced key in the map; try/except KeyError) - the event counts as happening where that guard is."""
    anchor: ast.AST = e.stmt
    cur: ast.AST = e.stmt
    kl = fi.key_loop(e)
    while cur in fi.pm:
        par = fi.pm[cur]
        if par is kl or isinstance(par, (ast.FunctionDef, ast.For, ast.While)):
            break
        if isinstance(par, ast.If) and fi.in_body(par, cur):
            ok = False
            mk = _membership_guard(par.test, SD_BG)
            if mk is not None and len(_conjuncts(par.test)) == 1 and (mk == u(e.key) or mk in old_keys):
                ok = True
            elif isinstance(e.key, ast.Name):
                p = _dim_pred(par.test, e.key.id)
                if p is not None:
                    if all(p(d) for d in (1, 2, 3)):
                        ok = True
                    else:
                        return e.stmt  # a decidable, too narrow guard: event stays conditional -> no co-occurrence
            if not ok:
                return anchor
            anchor = par
        elif isinstance(par, ast.Try) and fi.in_body(par, cur) and _catches_keyerror(par) and e.op == "del":
            anchor = par.body[0] if par.body else par
        elif isinstance(par, ast.If):
            return anchor
        cur = par
    return anchor


def _key_equiv(fi: FnInfo, e1: Ev, a1: ast.AST, e2: Ev, a2: ast.AST, k1: str, k2: str) -> bool:
    """Events refer to the same key object and happen on the same paths."""
    if k1 != k2:
        return False
    l1, l2 = fi.key_loop(e1), fi.key_loop(e2)
    if l1 is l2:
        return _cooc(fi, a1, a2) and _names_stable(fi, e1.key, *(_ordered(fi, e1.stmt, e2.stmt)))
    if l1 is None or l2 is None:
        return False
    if u(l1.iter) != u(l2.iter) or u(l1.target) != u(l2.target):
        return False
    first, second = _ordered(fi, l1, l2)
    if not _names_stable(fi, l1.iter, first, second):
        return False
    return (_cooc(fi, l1, l2) and _every_iteration(fi, l1, a1) and _every_iteration(fi, l2, a2))


def _ordered(fi: FnInfo, a: ast.stmt, b: ast.stmt):
    return (a, b) if fi.dominates(fi.node(a), fi.node(b)) else (b, a)


def _r2(ctx: Ctx, mod, infos: dict[str, FnInfo], mutators: set[str]) -> None:
    for name in sorted(mutators):
        fi = infos[name]
        muts = [e for e in fi.mutations() if not _is_update(fi, e)]
        for e in fi.mutations():
            if _is_update(fi, e):
                ctx.sample({"rule": "R2", "method": name, "update_of_present_key": f"{e.d}[{u(e.key)}]"})
        old_keys = {u(e.key) for e in muts if e.d == SD and e.op == "del"}
        for e in muts:
            for (A, B, rel) in PAIRS:
                if e.d not in (A, B):
                    continue
                other = B if e.d == A else A
                cands = [o for o in muts if o.d == other and o.op == e.op]
                partner = None
                for o in cands:
                    ea, eb = (e, o) if e.d == A else (o, e)   # ea on A, eb on B
                    if rel == "same":
                        ok = _key_equiv(fi, ea, ea.stmt, eb, eb.stmt, u(ea.key), u(eb.key))
                    elif rel == "cond":
                        ok = _key_equiv(fi, ea, ea.stmt, eb, _p3_anchor(fi, eb, old_keys), u(ea.key), u(eb.key))
                    else:  # value
                        ok = _value_related(fi, ea, eb) and _cooc(fi, ea.stmt, eb.stmt)
                    if ok:
                        partner = o
                        break
                verb = "inserted" if e.op == "store" else "deleted"
                ctx.check("R2", partner is not None, mod, e.q, e.node,
                          f"self.{e.d}[{u(e.key)}] is {verb} but self.{other} is not {verb} with the "
                          f"{'same key' if rel != 'value' else 'corresponding boundary grid'} on the same paths "
                          f"(the two dictionaries go out of step)",
                          construct=f"{e.op} self.{e.d}[{u(e.key)}] <-> self.{other}",
                          facts={"pair": [A, B], "relation": rel,
                                 "partner": f"{partner.op} {partner.d}[{u(partner.key)}]" if partner else None})
        ctx.sample({"rule": "R2", "method": name,
                    "events": [f"{e.op} {e.d}[{u(e.key)}]" for e in fi.mutations()]})


def _value_related(fi: FnInfo, ea: Ev, eb: Ev) -> bool:
    """ea on _subdomain_to_boundary_grid, eb on _boundary_grid_data: eb's key is ea's value."""
    if ea.op == "store":
        if not isinstance(ea.value, ast.Name):
            raise Undecided(f"{MD}:{fi.fn.name}: boundary grid stored in {SD_BG} is not a local name: {u(ea.value)}")
        if not (isinstance(eb.key, ast.Name) and eb.key.id == ea.value.id):
            return False
        return _names_stable(fi, eb.key, *(_ordered(fi, ea.stmt, eb.stmt)))
    # del: eb's key was read from the map under ea's key, before ea removes the entry
    if isinstance(eb.key, ast.Name):
        vals = fi.value_defs(eb.key.id, eb.stmt)
        if not vals:
            return False
        for v in vals:
            if _reads_map(v, SD_BG) != u(ea.key):
                return False
        defs, _ = fi.reaching(eb.key.id, eb.stmt)
        # the value is read before the mapping entry disappears (or by the very pop that removes it)
        return all(fi.dominates(fi.node(d), fi.node(ea.stmt)) and (fi.node(d) != fi.node(ea.stmt) or isinstance(ea.node, ast.Call))
                   for d in defs)
    if isinstance(eb.key, ast.Subscript) and _self_dict(eb.key.value) == SD_BG and u(eb.key.slice) == u(ea.key):
        return fi.dominates(fi.node(eb.stmt), fi.node(ea.stmt)) and fi.node(eb.stmt) != fi.node(ea.stmt)
    return False


# ---------------------------------------------------------------------------------------
# R3 selection of the interfaces of a subdomain
# ---------------------------------------------------------------------------------------

ALL_INTERFACE_SOURCES = "self.interfaces() | self._interface_data[.keys()/.items()] | self._interface_to_subdomains[...]"


def _selection_loops(fi: FnInfo):
    """for-loops that test membership of a parameter in the subdomain pair of the loop's interface and
    collect the interface."""
    params = {a.arg for a in fi.fn.args.args if a.arg != "self"}
    out = []
    for loop in [n for n in walk_local(fi.fn) if isinstance(n, ast.For)]:
        tnames = [t.id for t in assigned_targets(loop) if isinstance(t, ast.Name)]
        if not tnames:
            continue
        ivar = tnames[0]
        # names holding the pair of ivar
        pair_names = set()
        lit = loop.iter
        src_iter = loop.iter
        if isinstance(lit, ast.Call) and call_name(lit) in ("list", "tuple") and len(lit.args) == 1:
            lit = lit.args[0]
        if len(tnames) == 2 and isinstance(lit, ast.Call) and isinstance(lit.func, ast.Attribute) \
                and lit.func.attr == "items" and _self_dict(lit.func.value) == IF_SD:
            pair_names.add(tnames[1])
        if len(tnames) == 2 and isinstance(lit, ast.Name):
            # a local list of (interface, its pair) tuples collected, unfiltered, from some interface source
            col = _pair_list_source(fi, lit.id)
            if col is not None:
                pair_names.add(tnames[1])
                src_iter = col
        for s in loop.body:
            if isinstance(s, ast.Assign) and len(s.targets) == 1 and isinstance(s.targets[0], ast.Name):
                v = s.value
                if isinstance(v, ast.Subscript) and _self_dict(v.value) == IF_SD and u(v.slice) == ivar:
                    pair_names.add(s.targets[0].id)
                if isinstance(v, ast.Call) and u(v.func) == "self.interface_to_subdomain_pair" and \
                        [u(a) for a in v.args] == [ivar]:
                    pair_names.add(s.targets[0].id)
        # the pair may also be written inline
        pair_names |= {f"self.{IF_SD}[{ivar}]", f"self.interface_to_subdomain_pair({ivar})"}
        for iff in [s for s in loop.body if isinstance(s, ast.If)]:
            if not any(u(n) in pair_names for n in ast.walk(iff.test)):
                continue
            apps = [c for st in iff.body for c in ast.walk(st) if isinstance(c, ast.Call) and call_name(c) == "append"
                    and len(c.args) == 1 and u(c.args[0]) == ivar and isinstance(c.func.value, ast.Name)]
            if apps and not iff.orelse:
                out.append((loop, ivar, pair_names, iff, apps[0].func.value.id, params, src_iter))
    return out


def _pair_list_source(fi: FnInfo, lst: str) -> Optional[ast.expr]:
    """If local list `lst` is filled, unconditionally and only, by `lst.append((x, <pair of x>))` in one loop `for x in SRC`,
    return SRC."""
    apps = [c for c in walk_local(fi.fn) if isinstance(c, ast.Call) and isinstance(c.func, ast.Attribute)
            and isinstance(c.func.value, ast.Name) and c.func.value.id == lst and c.func.attr in ("append", "extend", "insert")]
    if len(apps) != 1 or apps[0].func.attr != "append" or len(apps[0].args) != 1:
        return None
    item = apps[0].args[0]
    st = enclosing_stmt(fi.pm, apps[0])
    loop = fi.pm.get(st)
    if not (isinstance(loop, ast.For) and isinstance(loop.target, ast.Name) and fi.in_body(loop, st)):
        return None
    x = loop.target.id
    if not (isinstance(item, ast.Tuple) and len(item.elts) == 2 and u(item.elts[0]) == x
            and u(item.elts[1]) in (f"self.{IF_SD}[{x}]", f"self.interface_to_subdomain_pair({x})")):
        return None
    inits = [d for d in fi.strong_defs(lst)]
    if not all(isinstance(d, (ast.Assign, ast.AnnAssign)) and isinstance(d.value, ast.List) and not d.value.elts for d in inits):
        return None
    return loop.iter


def _pair_test(test: ast.expr, pair_names: set[str], params: set[str]):
    """-> (connective, {indices}, param) or None if not of the recognised family."""
    vals = test.values if isinstance(test, ast.BoolOp) else [test]
    conn = "or" if isinstance(test, ast.BoolOp) and isinstance(test.op, ast.Or) else (
        "and" if isinstance(test, ast.BoolOp) else "single")
    idx, who = set(), set()
    for v in vals:
        if not (isinstance(v, ast.Compare) and len(v.ops) == 1):
            return None
        l, r, op = v.left, v.comparators[0], v.ops[0]
        if isinstance(op, ast.In) and isinstance(l, ast.Name) and l.id in params and u(r) in pair_names:
            idx |= {0, 1}
            who.add(l.id)
            continue
        if not isinstance(op, (ast.Eq, ast.Is)):
            return None
        for a, b in ((l, r), (r, l)):
            if isinstance(a, ast.Subscript) and u(a.value) in pair_names \
                    and isinstance(a.slice, ast.Constant) and a.slice.value in (0, 1) \
                    and isinstance(b, ast.Name) and b.id in params:
                idx.add(a.slice.value)
                who.add(b.id)
                break
        else:
            return None
    if len(who) != 1:
        return None
    return conn, idx, who.pop()


def _accepted_codims(infos: dict) -> set[int]:
    """Co-dimensions |dim difference| that add_interface lets through (read from its validating test)."""
    fi = infos.get("add_interface")
    if fi is None:
        raise AnchorError(f"{MD}:{CLS}.add_interface missing")
    for iff in [n for n in walk_local(fi.fn) if isinstance(n, ast.If)]:
        t = iff.test
        if not (isinstance(t, ast.Compare) and len(t.ops) == 1):
            continue
        sides = [t.left, t.comparators[0]]
        res = []
        for x in sides:
            if isinstance(x, ast.Name):
                r = fi.resolve(x, iff)
                x = r[0] if r and len(r) == 1 else x
            res.append(x)
        idx = [i for i, x in enumerate(res) if isinstance(x, ast.Call) and call_name(x) in ("abs", "absolute")
               and ".dim" in u(x) and any(isinstance(n, ast.BinOp) and isinstance(n.op, ast.Sub) for n in ast.walk(x))]
        const = [i for i, x in enumerate(res) if isinstance(x, ast.Constant) and isinstance(x.value, int)]
        if len(idx) != 1 or len(const) != 1:
            continue
        ops = {ast.Lt: operator.lt, ast.LtE: operator.le, ast.Gt: operator.gt, ast.GtE: operator.ge, ast.Eq: operator.eq,
               ast.NotEq: operator.ne}
        f_ = ops.get(type(t.ops[0]))
        if f_ is None:
            continue
        c = res[const[0]].value
        body_raises = any(isinstance(n, ast.Raise) for b_ in iff.body for n in ast.walk(b_))
        else_raises = any(isinstance(n, ast.Raise) for b_ in iff.orelse for n in ast.walk(b_))
        acc = set()
        for k in range(0, 4):
            val = f_(k, c) if idx[0] == 0 else f_(c, k)
            if (val and not body_raises) or (not val and not else_raises):
                acc.add(k)
        if body_raises or else_raises:
            return acc
    raise Undecided(f"{MD}:{CLS}.add_interface: cannot read which co-dimensions are accepted")


def _source_coverage(fi: FnInfo, it: ast.expr, loop: ast.For, sdname: Optional[str], codims: set[int]):
    """Does the iterable `it` contain every interface that may have the subdomain `sdname` in its pair?
    -> (True, None) | (False, witness text) | None when the expression cannot be interpreted.
    The source is interpreted as a predicate on (interface dim, interface codim) for each value of sd.dim in 0..3."""

    def num(e: ast.expr, d: int, env: dict):
        if isinstance(e, ast.Constant) and isinstance(e.value, int):
            return e.value
        if isinstance(e, ast.Attribute) and e.attr == "dim" and isinstance(e.value, ast.Name) and e.value.id == sdname:
            return d
        if isinstance(e, ast.Attribute) and isinstance(e.value, ast.Name) and e.value.id in env and e.attr in ("dim", "codim"):
            return env[e.value.id][0 if e.attr == "dim" else 1]
        if isinstance(e, ast.BinOp) and isinstance(e.op, (ast.Add, ast.Sub)):
            l, r = num(e.left, d, env), num(e.right, d, env)
            if l is None or r is None:
                return None
            return l + r if isinstance(e.op, ast.Add) else l - r
        if isinstance(e, ast.UnaryOp) and isinstance(e.op, ast.USub):
            v = num(e.operand, d, env)
            return None if v is None else -v
        if isinstance(e, ast.Name):
            r = fi.resolve(e, loop)
            if r and len(r) == 1 and r[0] is not e:
                return num(r[0], d, env)
        return None

    def pred(t: ast.expr, d: int, env: dict):
        if isinstance(t, ast.BoolOp):
            vs = [pred(v, d, env) for v in t.values]
            if any(v is None for v in vs):
                return None
            return all(vs) if isinstance(t.op, ast.And) else any(vs)
        if isinstance(t, ast.UnaryOp) and isinstance(t.op, ast.Not):
            v = pred(t.operand, d, env)
            return None if v is None else not v
        if isinstance(t, ast.Compare) and len(t.ops) == 1:
            ops = {ast.Lt: operator.lt, ast.LtE: operator.le, ast.Gt: operator.gt, ast.GtE: operator.ge, ast.Eq: operator.eq,
                   ast.NotEq: operator.ne}
            l = num(t.left, d, env)
            if isinstance(t.ops[0], (ast.In, ast.NotIn)) and isinstance(t.comparators[0], (ast.Tuple, ast.List, ast.Set)):
                rs = [num(x, d, env) for x in t.comparators[0].elts]
                if l is None or any(r is None for r in rs):
                    return None
                return (l in rs) == isinstance(t.ops[0], ast.In)
            r = num(t.comparators[0], d, env)
            f_ = ops.get(type(t.ops[0]))
            if l is None or r is None or f_ is None:
                return None
            return f_(l, r)
        return None

    def member(e: ast.expr, d: int, idim: int, c: int):
        """True/False: interface (idim, c) is in the collection e when sd.dim == d; None: unknown."""
        if isinstance(e, ast.Name):
            r = fi.resolve(e, loop)
            if r and len(r) == 1 and r[0] is not e:
                return member(r[0], d, idim, c)
            return None
        if isinstance(e, ast.Call) and call_name(e) in ("list", "tuple", "set", "sorted") and len(e.args) == 1:
            return member(e.args[0], d, idim, c)
        if isinstance(e, ast.Call) and isinstance(e.func, ast.Attribute) and e.func.attr in ("keys", "items") \
                and _self_dict(e.func.value) in (IF_DATA, IF_SD):
            return True
        if _self_dict(e) in (IF_DATA, IF_SD):
            return True
        if isinstance(e, ast.Call) and u(e.func) in ("self.interfaces", "self.sort_interfaces"):
            if u(e.func) == "self.sort_interfaces":
                return member(e.args[0], d, idim, c) if len(e.args) == 1 else None
            kw = {k.arg: k.value for k in e.keywords}
            pos = ["return_data", "dim", "codim"]
            for i, a in enumerate(e.args):
                if i < len(pos):
                    kw[pos[i]] = a
            if set(kw) - {"return_data", "dim", "codim"} or None in kw:
                return None
            ok = True
            for key, val in (("dim", idim), ("codim", c)):
                if key in kw and not (isinstance(kw[key], ast.Constant) and kw[key].value is None):
                    v = num(kw[key], d, {})
                    if v is None:
                        return None
                    ok = ok and v == val
            return ok
        if isinstance(e, ast.BinOp) and isinstance(e.op, (ast.Add, ast.BitOr)):
            l, r = member(e.left, d, idim, c), member(e.right, d, idim, c)
            if l is True or r is True:
                return True
            return None if (l is None or r is None) else False
        if isinstance(e, ast.Call) and call_name(e) == "chain":
            vs = [member(a, d, idim, c) for a in e.args]
            return True if any(v is True for v in vs) else (None if any(v is None for v in vs) else False)
        if isinstance(e, (ast.ListComp, ast.GeneratorExp)) and len(e.generators) == 1 and isinstance(e.generators[0].target, ast.Name) \
                and u(e.elt) == e.generators[0].target.id:
            g = e.generators[0]
            base = member(g.iter, d, idim, c)
            if base is not True:
                return base
            for cond in g.ifs:
                v = pred(cond, d, {g.target.id: (idim, c)})
                if v is None:
                    return None
                if not v:
                    return False
            return True
        return None

    for d in range(0, 4):
        adjacent = {(d, c) for c in codims if d + c <= 3} | {(d - c, c) for c in codims if d - c >= 0}
        for idim, c in sorted(adjacent):
            if idim > 2:
                continue    # a mortar grid cannot be 3d
            m = member(it, d, idim, c)
            if m is None:
                return None
            if not m:
                role = "the secondary" if idim == d and c > 0 else ("the primary" if c > 0 else "a same-dimensional")
                return False, (f"sd.dim={d}: interfaces of dimension {idim} and co-dimension {c} "
                               f"(sd is {role} neighbour)")
    return True, None



def _r3(ctx: Ctx, mod, infos: dict[str, FnInfo]) -> None:
    for name in ("remove_subdomain", "subdomain_to_interfaces"):
        fi = infos.get(name)
        if fi is None:
            raise AnchorError(f"{MD}:{CLS}.{name} missing")
        sels = _selection_loops(fi)
        q = f"{CLS}.{name}"
        if not sels and name == "remove_subdomain":
            # delegation: the interfaces of `sd` are obtained from subdomain_to_interfaces(sd), itself checked below
            params0 = [a.arg for a in fi.fn.args.args if a.arg != "self"]
            dele = [(kl, e) for e in fi.mutations() if e.op == "del" and e.d in (IF_DATA, IF_SD)
                    for kl in [fi.key_loop(e)] if kl is not None]
            srcs = []
            for kl, e in dele:
                vals = fi.resolve(kl.iter, kl) or [kl.iter]
                srcs.append(all(isinstance(v, ast.Call) and u(v.func) == "self.subdomain_to_interfaces"
                                and [u(a) for a in v.args] == params0[:1] for v in vals))
            if dele and all(srcs):
                for what in ("source", "predicate"):
                    ctx.check("R3", True, mod, q, dele[0][0], f"selection {what} delegated to subdomain_to_interfaces({params0[0]})",
                              construct=f"selection {what}: subdomain_to_interfaces({params0[0]})")
                ok = {e.d for _, e in dele} == {IF_DATA, IF_SD} and all(_every_iteration(fi, kl, e.stmt) for kl, e in dele)
                ctx.check("R3", ok, mod, q, dele[0][0],
                          "every selected interface must be deleted from _interface_data and _interface_to_subdomains",
                          construct="delete all selected interfaces")
                continue
        if len(sels) != 1:
            raise Undecided(f"{MD}:{CLS}.{name}: expected one interface selection loop, found {len(sels)}")
        loop, ivar, pair_names, iff, lst, params, it = sels[0]
        # (a) source covers every interface that can be adjacent to the subdomain
        who0 = sorted(params)[0] if len(params) == 1 else None
        codims = _accepted_codims(infos)
        cov = _source_coverage(fi, it, loop, who0, codims)
        if cov is None:
            raise Undecided(f"{MD}:{q}: interface source `{u(it)}` not interpretable ({ALL_INTERFACE_SOURCES}, or dim/codim-filtered "
                            f"self.interfaces(...) calls, their concatenation, a filtering comprehension)")
        src_ok, witness = cov
        ctx.check("R3", src_ok, mod, q, it,
                  "the interfaces of a subdomain must be searched among all interfaces that can have it as a neighbour (interface "
                  f"dimension sd.dim, sd.dim-1, sd.dim-2 ... for the co-dimensions {sorted(codims)} accepted by add_interface); "
                  f"this source misses e.g. {witness}: such an interface stays listed and keeps pointing at the removed subdomain",
                  construct=f"selection source {u(it)}", facts={"source": u(it), "missed": witness, "codims": sorted(codims)})
        # (b) predicate
        pt = _pair_test(iff.test, pair_names, params)
        if pt is None:
            raise Undecided(f"{MD}:{q}: selection test `{u(iff.test)}` not of the form pair[0]==sd or pair[1]==sd")
        conn, idx, who = pt
        ok = idx == {0, 1} and conn in ("or", "single")
        ctx.check("R3", ok, mod, q, iff.test,
                  f"an interface belongs to subdomain `{who}` iff the subdomain is at position 0 or at position 1 of its "
                  f"pair; found connective '{conn}' over positions {sorted(idx)}",
                  construct=f"selection test {u(iff.test)}", facts={"connective": conn, "positions": sorted(idx)})
        ctx.sample({"rule": "R3", "method": name, "source": u(it), "test": u(iff.test), "collects_into": lst})
        # (c) what happens to the selected ones
        if name == "remove_subdomain":
            dels = [e for e in fi.mutations() if e.op == "del" and e.d in (IF_DATA, IF_SD)]
            good = []
            for e in dels:
                kl = fi.key_loop(e)
                good.append(kl is not None and ((isinstance(kl.iter, ast.Name) and kl.iter.id == lst) or kl is loop)
                            and _every_iteration(fi, kl, e.stmt if kl is not loop else iff))
            ok = bool(dels) and all(good) and {e.d for e in dels} == {IF_DATA, IF_SD}
            ctx.check("R3", ok, mod, q, loop,
                      "every selected interface must be deleted from _interface_data and _interface_to_subdomains",
                      construct=f"delete all of {lst}", facts={"deletes": [f"{e.d}[{u(e.key)}]" for e in dels]})
            # the selection must not depend on the entry it is about to lose: pair lookups are keyed by the loop
        else:
            rets = [s for s in stmts_local(fi.fn) if isinstance(s, ast.Return)]
            ok = bool(rets) and all(r.value is not None and lst in names_in(r.value) for r in rets)
            ctx.check("R3", ok, mod, q, rets[0] if rets else fi.fn,
                      "the collected interfaces must be what is returned", construct=f"return of {lst}")


# ---------------------------------------------------------------------------------------
# R4 re-keying
# ---------------------------------------------------------------------------------------

def pair_members(fn: ast.FunctionDef, key: str, dominates) -> dict[str, int]:
    """Texts that denote member 0 / 1 of the subdomain pair of interface `key`: `P[0]`, `P[1]` for a name P bound to
    the pair, or the two names of `a, b = <pair>`; only bindings for which dominates(stmt) holds count."""
    out: dict[str, int] = {}
    pair_texts = (f"self.{IF_SD}[{key}]", f"self.interface_to_subdomain_pair({key})")
    for t_ in pair_texts:
        out[f"{t_}[0]"], out[f"{t_}[1]"] = 0, 1
    for s in stmts_local(fn):
        if isinstance(s, (ast.Assign, ast.AnnAssign)) and s.value is not None and u(s.value) in pair_texts:
            tgts = s.targets if isinstance(s, ast.Assign) else [s.target]
            try:
                if not dominates(s):
                    continue
            except Exception:
                continue
            for t in tgts:
                if isinstance(t, ast.Name):
                    out[f"{t.id}[0]"], out[f"{t.id}[1]"] = 0, 1
                elif isinstance(t, (ast.Tuple, ast.List)) and len(t.elts) == 2 and all(isinstance(x, ast.Name) for x in t.elts):
                    out[t.elts[0].id], out[t.elts[1].id] = 0, 1
    return out


def _r4(ctx: Ctx, mod, infos: dict[str, FnInfo]) -> None:
    # ---- add_interface stores the sorted pair
    fi = infos.get("add_interface")
    if fi is None:
        raise AnchorError(f"{MD}:{CLS}.add_interface missing")
    stores = [e for e in fi.mutations() if e.d == IF_SD and e.op == "store"]
    if not stores:
        ctx.check("R4", False, mod, f"{CLS}.add_interface", fi.fn,
                  "add_interface never records the subdomain pair of the new interface", construct="store of the sorted pair missing")
    for e in stores:
        vals = fi.resolve(e.value, e.stmt, depth=5)
        if vals is None:
            vals = [None]
        ok = bool(vals) and all(v is not None and isinstance(v, ast.Call) and u(v.func) == "self.sort_subdomain_tuple"
                                for v in vals)
        ctx.check("R4", ok, mod, e.q, e.node,
                  "the pair stored for an interface must be the one returned by sort_subdomain_tuple (higher-dimensional "
                  "subdomain first) on every path; the caller's ordering is arbitrary",
                  construct=f"store self.{IF_SD}[{u(e.key)}] = sorted pair",
                  facts={"reaching_values": [u(v) if v is not None else "<parameter>" for v in vals]})

    # ---- boundary grid stored for k is built from k  (add_subdomains, replace)
    for name, fi2 in infos.items():
        for e in [x for x in fi2.mutations() if x.d == SD_BG and x.op == "store"]:
            vals = [e.value] if not isinstance(e.value, ast.Name) else fi2.value_defs(e.value.id, e.stmt)
            if not vals:
                raise Undecided(f"{MD}:{e.q}: value stored in {SD_BG} has no plain definition")
            oks = []
            for v in vals:
                if not (isinstance(v, ast.Call) and call_name(v) == "BoundaryGrid"):
                    raise Undecided(f"{MD}:{e.q}: value stored in {SD_BG} is not a BoundaryGrid(...) construction: {u(v)}")
                g = kwarg(v, "g") or (v.args[0] if v.args else None)
                oks.append(g is not None and u(g) == u(e.key))
            ctx.check("R4", all(oks), mod, e.q, e.node,
                      f"the boundary grid registered for `{u(e.key)}` must be constructed from `{u(e.key)}` itself",
                      construct=f"store self.{SD_BG}[{u(e.key)}] = BoundaryGrid(...)",
                      facts={"constructed": [u(v) for v in vals]})

    # ---- replace_subdomains_and_interfaces
    fi = infos.get("replace_subdomains_and_interfaces")
    if fi is None:
        raise AnchorError(f"{MD}:{CLS}.replace_subdomains_and_interfaces missing")
    q = f"{CLS}.replace_subdomains_and_interfaces"
    sd_st = [e for e in fi.mutations() if e.d == SD and e.op == "store"]
    sd_del = [e for e in fi.mutations() if e.d == SD and e.op == "del"]
    if len(sd_st) != 1 or len(sd_del) != 1:
        if any(fd.rule == "R2" and fd.qualname == q for fd in ctx.findings):
            return  # the unpaired insert/delete is already reported by R2; old/new cannot be told apart here
        raise Undecided(f"{MD}:{q}: expected one insert and one delete on {SD}")
    new, old = u(sd_st[0].key), u(sd_del[0].key)
    # data transfer
    vals = fi.resolve(sd_st[0].value, sd_st[0].stmt) or []
    ok = bool(vals) and all(_reads_map(x, SD) == old for x in vals)
    ctx.check("R4", ok, mod, q, sd_st[0].node,
              f"the data dictionary of the replaced subdomain must be re-keyed: self.{SD}[{new}] = self.{SD}[{old}]",
              construct=f"store self.{SD}[{new}] = data of {old}", facts={"values": [u(x) for x in vals]})
    bg_st = [e for e in fi.mutations() if e.d == BG_DATA and e.op == "store"]
    for e in bg_st:
        v = e.value
        vs = fi.resolve(v, e.stmt) or []
        ok = bool(vs)
        for x in vs:
            if _reads_map(x, BG_DATA) is None:
                ok = False
                continue
            xkey = x.slice if isinstance(x, ast.Subscript) else x.args[0]
            at = e.stmt
            if isinstance(v, ast.Name):
                ds, _ = fi.reaching(v.id, e.stmt)
                at = ds[0] if len(ds) == 1 else e.stmt
            kv = fi.resolve(xkey, at) or []
            ok = ok and bool(kv) and all(_reads_map(k, SD_BG) == old for k in kv)
        ctx.check("R4", ok, mod, q, e.node,
                  "the boundary data of the replaced subdomain's boundary grid must be re-keyed to the new boundary grid",
                  construct=f"store self.{BG_DATA}[{u(e.key)}] = data of old boundary grid", facts={"value": u(v)})
    # tuple positions
    ups = [e for e in fi.mutations() if e.d == IF_SD and e.op == "store"]
    if not ups:
        raise AnchorError(f"{MD}:{q}: no update of {IF_SD}")
    covered = set()
    for e in ups:
        # guarding test <member i of the interface's pair> == old
        members = pair_members(fi.fn, u(e.key), lambda st: fi.dominates(fi.node(st), fi.node(e.stmt)))
        if not members:
            raise Undecided(f"{MD}:{q}: the subdomain pair of `{u(e.key)}` is not looked up before it is re-keyed")
        pos = None
        for par, child in fi.enclosing(e.node, (ast.If,)):
            if not fi.in_body(par, child):
                continue
            t = par.test
            if isinstance(t, ast.Compare) and len(t.ops) == 1 and isinstance(t.ops[0], (ast.Eq, ast.Is)):
                for a_, b_ in ((t.left, t.comparators[0]), (t.comparators[0], t.left)):
                    if u(a_) in members and u(b_) == old:
                        pos = members[u(a_)]
            if pos is not None:
                break
        if pos is None:
            raise Undecided(f"{MD}:{q}: update of {IF_SD}[{u(e.key)}] not guarded by `<pair member> == {old}`")
        val = e.value
        ok = (isinstance(val, ast.Tuple) and len(val.elts) == 2 and u(val.elts[pos]) == new
              and members.get(u(val.elts[1 - pos])) == 1 - pos)
        pair = "pair"
        covered.add(pos)
        ctx.check("R4", ok, mod, q, e.node,
                  f"replacing the subdomain at position {pos} of an interface's pair must store the new subdomain at "
                  f"position {pos} and keep {pair}[{1 - pos}] at position {1 - pos}",
                  construct=f"re-key pair position {pos}: {u(val)}", facts={"position": pos, "stored": u(val)})
        ctx.sample({"rule": "R4", "position": pos, "stored": u(val)})
    ctx.check("R4", covered == {0, 1}, mod, q, ups[0].node,
              "both positions (primary and secondary) of an interface's pair must be re-keyed when they hold the replaced subdomain",
              construct="re-key covers positions 0 and 1", facts={"covered": sorted(covered)})


# ---------------------------------------------------------------------------------------
# R5 sorting
# ---------------------------------------------------------------------------------------

SORT_CALLS = ("argsort_grids", "sort_subdomains", "sort_interfaces")


def _sort_call(e: ast.AST) -> Optional[ast.Call]:
    if isinstance(e, ast.Call) and isinstance(e.func, ast.Attribute) and u(e.func.value) == "self" and e.func.attr in SORT_CALLS:
        return e
    return None


def _r5_listing(ctx: Ctx, mod, fi: FnInfo, name: str, d: str) -> None:
    q = f"{CLS}.{name}"
    fn = fi.fn
    # collection loop
    loops = [n for n in walk_local(fn) if isinstance(n, ast.For) and isinstance(n.iter, ast.Call)
             and isinstance(n.iter.func, ast.Attribute) and n.iter.func.attr in ("items", "keys")
             and _self_dict(n.iter.func.value)]
    loops += [n for n in walk_local(fn) if isinstance(n, ast.For) and _self_dict(n.iter)]
    if len(loops) != 1:
        raise Undecided(f"{MD}:{q}: expected one collection loop over a container dict, found {len(loops)}")
    loop = loops[0]
    src = _self_dict(loop.iter) or _self_dict(loop.iter.func.value)
    ctx.check("R5", src == d, mod, q, loop.iter,
              f"{name}() must enumerate the keys of self.{d} (each present object exactly once)",
              construct=f"{name} collects from self.{src}", facts={"source": src})
    tn = [t.id for t in assigned_targets(loop) if isinstance(t, ast.Name)]
    kvar = tn[0]
    dvar = tn[1] if len(tn) > 1 else None
    apps = {}
    for c in [n for s in loop.body for n in ast.walk(s) if isinstance(n, ast.Call)]:
        if call_name(c) == "append" and isinstance(c.func.value, ast.Name) and len(c.args) == 1:
            apps.setdefault(u(c.args[0]), []).append((c.func.value.id, fi.pm[enclosing_stmt(fi.pm, c)], c))
    if kvar not in apps or len(apps[kvar]) != 1:
        raise Undecided(f"{MD}:{q}: key list append not found")
    glist, gparent, _ = apps[kvar][0]
    dlist = None
    if dvar and dvar in apps:
        dlist, dparent, _ = apps[dvar][0]
        ctx.check("R5", dparent is gparent, mod, q, apps[dvar][0][2],
                  "grid list and data list must be appended in the same block (same filter), else positions disagree",
                  construct=f"lock-step append {glist}/{dlist}")
    else:
        # data collected afterwards, aligned with the grid list: for g in <glist>: <dlist>.append(self.<d>[g])
        for lp in [n for n in walk_local(fn) if isinstance(n, ast.For) and u(n.iter) == glist and isinstance(n.target, ast.Name)]:
            for c in [n for st in lp.body for n in ast.walk(st) if isinstance(n, ast.Call) and call_name(n) == "append"
                      and isinstance(n.func.value, ast.Name) and len(n.args) == 1]:
                if _reads_map(c.args[0], d) == lp.target.id and fi.pm[enclosing_stmt(fi.pm, c)] is lp:
                    dlist = c.func.value.id
                    ctx.check("R5", True, mod, q, c, "data list filled in the order of the grid list",
                              construct=f"aligned data list {dlist} from {glist}")

    def sort_arg(c: ast.Call) -> Optional[str]:
        if len(c.args) == 1 and not c.keywords:
            return u(c.args[0])
        if not c.args and len(c.keywords) == 1 and c.keywords[0].arg in ("grids", "subdomains", "interfaces"):
            return u(c.keywords[0].value)
        return None

    # names bound to sort results
    idx_names, sorted_names = set(), set()
    for st in stmts_local(fn):
        if isinstance(st, ast.Assign) and len(st.targets) == 1 and isinstance(st.targets[0], ast.Name):
            c = _sort_call(st.value)
            if c is not None:
                (idx_names if c.func.attr == "argsort_grids" else sorted_names).add(st.targets[0].id)
    for c in [c for n in walk_local(fn) if (c := _sort_call(n)) is not None]:
        ctx.check("R5", sort_arg(c) == glist, mod, q, c, f"the sort must be applied to the collected list `{glist}`",
                  construct=f"sort call {u(c)}")
    rets = [st for st in stmts_local(fn) if isinstance(st, ast.Return) and st.value is not None]
    if not rets:
        raise AnchorError(f"{MD}:{q}: no return")

    def is_idx(e):
        return (isinstance(e, ast.Name) and e.id in idx_names) or (_sort_call(e) is not None and e.func.attr == "argsort_grids")

    def is_sorted_list(e):
        return (isinstance(e, ast.Name) and e.id in sorted_names) or (_sort_call(e) is not None and e.func.attr != "argsort_grids")

    for r in rets:
        v = r.value
        if isinstance(v, ast.Name) and v.id not in sorted_names:
            rv = fi.resolve(v, r)
            if rv and len(rv) == 1:
                v = rv[0]
        uses_sort = any(is_idx(n) or is_sorted_list(n) for n in ast.walk(v))
        if not uses_sort:
            ctx.check("R5", False, mod, q, r,
                      f"{name}() returns without going through argsort_grids/sort_*: order would be dict insertion order, "
                      f"not (descending dim, ascending id)", construct=f"return {u(r.value)}")
            continue
        if is_sorted_list(v):
            ctx.check("R5", True, mod, q, r, "returned through sort_*", construct=f"return {u(r.value)}")
            continue
        if not (isinstance(v, ast.ListComp) and len(v.generators) == 1 and not v.generators[0].ifs
                and isinstance(v.generators[0].target, ast.Name)):
            raise Undecided(f"{MD}:{q}: return `{u(v)}` is not a comprehension over the sort result")
        g = v.generators[0]
        i = g.target.id
        elts = v.elt.elts if isinstance(v.elt, ast.Tuple) else [v.elt]
        if is_idx(g.iter):
            first = f"{glist}[{i}]"
        elif is_sorted_list(g.iter):
            first = i
        else:
            raise Undecided(f"{MD}:{q}: return `{u(v)}` does not iterate the sort result")
        seconds = {f"self.{d}[{first}]"} | ({f"{dlist}[{i}]"} if dlist and is_idx(g.iter) else set())
        ok = u(elts[0]) == first and (len(elts) == 1 or (len(elts) == 2 and u(elts[1]) in seconds))
        ctx.check("R5", ok, mod, q, r,
                  f"returned list must be the collected grids in sorted order (with their own data dictionaries): first element "
                  f"`{first}`, data one of {sorted(seconds)}",
                  construct=f"return {u(v)}", facts={"elements": [u(x) for x in elts]})


def _r5_wrappers(ctx: Ctx, mod, infos: dict[str, FnInfo]) -> None:
    for name in ("sort_subdomains", "sort_interfaces", "sort_subdomain_tuple"):
        fi = infos.get(name)
        if fi is None:
            raise AnchorError(f"{MD}:{CLS}.{name} missing")
        fn = fi.fn
        q = f"{CLS}.{name}"
        param = [a.arg for a in fn.args.args if a.arg != "self"][0]
        sorts = [s for s in stmts_local(fn) if isinstance(s, ast.Assign) and _sort_call(s.value) is not None
                 and s.value.func.attr == "argsort_grids"]
        if len(sorts) != 1 or not isinstance(sorts[0].targets[0], ast.Name):
            raise Undecided(f"{MD}:{q}: expected `inds = self.argsort_grids({param})`")
        inds = sorts[0].targets[0].id
        arg_ok = [u(a) for a in sorts[0].value.args] + [u(k.value) for k in sorts[0].value.keywords] == [param]
        rets = [s for s in stmts_local(fn) if isinstance(s, ast.Return) and s.value is not None]
        ok = arg_ok and bool(rets)
        for r in rets:
            v = r.value
            if isinstance(v, ast.Name):
                vv = fi.value_defs(v.id, r)
                v = vv[0] if vv and len(vv) == 1 else v
            if isinstance(v, ast.ListComp):
                g = v.generators[0]
                ok = ok and len(v.generators) == 1 and not g.ifs and u(g.iter) == inds and \
                    u(v.elt) == f"{param}[{u(g.target)}]"
            elif isinstance(v, ast.Tuple):
                ok = ok and [u(x) for x in v.elts] == [f"{param}[{inds}[{k}]]" for k in range(len(v.elts))] and len(v.elts) == 2
            else:
                raise Undecided(f"{MD}:{q}: return `{u(v)}` not recognised")
        ctx.check("R5", ok, mod, q, rets[0] if rets else fn,
                  f"{name} must return its argument's elements in the order of argsort_grids({param})",
                  construct=f"{name}: {u(rets[0].value) if rets else ''}")


def _resolve_in(body_stmts: list[ast.stmt], name: str) -> Optional[ast.expr]:
    vals = []
    for s in body_stmts:
        for n in ast.walk(s):
            if isinstance(n, (ast.Assign, ast.AnnAssign)):
                for t in assigned_targets(n):
                    if isinstance(t, ast.Name) and t.id == name:
                        vals.append(n.value)
    return vals[0] if len(vals) == 1 else None


def _strip_array(e: ast.expr) -> ast.expr:
    while isinstance(e, ast.Call) and call_name(e) in ("array", "asarray", "list") and e.args:
        e = e.args[0]
    return e


def _r5_argsort_keyed(ctx: Ctx, mod, fi: FnInfo, grids: str, q: str) -> bool:
    """Alternative whole-list forms:  sorted(range(len(G)), key=lambda i: (-G[i].dim, G[i].id))  and
    np.lexsort((ids, -dims)) with ids/dims comprehensions over G.  Emits the same four clauses as the loop form."""
    fn = fi.fn
    for r in [st for st in stmts_local(fn) if isinstance(st, ast.Return) and st.value is not None]:
        v = _strip_array(r.value)
        for _ in range(3):
            if isinstance(v, ast.Name):
                rv = fi.resolve(v, r)
                if not rv or len(rv) != 1 or rv[0] is v:
                    break
                v = _strip_array(rv[0])
        dim_e = id_e = None
        rev = False
        var = None
        if isinstance(v, ast.Call) and call_name(v) == "sorted" and v.args and isinstance(kwarg(v, "key"), ast.Lambda):
            lam = kwarg(v, "key")
            if not (u(v.args[0]) in (f"range(len({grids}))",) and len(lam.args.args) == 1 and isinstance(lam.body, ast.Tuple)
                    and len(lam.body.elts) == 2):
                raise Undecided(f"{MD}:{q}: sorted(...) form not recognised: {u(v)[:80]}")
            var = lam.args.args[0].arg
            item = f"{grids}[{var}]"
            dim_e, id_e = lam.body.elts
            rv_ = kwarg(v, "reverse")
            rev = isinstance(rv_, ast.Constant) and rv_.value is True
            if rv_ is not None and not isinstance(rv_, ast.Constant):
                raise Undecided(f"{MD}:{q}: non-literal reverse=")
        elif isinstance(v, ast.Call) and call_name(v) == "lexsort" and v.args and isinstance(v.args[0], (ast.Tuple, ast.List)) \
                and len(v.args[0].elts) == 2:
            def comp_elt(e):
                neg = False
                if isinstance(e, ast.UnaryOp) and isinstance(e.op, ast.USub):
                    neg, e = True, e.operand
                e = _strip_array(e)
                if isinstance(e, ast.Name):
                    rr = fi.resolve(e, r)
                    e = _strip_array(rr[0]) if rr and len(rr) == 1 else e
                    if isinstance(e, ast.UnaryOp) and isinstance(e.op, ast.USub):
                        neg, e = (not neg), _strip_array(e.operand)
                if not (isinstance(e, (ast.ListComp, ast.GeneratorExp)) and len(e.generators) == 1 and not e.generators[0].ifs
                        and u(e.generators[0].iter) == grids and isinstance(e.generators[0].target, ast.Name)):
                    raise Undecided(f"{MD}:{q}: lexsort key `{u(e)[:60]}` is not a comprehension over `{grids}`")
                body = e.elt
                if neg:
                    body = ast.UnaryOp(op=ast.USub(), operand=body)
                return body, e.generators[0].target.id
            (id_e, v1), (dim_e, v2) = comp_elt(v.args[0].elts[0]), comp_elt(v.args[0].elts[1])   # last key is primary
            # bring both to one variable name
            var = v2
            if v1 != v2:
                id_e = subst_name(id_e, v1, v2)
            item = var
        else:
            continue

        def sign_of(e, attr):
            neg = False
            while isinstance(e, ast.UnaryOp) and isinstance(e.op, ast.USub):
                neg, e = (not neg), e.operand
            if u(e) == f"{item}.{attr}":
                return -1 if neg else 1
            return None

        sd_, si_ = sign_of(dim_e, "dim"), sign_of(id_e, "id")
        if sd_ is None:
            raise Undecided(f"{MD}:{q}: primary sort key `{u(dim_e)}` is not the grid dimension")
        eff_d = -sd_ if rev else sd_
        ctx.check("R5", eff_d == -1, mod, q, dim_e, "dimensions must be ordered descending (primary key -dim)",
                  construct=f"dimension order key {u(dim_e)}{' reversed' if rev else ''}")
        ctx.check("R5", True, mod, q, r, "all dimensions are covered (whole-list sort, no dimension filter)",
                  construct="dimension coverage: whole list")
        eff_i = None if si_ is None else (-si_ if rev else si_)
        ctx.check("R5", si_ is not None, mod, q, id_e,
                  f"the within-dimension sort key must be the grid's creation id (found `{u(id_e)}`): any other key loses the "
                  f"tie-break by id", construct=f"sort key within a dimension: {u(id_e)}")
        ctx.check("R5", eff_i in (1, None), mod, q, id_e, "ids must be ordered ascending within a dimension",
                  construct=f"per-dimension order {u(id_e)}{' reversed' if rev else ''}")
        ctx.sample({"rule": "R5", "argsort_grids": {"form": call_name(v), "dim_key": u(dim_e), "id_key": u(id_e), "reverse": rev}})
        return True
    return False


def subst_name(e: ast.expr, old: str, new: str) -> ast.expr:
    import copy

    class T(ast.NodeTransformer):
        def visit_Name(self, n):
            return ast.copy_location(ast.Name(id=new, ctx=n.ctx), n) if n.id == old else n
    return T().visit(copy.deepcopy(e))


def _r5_argsort(ctx: Ctx, mod, fi: FnInfo) -> None:
    fn = fi.fn
    q = f"{CLS}.argsort_grids"
    grids = [a.arg for a in fn.args.args if a.arg != "self"]
    if len(grids) != 1:
        raise AnchorError(f"{MD}:{q}: signature changed")
    grids = grids[0]
    if _r5_argsort_keyed(ctx, mod, fi, grids, q):
        return
    # the accumulated per-dimension blocks
    rets = [s for s in body_nodoc(fn) if isinstance(s, ast.Return)]
    if not rets or not (isinstance(rets[-1].value, ast.Call) and call_name(rets[-1].value) in ("hstack", "concatenate")
                        and len(rets[-1].value.args) == 1 and isinstance(rets[-1].value.args[0], ast.Name)):
        raise Undecided(f"{MD}:{q}: final return is not hstack/concatenate of a list of per-dimension blocks")
    ACC = rets[-1].value.args[0].id
    outers = [s for s in body_nodoc(fn) if isinstance(s, ast.For) and isinstance(s.target, ast.Name) and any(
        isinstance(x, ast.Expr) and isinstance(x.value, ast.Call) and call_name(x.value) == "append"
        and u(x.value.func.value) == ACC for x in s.body)]
    if len(outers) != 1:
        raise Undecided(f"{MD}:{q}: not in a recognised form (one loop over dimensions appending a block to `{ACC}`)")
    outer = outers[0]
    dvar = outer.target.id

    # (1) outer range: descending from dim_max() to 0 inclusive
    it = outer.iter
    if isinstance(it, ast.Call) and call_name(it) in ("reversed",) and len(it.args) == 1:
        raise Undecided(f"{MD}:{q}: reversed(...) range form not enumerated")
    if not (isinstance(it, ast.Call) and call_name(it) in ("arange", "range")) or it.keywords:
        raise Undecided(f"{MD}:{q}: outer iterable `{u(it)}` is not range/arange")
    a = list(it.args)

    def _has_dim_max(e: ast.expr) -> bool:
        e2 = e
        if isinstance(e, ast.Name):
            r = _resolve_in(body_nodoc(fn), e.id)
            e2 = r if r is not None else e
        return any(isinstance(n, ast.Call) and u(n.func) == "self.dim_max" for n in ast.walk(e2))

    def _int(e):
        if isinstance(e, ast.Constant) and isinstance(e.value, int):
            return e.value
        if isinstance(e, ast.UnaryOp) and isinstance(e.op, ast.USub) and isinstance(e.operand, ast.Constant):
            return -e.operand.value
        return None

    if len(a) == 3 and _int(a[2]) == -1 and _has_dim_max(a[0]) and _int(a[1]) is not None:
        desc, lowest = True, _int(a[1]) + 1
        exact_top = u(a[0]) == "self.dim_max()" or isinstance(a[0], ast.Name)
    elif len(a) in (1, 2) or (len(a) == 3 and (_int(a[2]) or 0) > 0):
        desc, lowest, exact_top = False, None, True
    else:
        raise Undecided(f"{MD}:{q}: cannot decide the direction of `{u(it)}`")
    ctx.check("R5", desc, mod, q, it, "dimensions must be traversed in descending order (dim_max() first)",
              construct=f"dimension order {u(it)}", facts={"iter": u(it)})
    if desc:
        ctx.check("R5", lowest == 0 and exact_top, mod, q, it,
                  "the traversal must start at dim_max() and include dimension 0, else grids of the missing dimension "
                  "are silently dropped from every listing",
                  construct=f"dimension coverage {u(it)}", facts={"lowest": lowest})

    # (2) sequences over the grids of the current dimension, as element expressions in ($i = position, $g = grid)
    def is_dim_test(t: ast.expr, g: str) -> bool:
        return isinstance(t, ast.Compare) and len(t.ops) == 1 and isinstance(t.ops[0], ast.Eq) and \
            {u(t.left), u(t.comparators[0])} == {f"{g}.dim", dvar}

    def canon(e: ast.expr, i: Optional[str], g: str):
        if isinstance(e, ast.Tuple):
            return tuple(canon(x, i, g) for x in e.elts)
        mp = {g: ast.Name(id="$g", ctx=ast.Load())}
        if i:
            mp[i] = ast.Name(id="$i", ctx=ast.Load())
        return u(subst_many(e, mp))

    def source_vars(it: ast.expr, tgt: ast.expr):
        """(position var, grid var) if `for tgt in it` runs over the argument in order."""
        if isinstance(it, ast.Call) and call_name(it) == "enumerate" and [u(a) for a in it.args] == [grids] \
                and isinstance(tgt, ast.Tuple) and len(tgt.elts) == 2 and all(isinstance(x, ast.Name) for x in tgt.elts):
            return tgt.elts[0].id, tgt.elts[1].id
        if u(it) == grids and isinstance(tgt, ast.Name):
            return None, tgt.id
        return None

    seqs: dict[str, object] = {}
    for inner in [s for s in outer.body if isinstance(s, ast.For)]:
        sv = source_vars(inner.iter, inner.target)
        if sv is None:
            continue
        sel = [s for s in inner.body if isinstance(s, ast.If)]
        if len(sel) != 1 or sel[0].orelse or len(inner.body) != 1:
            raise Undecided(f"{MD}:{q}: expected one `if grid.dim == dim` in the inner loop")
        if not is_dim_test(sel[0].test, sv[1]):
            raise Undecided(f"{MD}:{q}: inner selection test `{u(sel[0].test)}` not recognised")
        for st in sel[0].body:
            if isinstance(st, ast.Expr) and isinstance(st.value, ast.Call) and call_name(st.value) == "append" and \
                    isinstance(st.value.func.value, ast.Name) and len(st.value.args) == 1:
                seqs[st.value.func.value.id] = canon(st.value.args[0], sv[0], sv[1])
            else:
                raise Undecided(f"{MD}:{q}: statement `{u(st)[:50]}` under the dimension selection")

    def seq_elt(e: ast.expr, depth: int = 0):
        """Element expression of the sequence e denotes (aligned with the grids of this dimension, in argument order)."""
        if depth > 5:
            return None
        e = _strip_array(e)
        if isinstance(e, ast.Name):
            if e.id in seqs:
                return seqs[e.id]
            r = _resolve_in(outer.body, e.id)
            return seq_elt(r, depth + 1) if r is not None else None
        if isinstance(e, (ast.ListComp, ast.GeneratorExp)) and len(e.generators) == 1:
            g = e.generators[0]
            sv = source_vars(g.iter, g.target)
            if sv is not None:
                if len(g.ifs) != 1 or not is_dim_test(g.ifs[0], sv[1]):
                    return None
                return canon(e.elt, sv[0], sv[1])
            src = seq_elt(g.iter, depth + 1)
            if src is None or g.ifs:
                return None
            if isinstance(g.target, ast.Name):
                if u(e.elt) == g.target.id:
                    return src
                if isinstance(e.elt, ast.Subscript) and u(e.elt.value) == g.target.id and isinstance(e.elt.slice, ast.Constant) \
                        and isinstance(src, tuple) and isinstance(e.elt.slice.value, int) and 0 <= e.elt.slice.value < len(src):
                    return src[e.elt.slice.value]
            if isinstance(g.target, ast.Tuple) and isinstance(src, tuple) and len(g.target.elts) == len(src):
                names = [u(x) for x in g.target.elts]
                if u(e.elt) in names:
                    return src[names.index(u(e.elt))]
            return None
        return None

    # (3) argsort of the ids applied to the positions, appended, stacked
    accs = [s.value for s in outer.body if isinstance(s, ast.Expr) and isinstance(s.value, ast.Call)
            and call_name(s.value) == "append" and u(s.value.func.value) == ACC]
    if len(accs) != 1:
        raise Undecided(f"{MD}:{q}: expected one append to `{ACC}` per dimension")
    R0 = accs[0].args[0]
    R = R0
    if isinstance(R, ast.Name):
        R = _resolve_in(outer.body, R.id) or R
    reason = None

    def classify_perm(sl: ast.expr, depth: int = 0):
        """-> (kind, key element, reason): kind 'sort' = ascending argsort of the key sequence, 'inverse' = its inverse
        permutation (argsort of the argsort)."""
        why = None
        if isinstance(sl, ast.Name):
            sl = _resolve_in(outer.body, sl.id) or sl
        if isinstance(sl, ast.Subscript) and u(sl.slice) == "::-1":
            why = "ids sorted in descending order"
            sl = sl.value
        if not (isinstance(sl, ast.Call) and call_name(sl) == "argsort" and sl.args):
            raise Undecided(f"{MD}:{q}: positions are not permuted by np.argsort(...): `{u(sl)[:60]}`")
        arg = _strip_array(sl.args[0])
        inner_ = arg
        if isinstance(inner_, ast.Name) and inner_.id not in seqs:
            inner_ = _resolve_in(outer.body, inner_.id) or inner_
        if isinstance(inner_, ast.Call) and call_name(inner_) == "argsort" and depth < 2:
            k, b_, w = classify_perm(inner_, depth + 1)
            return ("inverse" if k == "sort" else "sort"), b_, (why or w)
        core = arg
        if isinstance(core, ast.UnaryOp) and isinstance(core.op, ast.USub):
            why = "ids negated before argsort (descending)"
            core = _strip_array(core.operand)
        elif isinstance(core, ast.Subscript) and u(core.slice) == "::-1":
            why = "id list reversed before argsort"
            core = core.value
        key = seq_elt(core)
        if key is None or isinstance(key, tuple):
            raise Undecided(f"{MD}:{q}: argsort argument `{u(arg)[:60]}` is not a per-dimension key sequence")
        return "sort", key, why

    def positions_of(e: ast.expr):
        el = seq_elt(e)
        if el is None or isinstance(el, tuple):
            raise Undecided(f"{MD}:{q}: `{u(e)[:60]}` is not a per-dimension sequence of positions")
        return el

    # np.take(positions, perm) / positions.take(perm) is the gather positions[perm]
    if isinstance(R, ast.Call) and call_name(R) == "take":
        if isinstance(R.func, ast.Attribute) and u(R.func.value) not in ("np", "numpy") and len(R.args) == 1:
            R = ast.Subscript(value=R.func.value, slice=R.args[0], ctx=ast.Load())
        elif len(R.args) == 2:
            R = ast.Subscript(value=R.args[0], slice=R.args[1], ctx=ast.Load())

    FRESH = ("empty", "zeros", "empty_like", "zeros_like", "full", "ones")
    scatters = []
    if isinstance(R0, ast.Name):
        for st_ in outer.body:
            if isinstance(st_, ast.Assign) and len(st_.targets) == 1 and isinstance(st_.targets[0], ast.Subscript) \
                    and isinstance(st_.targets[0].value, ast.Name) and st_.targets[0].value.id == R0.id:
                scatters.append(st_)
    if isinstance(R, ast.Subscript):
        A_el = positions_of(R.value)
        kind, B_el, reason = classify_perm(R.slice)
        if kind == "inverse" and reason is None:
            reason = ("positions gathered through the inverse of the id-sorting permutation (argsort of the argsort); "
                      "agrees with the sorted order only for self-inverse permutations")
        form = "gather"
    elif isinstance(R, ast.Call) and call_name(R) in FRESH and len(scatters) == 1:
        st_ = scatters[0]
        A_el = positions_of(st_.value)
        kind, B_el, reason = classify_perm(st_.targets[0].slice)
        if kind == "sort" and reason is None:
            reason = ("positions scattered through the argsort of the ids (out[argsort(ids)] = positions): that applies the "
                      "inverse permutation; it equals the sorted order only when the permutation is its own inverse "
                      "(<= 2 grids of a dimension, or already sorted), not for >= 3 grids stored in a cyclically shifted order")
        form = "scatter"
    else:
        el = seq_elt(R)
        if el == "$i" and not scatters:
            reason = "positions appended without sorting by id"
            A_el, form = el, "unsorted"
            others = [v for v in seqs.values() if v != "$i" and not isinstance(v, tuple)]
            B_el = others[0] if others else "$g.id"
        else:
            raise Undecided(f"{MD}:{q}: appended block `{u(R)[:70]}` not recognised")
    if A_el != "$i":
        raise Undecided(f"{MD}:{q}: the permuted sequence holds `{A_el}`, not the position of the grid in the argument")
    shown = B_el.replace("$g", "grid").replace("$i", "position")
    ctx.check("R5", B_el == "$g.id", mod, q, accs[0],
              f"the within-dimension sort key must be the grid's creation id `grid.id` (found `{shown}`): any other key "
              f"loses the tie-break by id",
              construct=f"sort key within a dimension: {shown}", facts={"key": shown})
    ctx.check("R5", reason is None, mod, q, accs[0],
              f"within one dimension the positions must be permuted by np.argsort of the ids (ascending): {reason}",
              construct=f"per-dimension block {u(accs[0].args[0])} ({form})", facts={"reason": reason, "form": form})
    ctx.sample({"rule": "R5", "argsort_grids": {"dims": u(it), "key": shown, "block": u(R), "form": form}})


def subst_many(e: ast.expr, mapping: dict[str, ast.expr]) -> ast.expr:
    import copy

    class T(ast.NodeTransformer):
        def visit_Name(self, n):
            return ast.copy_location(copy.deepcopy(mapping[n.id]), n) if n.id in mapping else n
    return T().visit(copy.deepcopy(e))


# ---------------------------------------------------------------------------------------
# R6
# ---------------------------------------------------------------------------------------

def _r6(ctx: Ctx, mod, infos: dict[str, FnInfo], mutators: set[str]) -> None:
    """Every conditional `raise` of a mutator rejects the call: it must not be reachable from a mutation of the
    five dictionaries (a rejected call leaves no trace)."""
    for name in sorted(mutators):
        fi = infos[name]
        muts = fi.mutations()
        for r in [s for s in stmts_local(fi.fn) if isinstance(s, ast.Raise)]:
            if any(isinstance(p, ast.ExceptHandler) for p, _ in fi.enclosing(r, (ast.ExceptHandler,))) and r.exc is None:
                continue  # bare re-raise inside a handler: not a validation
            guard = None
            for par, child in fi.enclosing(r, (ast.If,)):
                guard = par
                break
            t = u(guard.test) if guard is not None else "<unconditional>"
            rn = fi.node(r)
            before = [m for m in muts if fi.cfg.reachable(fi.node(m.stmt), rn)]
            ctx.check("R6", not before, mod, f"{CLS}.{name}", r,
                      "a raise that rejects the call is reachable after the container was already modified ("
                      + ", ".join(f"{m.op} self.{m.d}[{u(m.key)}]" for m in before)
                      + "): the failed call leaves the dictionaries out of step",
                      construct=f"raise under `{t}`",
                      facts={"mutations_before": [f"{m.op} {m.d}[{u(m.key)}]" for m in before]})


# ---------------------------------------------------------------------------------------
# R7 uniqueness of the argument list of add_subdomains
# ---------------------------------------------------------------------------------------

UNIQ_HINTS = ("set", "frozenset", "fromkeys", "unique", "Counter", "count")


def _iterates(it: ast.expr, X: str) -> bool:
    if isinstance(it, ast.Call) and call_name(it) in ("list", "tuple", "iter") and len(it.args) == 1:
        it = it.args[0]
    return isinstance(it, ast.Name) and it.id == X


def _counts_distinct(e: ast.expr, X: str) -> bool:
    """len(e) is the number of distinct elements of list X (by identity or by the elements' own hash/eq)."""
    if isinstance(e, (ast.SetComp, ast.DictComp)):
        return len(e.generators) == 1 and not e.generators[0].ifs and _iterates(e.generators[0].iter, X)
    if isinstance(e, ast.Call) and call_name(e) in ("set", "frozenset", "unique", "fromkeys") and len(e.args) >= 1:
        a = e.args[0]
        if _iterates(a, X):
            return True
        if isinstance(a, (ast.GeneratorExp, ast.ListComp)):
            return len(a.generators) == 1 and not a.generators[0].ifs and _iterates(a.generators[0].iter, X)
        if isinstance(a, ast.Call) and call_name(a) == "map" and len(a.args) == 2 and u(a.args[0]) == "id":
            return _iterates(a.args[1], X)
    if isinstance(e, ast.Call) and call_name(e) in ("list", "tuple", "sorted") and len(e.args) == 1:
        return _counts_distinct(e.args[0], X)
    return False


def _uniqueness_tests(fi: FnInfo, X: str) -> tuple[list[ast.stmt], bool]:
    """(statements that establish that list `X` has no repeated element, whether some construct looks like such a test
    without being one of the enumerated spellings).  Recognised:
      * `if len(<distinct of X>) != / < len(X): raise` in either operand order (`>` mirrored), `== ... else: raise`,
        `assert len(<distinct>) == len(X)`; <distinct of X> = set()/frozenset()/set- or dict-comprehension/np.unique/
        dict.fromkeys over X, over id(x) for x in X, or map(id, X), possibly through one temporary
      * `if any(<a is b / a == b> for a in X for b in X ...): raise`   (double loop over the list itself)
      * `X = list(dict.fromkeys(X))` / `X = list(set(X))`      (de-duplication; every later loop sees unique items)"""
    found: list[ast.stmt] = []
    hint = False

    def res(e: ast.expr, at: ast.stmt) -> ast.expr:
        if isinstance(e, ast.Name) and e.id != X:
            r = fi.resolve(e, at)
            if r and len(r) == 1:
                return r[0]
        return e

    def len_cmp(c: ast.Compare, at: ast.stmt):
        """-> 'ne' | 'eq' | None for a comparison len(distinct) <op> len(X) that is false/true exactly for unique lists."""
        sides = [res(c.left, at), res(c.comparators[0], at)]
        if not all(isinstance(x, ast.Call) and call_name(x) == "len" and len(x.args) == 1 for x in sides):
            return None
        args = [res(x.args[0], at) for x in sides]
        d = [_counts_distinct(a, X) for a in args]
        pl = [_iterates(a, X) for a in args]
        if d[0] and pl[1]:
            op_ok = isinstance(c.ops[0], (ast.NotEq, ast.Lt))
        elif pl[0] and d[1]:
            op_ok = isinstance(c.ops[0], (ast.NotEq, ast.Gt))
        else:
            return None
        if op_ok:
            return "ne"
        return "eq" if isinstance(c.ops[0], ast.Eq) else "other"

    for s in stmts_local(fi.fn):
        if isinstance(s, (ast.If, ast.Assert)):
            raises_body = isinstance(s, ast.If) and any(isinstance(n, ast.Raise) for b_ in s.body for n in ast.walk(b_))
            raises_else = isinstance(s, ast.If) and any(isinstance(n, ast.Raise) for b_ in s.orelse for n in ast.walk(b_))
            t = s.test
            top = t.values if isinstance(t, ast.BoolOp) and isinstance(t.op, ast.Or) else [t]
            for c in [n for n in top if isinstance(n, ast.Compare) and len(n.ops) == 1]:
                k = len_cmp(c, s)
                if k == "ne" and raises_body:
                    found.append(s)
                elif k == "eq" and len(top) == 1 and (raises_else or isinstance(s, ast.Assert)):
                    found.append(s)
                elif k is not None:
                    hint = True
            if raises_body:
                for comp in [n for n in ast.walk(t) if isinstance(n, (ast.ListComp, ast.GeneratorExp))]:
                    gens = [g for g in comp.generators if X in names_in(g.iter)]
                    if len(gens) >= 2 and any(isinstance(n, ast.Compare) and isinstance(n.ops[0], (ast.Is, ast.Eq))
                                              for n in ast.walk(comp.elt)):
                        found.append(s)
        if isinstance(s, ast.Assign) and any(isinstance(t, ast.Name) and t.id == X for t in s.targets):
            v = s.value
            if _counts_distinct(v, X) and not isinstance(v, (ast.SetComp, ast.DictComp)):
                found.append(s)
    if not found:
        for n in walk_local(fi.fn):
            if isinstance(n, (ast.SetComp, ast.DictComp)) and X in names_in(n):
                hint = True
            if isinstance(n, ast.Call) and call_name(n) in UNIQ_HINTS + ("Counter", "unique") and X in names_in(n):
                hint = True
    return found, hint


def _r7(ctx: Ctx, mod, infos: dict[str, FnInfo]) -> None:
    fi = infos.get("add_subdomains")
    if fi is None:
        raise AnchorError(f"{MD}:{CLS}.add_subdomains missing")
    q = f"{CLS}.add_subdomains"
    loops: list[ast.For] = []
    for e in fi.mutations():
        if e.op == "store" and e.d in (SD, SD_BG, BG_DATA):
            kl = fi.key_loop(e)
            if kl is None and e.d == BG_DATA and isinstance(e.key, ast.Name):
                # the boundary grid is created inside the loop that binds the subdomain
                partner = [x for x in fi.mutations() if x.d == SD_BG and x.op == "store" and isinstance(x.value, ast.Name)
                           and x.value.id == e.key.id]
                kl = fi.key_loop(partner[0]) if partner else None
            if kl is None:
                raise Undecided(f"{MD}:{q}: insert self.{e.d}[{u(e.key)}] is not inside a loop over the argument list")
            if not any(kl is x for x in loops):
                loops.append(kl)
    if not loops:
        raise AnchorError(f"{MD}:{q}: no per-grid loop found")
    for lp in loops:
        if not isinstance(lp.iter, ast.Name):
            raise Undecided(f"{MD}:{q}: per-grid loop iterates `{u(lp.iter)}`")
        X = lp.iter.id
        tests, hint = _uniqueness_tests(fi, X)
        good = [t for t in tests if fi.dominates(fi.node(t), fi.node(lp)) and _names_stable(fi, lp.iter, t, lp)]
        if not tests and hint:
            raise Undecided(f"{MD}:{q}: a uniqueness-like construct on `{X}` exists but is not one of the enumerated forms")
        what = sorted({e.d for e in fi.mutations() if e.op == "store" and any(p is lp for p, _ in fi.enclosing(e.node, (ast.For,)))})
        ctx.check("R7", bool(good), mod, q, lp,
                  f"the loop over `{X}` inserting into {what} is not dominated by a test that `{X}` lists every grid once: "
                  f"add_subdomains([A, A]) stores A once but creates two boundary grids, one of them an orphan in "
                  f"{BG_DATA} (listed by boundaries())",
                  construct=f"for {u(lp.target)} in {X}: inserts into {', '.join(what)}",
                  facts={"uniqueness_tests": [u(t.test) if isinstance(t, ast.If) else u(t) for t in good]})
        ctx.sample({"rule": "R7", "loop": f"for {u(lp.target)} in {X}", "inserts": what,
                    "uniqueness": [u(t.test) if isinstance(t, ast.If) else u(t) for t in good]})


# ---------------------------------------------------------------------------------------
# R8 - R11: clauses violated by today's tree (registered as known findings)
# ---------------------------------------------------------------------------------------

def _fresh_object(fi: FnInfo, key: ast.expr, at: ast.stmt) -> bool:
    """The key is an object constructed in this function (cannot be identical to an existing key)."""
    vals = fi.resolve(key, at)
    return bool(vals) and all(isinstance(v, ast.Call) and isinstance(v.func, (ast.Attribute, ast.Name))
                              and (call_name(v) or "")[:1].isupper() for v in vals)


def _r8(ctx: Ctx, mod, infos: dict[str, FnInfo], mutators: set[str]) -> None:
    """Re-keying D[new] = ...; del D[old] must survive old is new (identity map): delete first (pop), or guard."""
    n = 0
    for name in sorted(mutators):
        fi = infos[name]
        for d in DICTS:
            stores = [e for e in fi.mutations() if e.d == d and e.op == "store" and not _is_update(fi, e)]
            dels = [e for e in fi.mutations() if e.d == d and e.op == "del"]
            for st in stores:
                for dl in dels:
                    if u(st.key) == u(dl.key) or fi.key_loop(st) is not fi.key_loop(dl):
                        continue
                    if not (isinstance(st.key, ast.Name) and isinstance(dl.key, ast.Name)):
                        continue
                    if _fresh_object(fi, st.key, st.stmt) or _fresh_object(fi, dl.key, dl.stmt):
                        continue
                    sn, dn = fi.node(st.stmt), fi.node(dl.stmt)
                    delete_first = dn == sn or (fi.dominates(dn, sn) and not fi.cfg.reachable(sn, dn, fi.common_loops(st.stmt, dl.stmt)))
                    guarded = False
                    for par, child in fi.enclosing(dl.node, (ast.If,)):
                        for c in _conjuncts(par.test):
                            if isinstance(c, ast.Compare) and len(c.ops) == 1 and isinstance(c.ops[0], (ast.IsNot, ast.NotEq)) \
                                    and {u(c.left), u(c.comparators[0])} == {u(st.key), u(dl.key)} and fi.in_body(par, child):
                                guarded = True
                    n += 1
                    ctx.check("R8", delete_first or guarded, mod, st.q, dl.node,
                              f"self.{d}[{u(st.key)}] is inserted and afterwards self.{d}[{u(dl.key)}] is deleted; when both name the "
                              f"same object (identity map {{sd: sd}}) the entry just written is deleted and the subdomain vanishes "
                              f"from the container while its interfaces stay listed",
                              construct=f"re-key of self.{d}: insert new key before deleting old key, no `old is new` guard",
                              facts={"insert": u(st.key), "delete": u(dl.key)})
    if n == 0:
        raise AnchorError(f"{MD}: no re-keying (insert new key / delete old key) found in any mutator")


def _r9(ctx: Ctx, mod, infos: dict[str, FnInfo]) -> None:
    """add_interface must reject a pair whose members are not subdomains of this md-grid."""
    fi = infos["add_interface"]
    q = f"{CLS}.add_interface"
    params = [a.arg for a in fi.fn.args.args if a.arg != "self"]
    pair = params[1] if len(params) > 1 else None
    inserts = [e for e in fi.mutations() if e.op == "store"]
    if pair is None or not inserts:
        raise AnchorError(f"{MD}:{q}: signature or inserts not found")
    tests, hint = [], False
    late: list = []
    for s_ in stmts_local(fi.fn):
        if isinstance(s_, (ast.If, ast.Assert)):
            mem = [c for c in ast.walk(s_.test) if isinstance(c, ast.Compare) and len(c.ops) == 1
                   and isinstance(c.ops[0], (ast.In, ast.NotIn))
                   and (u(c.comparators[0]) in (f"self.{SD}", "self", f"self.{SD}.keys()", "self.subdomains()"))]
            rel = [c for c in mem if pair in names_in(s_.test)]
            raises = isinstance(s_, ast.Assert) or any(isinstance(n, ast.Raise) for n in ast.walk(s_))
            if rel and raises and all(fi.dominates(fi.node(s_), fi.node(e.stmt)) for e in inserts):
                tests.append(s_)
            elif rel and raises:
                late.append(s_)       # recognised, but something is stored before it: decidable (finding)
            elif mem:
                hint = True
    if not tests and not late and hint:
        raise Undecided(f"{MD}:{q}: a membership test on the subdomains exists but not in an enumerated form")
    ctx.check("R9", bool(tests), mod, q, inserts[0].node,
              f"add_interface records `{pair}` without checking that both subdomains belong to this md-grid: an interface can point "
              f"at a grid that is not listed by subdomains()", construct="add_interface: subdomain pair not validated against the container",
              facts={"membership_tests": [u(t.test) for t in tests]})


def _exists_positive_dim(e: ast.expr) -> Optional[bool]:
    """True: e holds only if some stored subdomain has dim > 0; False: e can hold with 0-d subdomains only; None: unknown."""
    if isinstance(e, ast.Call) and call_name(e) == "any" and len(e.args) == 1 and isinstance(e.args[0], (ast.GeneratorExp, ast.ListComp)):
        c = e.args[0]
        if len(c.generators) == 1 and isinstance(c.generators[0].target, ast.Name) and not c.generators[0].ifs:
            it = c.generators[0].iter
            base = it.func.value if isinstance(it, ast.Call) and isinstance(it.func, ast.Attribute) and it.func.attr == "keys" else it
            if isinstance(base, ast.Call) and call_name(base) in ("list", "tuple") and len(base.args) == 1:
                base = base.args[0]
            over_sd = _self_dict(base) == SD or u(base) == "self.subdomains()"
            p_ = _dim_pred(c.elt, c.generators[0].target.id)
            if over_sd and p_ is not None:
                return not p_(0)
        return None
    if isinstance(e, ast.Compare) and len(e.ops) == 1 and u(e.left) == "self.dim_max()" and isinstance(e.comparators[0], ast.Constant):
        import operator as _op
        f_ = {ast.Gt: _op.gt, ast.GtE: _op.ge, ast.NotEq: _op.ne}.get(type(e.ops[0]))
        if f_ is not None and isinstance(e.comparators[0].value, int):
            return not f_(0, e.comparators[0].value)
        return None
    if _self_dict(e) == SD or (isinstance(e, ast.Compare) and f"self.{SD}" in u(e) and "len(" in u(e)):
        return False          # mere non-emptiness of the subdomain dict holds with 0-d subdomains only
    return None


def _r10(ctx: Ctx, mod, infos: dict[str, FnInfo]) -> None:
    """Listing a consistent container never fails: a raise is admissible only under a guard that contradicts the
    invariants R2 establishes (every positive-dimensional subdomain has a boundary grid)."""
    for name in LISTING:
        fi = infos[name]
        raises = [r for r in stmts_local(fi.fn) if isinstance(r, ast.Raise)]
        bad, guards = [], []
        for r in raises:
            g = next((p for p, c in fi.enclosing(r, (ast.If,)) if fi.in_body(p, c)), None)
            guards.append(u(g.test) if g is not None else "<unconditional>")
            if g is None:
                bad.append(r)
                continue
            conj = _conjuncts(g.test)
            no_bg = any((isinstance(c, ast.UnaryOp) and isinstance(c.op, ast.Not) and _self_dict(c.operand) == SD_BG)
                        or u(c) in (f"len(self.{SD_BG}) == 0", f"not len(self.{SD_BG})") for c in conj)
            ex = [_exists_positive_dim(c) for c in conj if not (isinstance(c, ast.UnaryOp) and isinstance(c.op, ast.Not)
                                                                and _self_dict(c.operand) == SD_BG)]
            if no_bg and any(v is True for v in ex):
                continue                       # unreachable for a container that satisfies R2
            if no_bg and ex and all(v is False for v in ex):
                bad.append(r)                  # reachable with 0-d subdomains only
                continue
            raise Undecided(f"{MD}:{CLS}.{name}: cannot decide whether the raise under `{u(g.test)}` is reachable for a consistent "
                            f"container")
        ctx.check("R10", not bad, mod, f"{CLS}.{name}", bad[0] if bad else fi.fn,
                  f"{name}() raises under {guards}: a md-grid in a legitimate state (e.g. only 0-d subdomains, which have no boundary "
                  f"grid) cannot be listed", construct=f"{name}: raise in a listing method",
                  facts={"guards": guards})


def _r11(ctx: Ctx, mod, infos: dict[str, FnInfo]) -> None:
    """The stored pair order is authoritative (it is what replace_* preserves and what update_primary/secondary followed)."""
    fi = infos.get("interface_to_subdomain_pair")
    if fi is None:
        raise AnchorError(f"{MD}:{CLS}.interface_to_subdomain_pair missing")
    q = f"{CLS}.interface_to_subdomain_pair"
    rets = [r for r in stmts_local(fi.fn) if isinstance(r, ast.Return) and r.value is not None]
    if not rets:
        raise AnchorError(f"{MD}:{q}: no return")
    for r in rets:
        vals = fi.resolve(r.value, r) or [r.value]
        resorted = any(isinstance(n, ast.Call) and call_name(n) in ("sort_subdomain_tuple", "argsort_grids", "sort_subdomains", "sorted")
                       for v in vals for n in ast.walk(v))
        stored = all(any(_reads_map(n, IF_SD) is not None for n in ast.walk(v)) or
                     any(isinstance(n, ast.Name) and any(_reads_map(x, IF_SD) is not None for x in (fi.resolve(n, r) or []))
                         for n in ast.walk(v)) for v in vals)
        if not stored:
            raise Undecided(f"{MD}:{q}: return `{u(r.value)}` does not read {IF_SD}")
        ctx.check("R11", not resorted, mod, q, r,
                  "interface_to_subdomain_pair re-sorts the stored pair by (dim, id): for a co-dimension-0 interface the order then "
                  "depends on creation ids, so after the first subdomain is replaced by a newer grid primary and secondary swap, "
                  "although replace_* kept the positions and updated the mortar projections accordingly",
                  construct="interface_to_subdomain_pair: stored pair re-sorted on read")


# ---------------------------------------------------------------------------------------
# clean-tree observations (notes only, never findings)
# ---------------------------------------------------------------------------------------

ORDER_DEPENDENT = ("interfaces", "subdomains", "boundaries", "sort_subdomains", "sort_interfaces", "sort_subdomain_tuple",
                   "argsort_grids", "subdomain_to_interfaces", "neighboring_subdomains", "interface_to_subdomain_pair")


def _observations(ctx: Ctx, infos: dict[str, FnInfo], mutators: set[str]) -> None:
    # (a) listing/sorting consulted after _subdomain_data already lost a key: argsort_grids reads dim_max() and the
    #     emptiness of _subdomain_data, so grids above the new dim_max are silently dropped from the listing
    for name in sorted(mutators):
        fi = infos[name]
        dels = [e for e in fi.mutations() if e.d == SD and e.op == "del"]
        for c in [n for n in walk_local(fi.fn) if isinstance(n, ast.Call) and isinstance(n.func, ast.Attribute)
                  and u(n.func.value) == "self" and n.func.attr in ORDER_DEPENDENT]:
            cs = enclosing_stmt(fi.pm, c)
            hit = [e for e in dels if fi.cfg.reachable(fi.node(e.stmt), fi.node(cs), fi.common_loops(e.stmt, cs))]
            if hit:
                ctx.note(f"observation (reported, not armed): {CLS}.{name}: self.{c.func.attr}() is evaluated after "
                         f"`del self.{SD}[{u(hit[0].key)}]`; argsort_grids sorts only dimensions <= dim_max() of the remaining "
                         f"subdomains (and asserts an empty argument when none remain), so when `{u(hit[0].key)}` was the only "
                         f"grid of the highest dimension an interface of that dimension (e.g. a self-interface of "
                         f"`{u(hit[0].key)}`) is not listed and is left behind in {IF_DATA}/{IF_SD}")


def run(ctx: Ctx) -> None:
    mod = ctx.repo.module(MD)
    cls = mod.cls(CLS)
    meths = methods(cls)
    init = meths.get("__init__")
    if init is None:
        raise AnchorError(f"{MD}:{CLS}.__init__ missing")
    declared = {t.attr for s in stmts_local(init) for t in assigned_targets(s)
                if isinstance(t, ast.Attribute) and u(t.value) == "self"}
    missing = [d for d in DICTS if d not in declared]
    if missing:
        raise AnchorError(f"{MD}:{CLS}.__init__ no longer declares {missing}")
    meths, inlined = _normalise_methods(meths)
    infos = {n: FnInfo(f) for n, f in meths.items()}
    # private helpers whose bodies were inlined at every use are analysed in the context of their callers only
    context_only = {n for n in inlined if n.startswith("_") and not n.startswith("__")}
    mutators = {n for n, fi in infos.items() if fi.mutations() and n != "__init__" and n not in context_only}
    for n in context_only:
        ctx.note(f"helper {CLS}.{n} is analysed inlined into its callers")
        infos[n].events = []
    for need in ("add_subdomains", "add_interface", "remove_subdomain", "replace_subdomains_and_interfaces"):
        if need not in mutators:
            raise AnchorError(f"{MD}:{CLS}.{need} missing or no longer mutates the container")
    ctx.sample({"rule": "*", "mutators": sorted(mutators)})

    # the insertion into the sd->bg map is conditional (the premise of R1); if it became unconditional R1 is moot
    _r1(ctx, mod, infos, mutators)
    _r2(ctx, mod, infos, mutators)
    _r3(ctx, mod, infos)
    _r4(ctx, mod, infos)
    for name, d in LISTING.items():
        if name not in infos:
            raise AnchorError(f"{MD}:{CLS}.{name} missing")
        _r5_listing(ctx, mod, infos[name], name, d)
    _r5_wrappers(ctx, mod, infos)
    if "argsort_grids" not in infos:
        raise AnchorError(f"{MD}:{CLS}.argsort_grids missing")
    _r5_argsort(ctx, mod, infos["argsort_grids"])
    _r6(ctx, mod, infos, mutators)
    _r7(ctx, mod, infos)
    _r8(ctx, mod, infos, mutators)
    _r9(ctx, mod, infos)
    _r10(ctx, mod, infos)
    _r11(ctx, mod, infos)
    _observations(ctx, infos, mutators)

    if ctx.tier == "thorough":
        # who-may-write sweep: subscript stores/deletes/reads on the guarded dicts outside the class
        n_out = 0
        for m in ctx.repo.modules("src/porepy"):
            for n in ast.walk(m.tree):
                if isinstance(n, ast.Subscript) and isinstance(n.value, ast.Attribute) and n.value.attr in DICTS \
                        and not (m.rel == MD and u(n.value.value) == "self"):
                    n_out += 1
                    ctx.note(f"sweep: {m.rel}:{n.lineno}: {type(n.ctx).__name__} access {u(n)[:80]} outside {CLS}")
                    if n.value.attr == SD_BG and isinstance(n.ctx, (ast.Load, ast.Del)):
                        raise Undecided(f"{m.rel}:{n.lineno}: outside access to {SD_BG} - R1 must be extended to it")
        ctx.note(f"sweep: {n_out} subscript accesses to the five dictionaries outside {CLS} (R1/R2 assume none write)")


# ---------------------------------------------------------------------------------------

def _m(name, old, new, rule, control=False, count=1, file=MD):
    return dict(name=name, file=file, old=old, new=new, rule=rule, control=control, count=count)


MUTANTS = [
    # reverted fix D2 (two sites)
    _m("revert-fix-remove-unguarded-bg",
       "        if sd in self._subdomain_to_boundary_grid:\n            bg_to_remove = self._subdomain_to_boundary_grid[sd]\n"
       "            del self._boundary_grid_data[bg_to_remove]\n            del self._subdomain_to_boundary_grid[sd]\n",
       "        bg_to_remove = self._subdomain_to_boundary_grid[sd]\n"
       "        del self._boundary_grid_data[bg_to_remove]\n        del self._subdomain_to_boundary_grid[sd]\n",
       "R1", control=True),
    _m("revert-fix-replace-unguarded-bg", "                if sd_old in self._subdomain_to_boundary_grid:\n",
       "                if True:\n", "R1"),
    # paired dicts
    _m("remove-forgets-interface-to-subdomains",
       "            del self._interface_data[intf]\n            del self._interface_to_subdomains[intf]\n",
       "            del self._interface_data[intf]\n", "R2", control=True),
    _m("remove-forgets-boundary-data", "            del self._boundary_grid_data[bg_to_remove]\n", "", "R2"),
    _m("remove-conditional-interface-data",
       "            del self._interface_data[intf]\n            del self._interface_to_subdomains[intf]\n",
       "            del self._interface_to_subdomains[intf]\n            if intf.dim > 0:\n                del self._interface_data[intf]\n",
       "R2"),
    _m("replace-forgets-old-bg-mapping", "                    del self._subdomain_to_boundary_grid[sd_old]\n", "", "R2"),
    _m("replace-forgets-old-bg-data", "                    del self._boundary_grid_data[bg_old]\n",
       "                    pass\n", "R2"),
    _m("add-subdomains-bg-only-above-1d", "            if sd.dim > 0:\n                bg = pp.BoundaryGrid(g=sd)\n",
       "            if sd.dim > 1:\n                bg = pp.BoundaryGrid(g=sd)\n", "R2"),
    _m("replace-keeps-old-subdomain", "                del self._subdomain_data[sd_old]\n", "                pass\n", "R2"),
    _m("argsort-key-python-id", "                    ids_dim.append(grid.id)\n", "                    ids_dim.append(id(grid))\n", "R5"),
    _m("add-subdomains-forgets-boundary-data", "                self._boundary_grid_data[bg] = {}\n", "                pass\n", "R2"),
    _m("add-interface-forgets-pair", "        self._interface_to_subdomains[intf] = sd_pair\n", "        pass\n", "R2"),
    # selection
    _m("remove-selects-with-and", "            if sd_pair[0] == sd or sd_pair[1] == sd:\n                interfaces_to_remove.append(intf)",
       "            if sd_pair[0] == sd and sd_pair[1] == sd:\n                interfaces_to_remove.append(intf)", "R3"),
    _m("remove-selects-primary-only", "            if sd_pair[0] == sd or sd_pair[1] == sd:\n                interfaces_to_remove.append(intf)",
       "            if sd_pair[0] == sd:\n                interfaces_to_remove.append(intf)", "R3"),
    _m("remove-filters-interfaces-by-dim", "        for intf in self.interfaces():\n            sd_pair = self._interface_to_subdomains[intf]",
       "        for intf in self.interfaces(dim=sd.dim):\n            sd_pair = self._interface_to_subdomains[intf]", "R3"),
    _m("seed-remove-searches-codim1-interfaces-only",
       "        for intf in self.interfaces():\n            sd_pair = self._interface_to_subdomains[intf]",
       "        for intf in self.interfaces(dim=sd.dim) + self.interfaces(dim=sd.dim - 1):\n"
       "            sd_pair = self._interface_to_subdomains[intf]", "R3"),
    _m("subdomain-to-interfaces-secondary-only", "            if sd_pair[0] == sd or sd_pair[1] == sd:\n                interfaces.append(intf)",
       "            if sd_pair[1] == sd:\n                interfaces.append(intf)", "R3"),
    # re-keying
    _m("replace-swaps-pair-position", "self._interface_to_subdomains[intf] = (sd_pair[0], sd_new)",
       "self._interface_to_subdomains[intf] = (sd_new, sd_pair[0])", "R4"),
    _m("replace-bg-from-old-grid", "                    bg_new = pp.BoundaryGrid(sd_new)\n",
       "                    bg_new = pp.BoundaryGrid(sd_old)\n", "R4"),
    _m("replace-drops-subdomain-data", "                self._subdomain_data[sd_new] = data\n",
       "                self._subdomain_data[sd_new] = {}\n", "R4"),
    _m("add-interface-stores-unsorted-pair", "            sd_pair = self.sort_subdomain_tuple(sd_pair)\n",
       "            sd_pair = (sd_pair[0], sd_pair[1])\n", "R4"),
    # sorting
    _m("interfaces-returned-unsorted", "            return [interfaces[i] for i in sort_ind]\n",
       "            return list(interfaces)\n", "R5"),
    _m("subdomains-data-misaligned", "                subdomains.append(sd)\n                data_list.append(data)\n",
       "                subdomains.append(sd)\n            data_list.append(data)\n", "R5"),
    _m("argsort-loses-id-tiebreak", "                    ids_dim.append(grid.id)\n", "                    ids_dim.append(ind)\n",
       "R5"),
    _m("argsort-ascending-dims", "np.arange(self.dim_max(), -1, -1)", "np.arange(0, self.dim_max() + 1)", "R5"),
    _m("argsort-drops-dim0", "np.arange(self.dim_max(), -1, -1)", "np.arange(self.dim_max(), 0, -1)", "R5"),
    _m("seed-argsort-scatter",
       "            sorted_inds_dim: np.ndarray = np.array(inds_in_all_dims, dtype=int)[\n                sort_inds_dim\n            ]\n",
       "            sorted_inds_dim: np.ndarray = np.empty(len(inds_in_all_dims), dtype=int)\n"
       "            sorted_inds_dim[sort_inds_dim] = inds_in_all_dims\n", "R5"),
    _m("argsort-gather-through-inverse", "np.argsort(ids_dim)\n", "np.argsort(np.argsort(ids_dim))\n", "R5"),
    _m("argsort-ids-descending", "np.argsort(ids_dim)\n", "np.argsort(ids_dim)[::-1]\n", "R5"),
    _m("sort-tuple-swapped", "return (subdomains[inds[0]], subdomains[inds[1]])",
       "return (subdomains[inds[1]], subdomains[inds[0]])", "R5"),
    # reverted fixes 5ceea7095 (identity map), a80b6f32d (foreign subdomain), 91249e198 (boundaries with 0-d only)
    _m("revert-fix-replace-identity-map",
       "                if sd_old is sd_new:\n                    # Nothing to replace. The deletions below would remove the subdomain.\n"
       "                    continue\n", "", "R8", control=True),
    _m("revert-fix-add-interface-foreign-subdomain",
       "        if any(sd not in self._subdomain_data for sd in sd_pair):\n"
       "            raise ValueError(\"Both subdomains of an interface must be in the md-grid\")\n", "", "R9"),
    _m("revert-fix-boundaries-0d-only", "            any(sd.dim > 0 for sd in self._subdomain_data)\n",
       "            self._subdomain_data\n", "R10"),
    _m("boundaries-guard-counts-0d", "            any(sd.dim > 0 for sd in self._subdomain_data)\n",
       "            any(sd.dim >= 0 for sd in self._subdomain_data)\n", "R10"),
    # validation order (reverted fixes 0b020dfbc, 62fc2be25)
    dict(name="revert-fix-add-interface-validate-first", rule="R6", control=True, edits=[
        dict(file=MD, count=1,
             old="        if np.abs(sd_pair[0].dim - sd_pair[1].dim) < 3:\n            sd_pair = self.sort_subdomain_tuple(sd_pair)\n"
                 "        else:\n            raise ValueError(\"Can only handle subdomain coupling of co-dimension <= 2\")\n",
             new=""),
        dict(file=MD, count=1,
             old="        self._interface_data[intf] = data\n",
             new="        self._interface_data[intf] = data\n"
                 "        if np.abs(sd_pair[0].dim - sd_pair[1].dim) < 3:\n            sd_pair = self.sort_subdomain_tuple(sd_pair)\n"
                 "        else:\n            raise ValueError(\"Can only handle subdomain coupling of co-dimension <= 2\")\n")]),
    _m("revert-fix-add-subdomains-duplicate",
       "        if len(set(id(sd) for sd in ng)) != len(ng):\n            raise ValueError(\"Grid listed more than once in new_subdomains\")\n",
       "", "R7", control=True),
    _m("add-subdomains-uniqueness-after-insert",
       "        if len(set(id(sd) for sd in ng)) != len(ng):\n            raise ValueError(\"Grid listed more than once in new_subdomains\")\n\n        for sd in ng:\n            # Add the grid to the dictionary of subdomains with an empty data\n            # dictionary.\n            self._subdomain_data[sd] = {}\n",
       "        for sd in ng:\n            # Add the grid to the dictionary of subdomains with an empty data\n            # dictionary.\n            self._subdomain_data[sd] = {}\n        if len(set(id(sd) for sd in ng)) != len(ng):\n            raise ValueError(\"Grid listed more than once in new_subdomains\")\n",
       "R6"),
    _m("add-interface-validates-after-insert",
       "        if intf in self._interface_data:\n            raise ValueError(\"Cannot add existing interface\")\n",
       "        self._interface_to_subdomains[intf] = tuple(sd_pair)\n        if intf in self._interface_data:\n"
       "            raise ValueError(\"Cannot add existing interface\")\n", "R6"),
]
