"""C32 - coordinate maps and tangential-normal bases are orthonormal: extracted-formula identities.

The anchored functions (geometry/map_geometry.py, utils/tangential_normal_projection.py) are short closed-form
array formulas.  They are abstractly interpreted: the statements are taken from the AST of the CURRENT source
and evaluated over numpy object arrays of sympy terms (symbolic vectors / points of fixed small size); every
square root becomes a positive radical symbol with its defining relation, sin/cos of a free angle become a
pair of symbols with s^2 + c^2 = 1, and identities are decided by polynomial reduction modulo these relations
(sympy is used only as a term normaliser).  Data-dependent branch predicates (argmax, sign tests, tolerance
tests) are resolved along one path per SCENARIO; a scenario is a region descriptor given by an exact rational
witness that is used for nothing but the truth value of such predicates.  An identity proven on a path holds for
every input that takes the same path; a refutation is an exact non-zero residual at the witness (a concrete
failing input); anything else is Undecided (exit 2).  No porepy code is imported or run.

R1  rotation_matrix(a, v)     every returned matrix is a proper rotation (R R^T = I, det R = +1), fixes the axis
                              (R v = v) and is the right-handed rotation by the angle a about v / |v| (it equals
                              cos a I + sin a [u]x + (1 - cos a) u u^T); the degenerate return is orthogonal too.
R2  project_plane_matrix /    the returned matrix is orthogonal with det +1 and maps the (normalised) normal /
    project_line_matrix       tangent to the reference axis, for symbolic directions, the default reference and a
                              symbolic unit reference: this fixes the order of the cross product, the angle
                              formula, the argument order of the rotation and rotation-vs-transpose at once.
R3  normal_matrix /           N = n n^T / |n|^2 for a NON-unit symbolic normal: N^2 = N, N^T = N, N n = n;
    tangent_matrix            T = I - N: T^2 = T, T n = 0, N + T = I.
R4  compute_normal /          for three symbolic points and every choice the data-dependent selections can make:
    compute_tangent           the result is a unit vector orthogonal to two independent differences of the points
                              (normal), resp. a unit vector parallel to the difference of two points (tangent);
                              compute_normal has a raising guard that depends on the vector it normalises.
R5  TangentialNormalProjection local basis and projection: for each region (2-d: sign of the second normal
                              component; 3-d: dominant component, generic and axis-aligned) the basis is
                              orthonormal, its last column is the unit normal, the projection block is its inverse
                              (= transpose), maps the normal to the LAST local axis, and (3-d) has det +1.
R6  block layout              project_tangential_normal is the block-diagonal matrix of the per-vector projection
                              blocks in vector-major order (ravel order agrees with the block builder);
                              project_normal selects row dim-1 of every block, project_tangential the other rows
                              in order; together they are a row permutation of the full projection; the `num`
                              form repeats the FIRST block.
R7  map_grid                  the four mapped fields are all (R @ field)[active rows] with the same R and the same
                              row mask, and the R returned is the R applied.
Not decided: floating-point accuracy, the values of the tolerances, behaviour on degenerate input (zero vectors,
collinear points, normal anti-parallel to the reference: the code then returns the identity, which maps the normal to
MINUS the reference), non-unit `reference` arguments (the code does not normalise them - assumption),
planarity tests, map_grid's active-dimension detection.  In 2-d the tangential-normal basis has det -1 on half of the
normals by design ("tangent points in the positive x-direction"); only |det| = 1 is implied there (orthonormality).
"""
from __future__ import annotations

import ast
import itertools
from typing import Any, Callable, Optional

import numpy as np
import sympy as sp

from ..core.astutil import u, dotted, walk_local, call_name, kwarg, body_nodoc, names_in, methods
from ..core.loader import AnchorError, Undecided
from ..core.report import Ctx

MG = "src/porepy/geometry/map_geometry.py"
TNP = "src/porepy/utils/tangential_normal_projection.py"

# ======================================================================================================
# term normaliser: rational functions over Q in base symbols, positive radical symbols and symbols tied
# by a relation  sym**2 == expr
# ======================================================================================================


def _sos_positive(f) -> bool:
    """a polynomial all of whose terms have a positive coefficient and even exponents (non-negative; positive in generic position)"""
    try:
        P = sp.Poly(f)
    except sp.PolynomialError:
        return False
    return bool(P.terms()) and all(c.is_positive and all(e % 2 == 0 for e in mon) for mon, c in P.terms())


class Alg:
    PREC = 50

    def __init__(self, witness: Optional[dict] = None, tag: str = "C32"):
        self.tag = tag
        self.rel: dict = {}           # sym -> expression of sym**2
        self.order: list = []         # creation order of the relation symbols
        self.radkey: dict = {}        # canonical radicand -> radical symbol
        self.pos: set = set()         # radical symbols (positive square roots)
        self.numv: dict = {}          # symbol -> numeric value at the witness
        self.trig: dict = {}          # angle expression -> (c, s)
        self.lazy: dict = {}          # lazily created square-root symbol -> radicand
        self.lazy_by_expr: dict = {}
        self.canon_of: dict = {}      # lazy symbol -> canonical form
        for k, v in (witness or {}).items():
            self.numv[k] = sp.Rational(v) if not isinstance(v, sp.Basic) else v

    # ---- numeric value at the witness ------------------------------------------------------------------
    def num(self, e):
        if isinstance(e, (int, np.integer)):
            return sp.Integer(int(e))
        if isinstance(e, float):
            return sp.Float(e, self.PREC)
        e = sp.sympify(e)
        if e.has(sp.nan):
            return sp.nan
        if e.is_number:
            return e if e.is_Rational else sp.N(e, self.PREC)
        miss = [s for s in e.free_symbols if s not in self.numv]
        if miss:
            raise Undecided(f"{self.tag}: no witness value for {miss[:3]}")
        v = e.xreplace({s: self.numv[s] for s in e.free_symbols})
        v = v if v.is_Rational else sp.N(v, self.PREC)
        if v.is_number and not v.is_real and v.is_finite:
            if abs(sp.im(v)) < sp.Float(10) ** (-self.PREC + 10):
                v = sp.re(v)
        return v

    def num_at(self, e, base: dict):
        """numeric value of e with the base symbols in `base` overridden; square-root symbols are recomputed from their radicands"""
        memo: dict = {}

        def val(sym):
            if sym in memo:
                return memo[sym]
            if sym in base:
                v = sp.sympify(base[sym])
            elif sym in self.lazy:
                v = sp.sqrt(sp.N(ev(self.lazy[sym]), self.PREC))
            elif sym in self.pos:
                v = sp.sqrt(sp.N(ev(self.rel[sym]), self.PREC))
            else:
                v = self.numv.get(sym)
                if v is None:
                    raise Undecided(f"{self.tag}: no witness value for {sym}")
            memo[sym] = v
            return v

        def ev(x):
            x = sp.sympify(x)
            if x.has(sp.nan):
                return sp.nan
            r = x.xreplace({s_: val(s_) for s_ in x.free_symbols})
            return r if r.is_Rational else sp.N(r, self.PREC)
        return ev(e)

    def fnum(self, e) -> float:
        if isinstance(e, sp.Basic) and e.has(sp.nan):
            return float("nan")
        v = self.num(e)
        if v is sp.nan or v.has(sp.nan):
            return float("nan")
        if v.is_real is False or not v.is_finite:
            raise Undecided(f"{self.tag}: witness value of {str(e)[:60]} is not a finite real number")
        return float(v)

    # ---- relations --------------------------------------------------------------------------------------
    def constrain(self, sym, square, value) -> None:
        """declare sym**2 == square (e.g. the last component of a symbolic unit vector); value: witness value of sym"""
        self.rel[sym] = sp.sympify(square)
        self.order.append(sym)
        self.numv[sym] = sp.sympify(value)

    def angle(self, a):
        """(cos a, sin a) of an angle term that is not an inverse trigonometric function: a pair of tied symbols"""
        if a in self.trig:
            return self.trig[a]
        k = len(self.trig)
        c, s = sp.Symbol(f"cos_{k}", real=True), sp.Symbol(f"sin_{k}", real=True)
        av = self.num(a)
        self.numv[c] = sp.N(sp.cos(av), self.PREC)
        self.rel[s] = 1 - c**2
        self.order.append(s)
        self.numv[s] = sp.N(sp.sin(av), self.PREC)
        self.trig[a] = (c, s)
        return c, s

    def _gens(self, e) -> list:
        syms = set(e.free_symbols)
        todo = list(syms)
        while todo:
            x = todo.pop()
            if x in self.rel:
                for y in sp.sympify(self.rel[x]).free_symbols:
                    if y not in syms:
                        syms.add(y)
                        todo.append(y)
        return sorted(syms, key=str)

    def _reduce_elem(self, Rg, el):
        """reduce a ring element modulo the relations sym**2 == poly (each relation symbol ends with degree <= 1)"""
        gens = list(Rg.symbols)
        for R in reversed(self.order):
            if R not in gens:
                continue
            i = gens.index(R)
            if all(mon[i] < 2 for mon in el.keys()):
                continue
            relp = Rg.from_expr(sp.sympify(self.rel[R]))
            pw = {0: Rg.one}
            new = Rg.zero
            for mon, c in el.terms():
                k = mon[i]
                if k < 2:
                    new += Rg.term_new(mon, c)
                    continue
                h, r_ = divmod(k, 2)
                if h not in pw:
                    pw[h] = relp ** h
                m2 = mon[:i] + (r_,) + mon[i + 1:]
                new += Rg.term_new(m2, c) * pw[h]
            el = new
        return el

    def _numer_vanishes(self, e) -> bool:
        """the numerator of e (over a common denominator, no gcd computations) reduces to zero modulo the relations"""
        from sympy.polys.rings import ring
        n, _d = sp.fraction(sp.together(e))
        gens = self._gens(n)
        if not gens:
            return sp.expand(n) == 0
        try:
            Rg = ring(gens, sp.QQ)[0]
            el = Rg.from_expr(n)
        except Exception:
            return False
        return self._reduce_elem(Rg, el) == 0

    def ratform(self, e):
        """(numerator, denominator) of e as expressions, both reduced modulo the relations - or None if e is not rational in its symbols"""
        from sympy.polys.fields import field
        e = sp.sympify(e)
        gens = self._gens(e)
        if not gens:
            n, d = sp.fraction(sp.together(e))
            return sp.expand(n), sp.expand(d)
        try:
            K = field(gens, sp.QQ)[0]
            fe = K.from_expr(e)
        except Exception:
            return None
        Rg = K.ring
        n2, d2 = self._reduce_elem(Rg, fe.numer), self._reduce_elem(Rg, fe.denom)
        return n2.as_expr(), d2.as_expr()

    def is_zero(self, e, what: str = "") -> bool:
        """True: proven identically zero on the path; False: refuted at the witness; otherwise Undecided"""
        e = sp.sympify(e)
        if e == 0:
            return True
        v = self.num(e)
        if not (v.is_number and v.is_finite):
            return False
        if abs(v) > sp.Float(10) ** (-self.PREC + 20):
            return False                      # an exact non-zero residual at the witness: a concrete failing input
        e = self.resolve(e)
        if e == 0:
            return True
        if not e.atoms(sp.Function):
            if self._numer_vanishes(e):
                return True
        raise Undecided(f"{self.tag}: cannot decide whether a term vanishes identically ({what}): {str(e)[:160]}")

    # ---- square roots: created lazily, canonicalised only when an identity needs them ---------------------
    def sqrt(self, e):
        e = sp.sympify(e)
        if e.is_number:
            return sp.sqrt(e)
        L = self.lazy_by_expr.get(e)
        if L is None:
            v = self.num(e)
            if not (v.is_real and v.is_finite):
                raise Undecided(f"{self.tag}: square root of a term without a real value at the witness: {str(e)[:80]}")
            if abs(v) < sp.Float(10) ** (-self.PREC + 20):
                if self.is_zero(e, "radicand"):
                    return sp.Integer(0)
            if v < 0:
                return sp.nan            # numpy semantics: sqrt / arccos outside the domain give nan at this input
            L = sp.Symbol(f"lz{len(self.lazy)}", positive=True)
            self.lazy[L] = e
            self.lazy_by_expr[e] = L
            self.numv[L] = sp.sqrt(sp.N(v, self.PREC))
        return L

    def square(self, e):
        """e**2; for a (lazily created) square root this is its radicand, no canonical form needed"""
        e = sp.sympify(e)
        if e in self.lazy:
            return self.lazy[e]
        return e ** 2

    def resolve(self, e):
        """replace the lazily created square roots in e by their canonical form (radical tower)"""
        e = sp.sympify(e)
        for _ in range(50):
            ls = [s_ for s_ in e.free_symbols if s_ in self.lazy]
            if not ls:
                return e
            sub = {}
            for L in ls:
                if L not in self.canon_of:
                    self.canon_of[L] = self._sqrt_canon(self.resolve(self.lazy[L]))
                sub[L] = self.canon_of[L]
            e = e.xreplace(sub)
        raise Undecided(f"{self.tag}: radical tower too deep")

    def _split(self, poly):
        """poly == const * prod f**m with the f square-free; known radicands / radical symbols are split off as separate factors"""
        const, facs = sp.sqf_list(poly)
        out = []
        for g, m in facs:
            g = sp.sympify(g)
            for R in list(self.order):
                if R in self.pos and g.has(R):
                    q_, r_ = sp.div(g, R, R)
                    if r_ == 0:
                        out.append((R, m))
                        g = sp.expand(q_)
            for canon, R in list(self.radkey.items()):
                G = sp.sympify(canon)
                if g.is_number or not G.free_symbols <= g.free_symbols:
                    continue
                k0 = self._key(g)
                if k0 is not None and k0[0] == G:
                    out.append((G, m))
                    const *= k0[1] ** m
                    g = sp.Integer(1)
                    break
                if len(G.free_symbols) < len(g.free_symbols) or sp.Poly(G).total_degree() < sp.Poly(g).total_degree():
                    try:
                        q_, r_ = sp.div(g, G, *sorted(g.free_symbols, key=str))
                    except Exception:
                        continue
                    if r_ == 0:
                        out.append((G, m))
                        g = sp.expand(q_)
            if g.is_number:
                const *= g ** m
            else:
                out.append((g, m))
        return const, out

    def _sqrt_canon(self, e):
        e = sp.sympify(e)
        if e.is_number:
            return sp.sqrt(e)
        rf = self.ratform(e)
        if rf is None:
            raise Undecided(f"{self.tag}: square root of a non-rational term {str(e)[:80]}")
        n, d = rf
        q = sp.cancel(n / d)
        n, d = sp.fraction(q)
        if n == 0:
            return sp.Integer(0)
        outside = sp.Integer(1)
        rest = sp.Integer(1)
        cn, fn = self._split(n)
        cd, fd = self._split(d)
        const = sp.Rational(cn) / sp.Rational(cd)
        for facs, sgn in ((fn, 1), (fd, -1)):
            for f, m in facs:
                if f in self.pos:                       # a radical symbol under the root
                    half, odd = divmod(m, 2)
                    outside *= f ** (sgn * half)
                    if odd:
                        if sgn < 0:
                            outside /= f
                        rest *= f
                    continue
                key = self._key(f)
                if key is not None and key[0] in self.radkey:      # the radicand of a known radical (up to a positive constant)
                    outside *= self.radkey[key[0]] ** (sgn * m)
                    const *= sp.Rational(key[1]) ** (sgn * m)
                    continue
                half, odd = divmod(m, 2)
                if half:
                    if f.is_positive or _sos_positive(f):
                        outside *= f ** (sgn * half)
                    else:
                        sg = 1 if self.fnum(f) > 0 else -1       # |f| on the path of this scenario
                        outside *= (sg * f) ** (sgn * half)
                if odd:
                    if sgn < 0:
                        outside /= f
                    rest *= f
        rest = sp.expand(rest)
        if const < 0:
            const, rest = -const, -rest
        a_, b_ = sp.fraction(sp.Rational(const))
        outside *= sp.sqrt(sp.Integer(a_ * b_)) / b_
        if rest == 1:
            return outside
        if rest.is_number:
            return outside * sp.sqrt(rest)
        key = self._key(rest)
        if key is None:
            raise Undecided(f"{self.tag}: radicand {str(rest)[:80]} is not a polynomial")
        canon, c0 = key
        if canon in self.radkey:
            return outside * sp.sqrt(sp.Rational(c0)) * self.radkey[canon]
        val = self.num(rest)
        if not (val.is_real and val > 0):
            raise Undecided(f"{self.tag}: square root of a term that is not positive at the witness: {str(rest)[:80]}")
        R = sp.Symbol(f"rad{len(self.radkey)}", positive=True)
        prim = sp.sympify(canon)
        self.radkey[canon] = R
        self.pos.add(R)
        self.rel[R] = prim
        self.order.append(R)
        self.numv[R] = sp.sqrt(sp.N(self.num(prim), self.PREC))
        return outside * sp.sqrt(sp.Rational(c0)) * R

    @staticmethod
    def _key(f):
        """(primitive polynomial with positive leading coefficient, positive content) of f - or None"""
        try:
            P = sp.Poly(sp.expand(f))
        except (sp.PolynomialError, sp.GeneratorsNeeded):
            return None
        if not P.gens:
            return None
        c, prim = P.primitive()
        if c == 0:
            return None
        if c < 0:                     # f == |c| * (-prim): the positive constant is split off, the sign stays with the polynomial
            prim, c = -prim, -c
        return prim.as_expr(), c

    def canon(self, e):
        """replace every half-integer power, sin/cos of a free angle, and Abs of a term with a known sign by canonical terms"""
        if isinstance(e, (int, np.integer)):
            return sp.Integer(int(e))
        e = sp.sympify(e)
        if e.is_Atom:
            return e
        if e.is_Pow and e.exp.is_Rational and e.exp.q == 2:
            return self.sqrt(self.canon(e.base)) ** e.exp.p
        if isinstance(e, (sp.sin, sp.cos)):
            a = self.canon(e.args[0])
            val = type(e)(a)
            if isinstance(val, type(e)):       # not auto-evaluated (e.g. through acos)
                c, s = self.angle(a)
                return c if isinstance(e, sp.cos) else s
            return self.canon(val)
        args = [self.canon(a) for a in e.args]
        return e.func(*args)


# ======================================================================================================
# interpreter of the numpy subset used by the anchored geometry code
# ======================================================================================================

class Raised(Exception):
    """the interpreted code raises on this path"""

    def __init__(self, node):
        super().__init__(u(node)[:80])
        self.node = node


class _Ret(Exception):
    def __init__(self, value):
        self.value = value


class _Break(Exception):
    pass


class _Continue(Exception):
    pass


class Opaque:
    def __init__(self, name: str):
        self.name = name

    def __repr__(self):
        return f"<opaque {self.name}>"


class Obj:
    """instance of a class under analysis (attribute bag)"""

    def __init__(self, cls: ast.ClassDef, mod):
        self.cls, self.mod, self.attrs = cls, mod, {}


class SpMat:
    """a scipy sparse matrix, kept as a dense object array; `*` is the matrix product"""

    def __init__(self, a: np.ndarray):
        self.a = a


class Closure:
    def __init__(self, fn: ast.FunctionDef, env: dict, mod):
        self.fn, self.env, self.mod = fn, env, mod


def _o(x) -> np.ndarray:
    """object array of sympy terms from anything array-like"""
    if isinstance(x, np.ndarray) and x.dtype == object:
        return x
    a = np.array(x, dtype=object) if not isinstance(x, np.ndarray) else x.astype(object)
    if a.ndim == 0:
        return a
    flat = a.ravel()
    for i in range(flat.size):
        v = flat[i]
        if isinstance(v, (bool, np.bool_)):
            continue
        if isinstance(v, (int, np.integer)):
            flat[i] = sp.Integer(int(v))
    return flat.reshape(a.shape)


def _is_native(x) -> bool:
    return isinstance(x, (int, bool, np.integer, np.bool_)) or (isinstance(x, np.ndarray) and x.dtype != object)


def _symnum(x):
    """python / numpy integers -> sympy; leaves the rest"""
    if isinstance(x, (bool, np.bool_)):
        return x
    if isinstance(x, (int, np.integer)):
        return sp.Integer(int(x))
    if isinstance(x, np.ndarray) and x.dtype != object and x.dtype != bool:
        return _o(x)
    return x


class Interp:
    MAXDEPTH = 8

    def __init__(self, alg: Alg, repo, stubs: Optional[dict] = None, tag: str = "C32"):
        self.alg, self.repo, self.stubs, self.tag = alg, repo, dict(stubs or {}), tag
        self.masked_stores: dict = {}      # (lineno, col) -> exercised with a non-empty selection?
        self.decisions: list = []          # (text of the predicate, outcome) of data-dependent decisions
        self.cmp_log: list = []            # (text, lhs, rhs) of comparisons with a symbolic operand
        self._modconst: dict = {}
        self.depth = 0

    # ---- entry points -----------------------------------------------------------------------------------
    def call_function(self, mod, fn: ast.FunctionDef, args: list, kwargs: dict, selfobj: Optional[Obj] = None, closure_env: Optional[dict] = None):
        if self.depth >= self.MAXDEPTH:
            raise Undecided(f"{self.tag}: helper nesting too deep at {fn.name}")
        a = fn.args
        if a.vararg or a.kwarg or a.posonlyargs:
            raise Undecided(f"{self.tag}: signature of {fn.name}")
        params = [p.arg for p in a.args]
        env: dict = dict(closure_env) if closure_env is not None else {}
        env["__mod__"] = mod
        if selfobj is not None:
            if not params:
                raise Undecided(f"{self.tag}: method {fn.name} without self")
            env[params[0]] = selfobj
            params = params[1:]
        if len(args) > len(params):
            raise Undecided(f"{self.tag}: too many arguments for {fn.name}")
        bound = dict(zip(params, args))
        for k, v in kwargs.items():
            if k not in params + [p.arg for p in a.kwonlyargs] or k in bound:
                raise Undecided(f"{self.tag}: keyword {k} of {fn.name}")
            bound[k] = v
        defaults = dict(zip(params[len(params) - len(a.defaults):], a.defaults))
        for p, dv in zip(a.kwonlyargs, a.kw_defaults):
            if dv is not None:
                defaults[p.arg] = dv
        for p in params + [p.arg for p in a.kwonlyargs]:
            if p not in bound:
                if p not in defaults:
                    raise Undecided(f"{self.tag}: {fn.name} called without {p}")
                bound[p] = self.ev(defaults[p], {"__mod__": mod})
        env.update(bound)
        self.depth += 1
        try:
            self.block(fn.body, env)
        except _Ret as r:
            return r.value
        except (Undecided, AnchorError, Raised, ShapeError, _Break, _Continue):
            raise
        except RecursionError:
            raise Undecided(f"{self.tag}: recursion while interpreting {fn.name}")
        except Exception as ex:           # an operation outside the modelled subset: never a verdict
            raise Undecided(f"{self.tag}: interpreter cannot execute {fn.name}: {type(ex).__name__}: {str(ex)[:100]}")
        finally:
            self.depth -= 1
        return None

    def module_constant(self, mod, name: str):
        """value of a module-level constant: the (last) top-level assignment to the name, evaluated in the module's own scope"""
        key = (mod.rel, mod.digest, name)
        if key in self._modconst:
            v0 = self._modconst[key]
            return v0.copy() if isinstance(v0, np.ndarray) else v0
        val_node = None
        for st in mod.tree.body:
            if isinstance(st, ast.Assign) and any(isinstance(t, ast.Name) and t.id == name for t in st.targets):
                val_node = st.value
            elif isinstance(st, ast.AnnAssign) and isinstance(st.target, ast.Name) and st.target.id == name and st.value is not None:
                val_node = st.value
        if val_node is None:
            raise Undecided(f"{self.tag}: unknown name {name}")
        if self.depth >= self.MAXDEPTH:
            raise Undecided(f"{self.tag}: module constant {name}: nesting too deep")
        self.depth += 1
        try:
            val = self.ev(val_node, {"__mod__": mod})
        finally:
            self.depth -= 1
        self._modconst[key] = val
        return val.copy() if isinstance(val, np.ndarray) else val

    # ---- statements -------------------------------------------------------------------------------------
    def block(self, body, env) -> None:
        for st in body:
            self.stmt(st, env)

    def truth(self, v, node) -> bool:
        if isinstance(v, (bool, np.bool_)):
            return bool(v)
        if isinstance(v, (int, np.integer)):
            return bool(v)
        if isinstance(v, np.ndarray) and v.size == 1 and v.dtype == bool:
            return bool(v.ravel()[0])
        if v is None:
            return False
        if isinstance(v, (list, tuple, str)):
            return bool(v)
        raise Undecided(f"{self.tag}: truth value of `{u(node)[:60]}`")

    def stmt(self, st, env) -> None:
        if isinstance(st, ast.Expr):
            if isinstance(st.value, ast.Constant):
                return
            self.ev(st.value, env)          # evaluated for effects; the value is dropped (as python does)
            return
        if isinstance(st, (ast.Pass, ast.Assert, ast.Import, ast.ImportFrom, ast.Global, ast.Nonlocal)):
            return
        if isinstance(st, ast.FunctionDef):
            env[st.name] = Closure(st, env, env.get("__mod__"))
            return
        if isinstance(st, ast.AnnAssign):
            if st.value is None:
                return
            self.assign(st.target, self.ev(st.value, env), env, st)
            return
        if isinstance(st, ast.Assign):
            val = self.ev(st.value, env)
            for tg in st.targets:
                self.assign(tg, val, env, st)
            return
        if isinstance(st, ast.AugAssign):
            cur = self.ev(st.target, env)
            val = self.binop(st.op, cur, self.ev(st.value, env), st)
            if isinstance(st.target, ast.Name) and isinstance(cur, np.ndarray) and isinstance(val, np.ndarray) and cur.shape == val.shape and cur.dtype == val.dtype:
                cur[...] = val                   # in-place semantics of numpy (aliases see the update)
            else:
                self.assign(st.target, val, env, st)
            return
        if isinstance(st, ast.Return):
            raise _Ret(self.ev(st.value, env) if st.value is not None else None)
        if isinstance(st, ast.Raise):
            raise Raised(st)
        if isinstance(st, ast.If):
            t = self.truth(self.ev(st.test, env), st.test)
            self.block(st.body if t else st.orelse, env)
            return
        if isinstance(st, ast.For):
            broke = False
            for v in self.iterate(st.iter, env):
                self.assign(st.target, v, env, st)
                try:
                    self.block(st.body, env)
                except _Break:
                    broke = True
                    break
                except _Continue:
                    continue
            if not broke:
                self.block(st.orelse, env)
            return
        if isinstance(st, ast.While):
            for _ in range(64):
                if not self.truth(self.ev(st.test, env), st.test):
                    break
                try:
                    self.block(st.body, env)
                except _Break:
                    break
                except _Continue:
                    continue
            else:
                raise Undecided(f"{self.tag}: while loop does not terminate within 64 trips")
            return
        if isinstance(st, ast.Break):
            raise _Break()
        if isinstance(st, ast.Continue):
            raise _Continue()
        raise Undecided(f"{self.tag}: statement {type(st).__name__}: {u(st)[:60]}")

    def assign(self, tg, val, env, st) -> None:
        if isinstance(tg, ast.Name):
            env[tg.id] = val
            return
        if isinstance(tg, (ast.Tuple, ast.List)):
            vals = list(val) if isinstance(val, (tuple, list, np.ndarray)) else None
            if vals is None or len(vals) != len(tg.elts):
                raise Undecided(f"{self.tag}: cannot unpack into {u(tg)[:50]}")
            for t_, v_ in zip(tg.elts, vals):
                self.assign(t_, v_, env, st)
            return
        if isinstance(tg, ast.Attribute):
            base = self.ev(tg.value, env)
            if isinstance(base, Obj):
                base.attrs[tg.attr] = val
                return
            raise Undecided(f"{self.tag}: attribute store {u(tg)[:50]}")
        if isinstance(tg, ast.Subscript):
            base = self.ev(tg.value, env)
            idx = self.index(tg.slice, env)
            if isinstance(base, np.ndarray):
                parts = idx if isinstance(idx, tuple) else (idx,)
                masks = [p for p in parts if isinstance(p, np.ndarray) and p.dtype == bool]
                if masks:
                    k = (getattr(st, "lineno", 0), getattr(st, "col_offset", 0), u(tg))
                    self.masked_stores[k] = self.masked_stores.get(k, False) or any(bool(m.any()) for m in masks)
                if base.dtype != object and not _is_native(val):
                    raise Undecided(f"{self.tag}: symbolic value stored into a concrete array: {u(st)[:60]}")
                try:
                    base[idx] = _symnum(val) if base.dtype == object else val
                except (ValueError, IndexError, TypeError) as ex:
                    raise ShapeError(st, str(ex))
                return
            if isinstance(base, (list, dict)):
                base[idx] = val
                return
            raise Undecided(f"{self.tag}: subscript store {u(tg)[:50]}")
        raise Undecided(f"{self.tag}: assignment target {u(tg)[:50]}")

    def iterate(self, it, env):
        if isinstance(it, ast.Call) and isinstance(it.func, ast.Name) and it.func.id not in env:
            nm = it.func.id
            if nm == "range":
                a = [self.ev(x, env) for x in it.args]
                if not all(isinstance(x, (int, np.integer)) for x in a):
                    raise Undecided(f"{self.tag}: symbolic range bound in {u(it)[:50]}")
                return [int(i) for i in range(*[int(x) for x in a])]
            if nm == "enumerate" and len(it.args) == 1:
                return [(i, v) for i, v in enumerate(self.iterate(it.args[0], env))]
            if nm == "zip":
                cols = [list(self.iterate(a_, env)) for a_ in it.args]
                return [tuple(t) for t in zip(*cols)]
        v = self.ev(it, env)
        if isinstance(v, np.ndarray):
            if v.dtype != object:
                return [v[i] if v.ndim > 1 else (int(v[i]) if v.dtype != bool else bool(v[i])) for i in range(v.shape[0])]
            return [v[i] for i in range(v.shape[0])]
        if isinstance(v, (list, tuple)):
            return list(v)
        raise Undecided(f"{self.tag}: iteration over `{u(it)[:50]}`")

    # ---- expressions ------------------------------------------------------------------------------------
    def ev(self, e, env):
        if isinstance(e, ast.Constant):
            v = e.value
            if isinstance(v, bool) or v is None or isinstance(v, (str, int)):
                return v
            if isinstance(v, float):
                return sp.nsimplify(v, rational=True)
            raise Undecided(f"{self.tag}: constant {v!r}")
        if isinstance(e, ast.Name):
            if e.id in env:
                return env[e.id]
            if e.id in ("np", "pp", "sps", "scidist", "float", "int", "bool"):
                return Opaque(e.id)
            mod = env.get("__mod__")
            if mod is not None:
                return self.module_constant(mod, e.id)
            raise Undecided(f"{self.tag}: unknown name {e.id}")
        if isinstance(e, (ast.Tuple, ast.List)):
            vals = [self.ev(x, env) for x in e.elts]
            return tuple(vals) if isinstance(e, ast.Tuple) else vals
        if isinstance(e, ast.UnaryOp):
            v = self.ev(e.operand, env)
            if isinstance(e.op, ast.USub):
                return -_symnum(v) if not _is_native(v) or isinstance(v, np.ndarray) else -v
            if isinstance(e.op, ast.UAdd):
                return v
            if isinstance(e.op, ast.Not):
                return not self.truth(v, e.operand)
            if isinstance(e.op, ast.Invert) and isinstance(v, np.ndarray) and v.dtype == bool:
                return ~v
            if isinstance(e.op, ast.Invert) and isinstance(v, np.bool_):
                return not bool(v)
            raise Undecided(f"{self.tag}: unary {u(e)[:40]}")
        if isinstance(e, ast.BoolOp):
            res = None
            for x in e.values:
                res = self.ev(x, env)
                t = self.truth(res, x)
                if isinstance(e.op, ast.And) and not t:
                    return res
                if isinstance(e.op, ast.Or) and t:
                    return res
            return res
        if isinstance(e, ast.Compare):
            left = self.ev(e.left, env)
            out = None
            for op, c in zip(e.ops, e.comparators):
                right = self.ev(c, env)
                r = self.compare(op, left, right, e)
                out = r if out is None else (out & r if isinstance(out, np.ndarray) or isinstance(r, np.ndarray) else (out and r))
                left = right
            return out
        if isinstance(e, ast.BinOp):
            return self.binop(e.op, self.ev(e.left, env), self.ev(e.right, env), e)
        if isinstance(e, ast.IfExp):
            return self.ev(e.body if self.truth(self.ev(e.test, env), e.test) else e.orelse, env)
        if isinstance(e, ast.Attribute):
            return self.attribute(e, env)
        if isinstance(e, ast.Subscript):
            base = self.ev(e.value, env)
            if isinstance(base, Opaque) and base.name == "np.r_":
                raise Undecided(f"{self.tag}: np.r_")
            return self.subscript(base, self.index(e.slice, env), e)
        if isinstance(e, ast.Call):
            return self.call(e, env)
        if isinstance(e, ast.ListComp):
            if len(e.generators) != 1:
                raise Undecided(f"{self.tag}: nested comprehension")
            g = e.generators[0]
            out = []
            sub = dict(env)
            for v in self.iterate(g.iter, env):
                self.assign(g.target, v, sub, e)
                if all(self.truth(self.ev(c, sub), c) for c in g.ifs):
                    out.append(self.ev(e.elt, sub))
            return out
        raise Undecided(f"{self.tag}: expression {type(e).__name__}: {u(e)[:60]}")

    def index(self, s, env):
        if isinstance(s, ast.Slice):
            def b(x):
                if x is None:
                    return None
                v = self.ev(x, env)
                if v is None:
                    return None
                if not isinstance(v, (int, np.integer)):
                    raise Undecided(f"{self.tag}: symbolic slice bound")
                return int(v)
            return slice(b(s.lower), b(s.upper), b(s.step))
        if isinstance(s, ast.Tuple):
            return tuple(self.index(x, env) for x in s.elts)
        v = self.ev(s, env)
        if isinstance(v, Opaque) and v.name == "np.newaxis":
            return None
        if isinstance(v, sp.Integer):
            return int(v)
        if isinstance(v, list):
            return [int(t) for t in v] if all(isinstance(t, (int, np.integer, sp.Integer)) for t in v) else v
        return v

    def subscript(self, base, idx, e):
        if isinstance(base, np.ndarray):
            parts = idx if isinstance(idx, tuple) else (idx,)
            for p in parts:
                if isinstance(p, (sp.Expr,)) or isinstance(p, Opaque):
                    raise Undecided(f"{self.tag}: symbolic index in {u(e)[:60]}")
            try:
                r = base[idx]
            except (IndexError, ValueError) as ex:
                raise ShapeError(e, str(ex))
            if isinstance(r, np.generic):
                r = r.item()
            return r
        if isinstance(base, (list, tuple)):
            if isinstance(idx, (int, slice)):
                try:
                    return base[idx]
                except IndexError as ex:
                    raise ShapeError(e, str(ex))
            raise Undecided(f"{self.tag}: sequence index {u(e)[:50]}")
        if isinstance(base, dict):
            return base[idx]
        raise Undecided(f"{self.tag}: subscript of unmodelled value `{u(e)[:60]}`")

    # ---- arithmetic / comparison --------------------------------------------------------------------------
    def binop(self, op, l, r, node):
        if isinstance(l, SpMat) or isinstance(r, SpMat):
            if isinstance(op, (ast.Mult, ast.MatMult)):
                la = l.a if isinstance(l, SpMat) else _o(l)
                ra = r.a if isinstance(r, SpMat) else _o(r)
                if isinstance(l, SpMat) and isinstance(r, SpMat):
                    return SpMat(self._dot(la, ra, node))
                if isinstance(l, SpMat) and isinstance(r, np.ndarray):
                    return self._dot(la, ra, node)
                if isinstance(r, SpMat) and isinstance(l, np.ndarray) and isinstance(op, ast.MatMult):
                    return self._dot(la, ra, node)
                if not isinstance(l, (SpMat, np.ndarray)):
                    return SpMat(_symnum(l) * ra)
                if not isinstance(r, (SpMat, np.ndarray)):
                    return SpMat(la * _symnum(r))
            if isinstance(op, (ast.Add, ast.Sub)) and isinstance(l, SpMat) and isinstance(r, SpMat):
                return SpMat(l.a + r.a if isinstance(op, ast.Add) else l.a - r.a)
            raise Undecided(f"{self.tag}: sparse operation {u(node)[:60]}")
        for v in (l, r):
            if isinstance(v, (Opaque, Obj, str, list, tuple, dict)) or v is None:
                if isinstance(op, ast.Add) and isinstance(l, (list, tuple)) and type(l) is type(r):
                    return l + r
                raise Undecided(f"{self.tag}: arithmetic on unmodelled value in `{u(node)[:60]}`")
        native = _is_native(l) and _is_native(r)
        try:
            if isinstance(op, ast.MatMult):
                return self._dot(_o(l), _o(r), node)
            if native and not isinstance(op, (ast.Div, ast.Pow)):
                if isinstance(op, ast.Add):
                    return l + r
                if isinstance(op, ast.Sub):
                    return l - r
                if isinstance(op, ast.Mult):
                    return l * r
                if isinstance(op, ast.FloorDiv):
                    return l // r
                if isinstance(op, ast.Mod):
                    return l % r
                if isinstance(op, (ast.BitAnd, ast.BitOr, ast.BitXor)):
                    lb = isinstance(l, (bool, np.bool_)) or (isinstance(l, np.ndarray) and l.dtype == bool)
                    rb = isinstance(r, (bool, np.bool_)) or (isinstance(r, np.ndarray) and r.dtype == bool)
                    if lb and rb:
                        res = (l & r) if isinstance(op, ast.BitAnd) else ((l | r) if isinstance(op, ast.BitOr) else (l ^ r))
                        return bool(res) if isinstance(res, np.bool_) else res
            if native and isinstance(op, ast.Pow) and isinstance(r, (int, np.integer)) and r >= 0:
                return l ** r
            l, r = _symnum(l), _symnum(r)
            if isinstance(op, ast.Add):
                return l + r
            if isinstance(op, ast.Sub):
                return l - r
            if isinstance(op, ast.Mult):
                return l * r
            if isinstance(op, ast.Div):
                return l / r
            if isinstance(op, ast.Pow):
                return self._pow(l, r)
        except ValueError as ex:          # numpy broadcasting error on faithful shapes
            raise ShapeError(node, str(ex))
        raise Undecided(f"{self.tag}: operator {type(op).__name__} in `{u(node)[:60]}`")

    def _pow(self, l, r):
        def one(a, b):
            return self.alg.canon(sp.Pow(sp.sympify(a), sp.sympify(b)))
        if isinstance(l, np.ndarray) or isinstance(r, np.ndarray):
            return np.frompyfunc(one, 2, 1)(l, r)
        return one(l, r)

    def _dot(self, a, b, node):
        a, b = _o(a), _o(b)
        try:
            r = np.dot(a, b)
        except ValueError as ex:
            raise ShapeError(node, str(ex))
        return r

    def numeric(self, v) -> float:
        if isinstance(v, (bool, np.bool_)):
            return float(v)
        if isinstance(v, (int, float, np.integer, np.floating)):
            return float(v)
        return self.alg.fnum(v)

    def compare(self, op, l, r, node):
        if isinstance(op, (ast.Is, ast.IsNot)):
            res = l is r or (l is None and r is None)
            return res if isinstance(op, ast.Is) else not res
        if isinstance(op, (ast.In, ast.NotIn)):
            if isinstance(r, (list, tuple, dict, set)):
                res = l in r
                return res if isinstance(op, ast.In) else not res
            raise Undecided(f"{self.tag}: membership test {u(node)[:50]}")
        if l is None or r is None or isinstance(l, str) or isinstance(r, str):
            if isinstance(op, ast.Eq):
                return l == r
            if isinstance(op, ast.NotEq):
                return l != r
            raise Undecided(f"{self.tag}: comparison {u(node)[:50]}")
        if isinstance(l, tuple) and isinstance(r, tuple) and isinstance(op, (ast.Eq, ast.NotEq)):
            return (l == r) if isinstance(op, ast.Eq) else (l != r)
        fn = {ast.Lt: lambda a, b: a < b, ast.LtE: lambda a, b: a <= b, ast.Gt: lambda a, b: a > b, ast.GtE: lambda a, b: a >= b,
              ast.Eq: lambda a, b: a == b, ast.NotEq: lambda a, b: a != b}.get(type(op))
        if fn is None:
            raise Undecided(f"{self.tag}: comparison operator in {u(node)[:50]}")
        return self.cmp(fn, l, r, node)

    def cmp(self, fn, l, r, node):
        """element-wise comparison; symbolic operands are compared by their value at the witness of the scenario"""
        if _is_native(l) and _is_native(r):
            return fn(l, r)
        symbolic = [False]

        def one(a, b):
            if not (_is_native(a) and _is_native(b)):
                symbolic[0] = True
            return bool(fn(self.numeric(a), self.numeric(b)))
        if isinstance(l, np.ndarray) or isinstance(r, np.ndarray):
            try:
                la, ra = np.broadcast_arrays(_o(l) if isinstance(l, np.ndarray) else np.array(l, dtype=object), _o(r) if isinstance(r, np.ndarray) else np.array(r, dtype=object))
            except ValueError as ex:
                raise ShapeError(node, str(ex))
            out = np.zeros(la.shape, dtype=bool)
            fl, fr, fo = la.ravel(), ra.ravel(), out.ravel()
            for i in range(fl.size):
                fo[i] = one(fl[i], fr[i])
            res = fo.reshape(la.shape)
        else:
            res = one(l, r)
        if symbolic[0]:
            self.decisions.append((u(node)[:70], str(res.tolist() if isinstance(res, np.ndarray) else res)))
            self.cmp_log.append((u(node)[:100], l, r))
        return res

    # ---- attributes ---------------------------------------------------------------------------------------
    def attribute(self, e, env):
        d = dotted(e)
        if d in ("np.pi",):
            return sp.pi
        if d in ("np.newaxis",):
            return Opaque("np.newaxis")
        if d in ("np.inf",):
            return sp.oo
        base = self.ev(e.value, env)
        a = e.attr
        if isinstance(base, Opaque):
            return Opaque(f"{base.name}.{a}")
        if isinstance(base, Obj):
            if a in base.attrs:
                return base.attrs[a]
            raise Undecided(f"{self.tag}: attribute {u(e)} read before it is written")
        if isinstance(base, np.ndarray):
            if a == "T":
                return base.T
            if a == "shape":
                return tuple(int(s) for s in base.shape)
            if a == "size":
                return int(base.size)
            if a == "ndim":
                return int(base.ndim)
            if a == "data":
                return base          # underlying data of a masked comparison result
        if isinstance(base, SpMat):
            if a == "T":
                return SpMat(base.a.T)
            if a == "shape":
                return tuple(int(s) for s in base.a.shape)
        raise Undecided(f"{self.tag}: attribute {u(e)[:50]}")

    # ---- calls ----------------------------------------------------------------------------------------------
    def args_of(self, c: ast.Call, env):
        if any(isinstance(a, ast.Starred) for a in c.args) or any(k.arg is None for k in c.keywords):
            raise Undecided(f"{self.tag}: star arguments in {u(c)[:50]}")
        return [self.ev(a, env) for a in c.args], {k.arg: self.ev(k.value, env) for k in c.keywords}

    def call(self, c: ast.Call, env):
        f = c.func
        d = dotted(f) or ""
        mod = env.get("__mod__")
        # stubs (callee contracts supplied by the rule) take precedence
        for key, stub in self.stubs.items():
            if d == key or d.endswith("." + key):
                args, kw = self.args_of(c, env)
                return stub(self, args, kw, c)
        if isinstance(f, ast.Name):
            nm = f.id
            if nm in env and isinstance(env[nm], Closure):
                cl = env[nm]
                args, kw = self.args_of(c, env)
                return self.call_function(cl.mod, cl.fn, args, kw, closure_env=cl.env)
            if nm in env:
                raise Undecided(f"{self.tag}: call of a local value `{nm}`")
            target = mod.get(nm) if mod is not None else None
            if isinstance(target, ast.FunctionDef):
                args, kw = self.args_of(c, env)
                return self.call_function(mod, target, args, kw)
            return self.builtin(nm, c, env)
        if isinstance(f, ast.Attribute):
            if d.startswith("np.") or d.startswith("numpy."):
                return self.numpy(d.split(".", 1)[1], c, env)
            if d.startswith("sps.") or d.startswith("scipy.sparse."):
                return self.sparse(d.rsplit(".", 1)[1], c, env)
            if d.startswith("pp."):
                parts = d.split(".")
                rel = PP_MODULES.get(parts[-2]) if len(parts) >= 3 else None
                if rel is not None:
                    m2 = self.repo.module(rel)
                    target = m2.get(parts[-1])
                    if isinstance(target, ast.FunctionDef):
                        args, kw = self.args_of(c, env)
                        return self.call_function(m2, target, args, kw)
                raise Undecided(f"{self.tag}: call of {d} has no model")
            base = self.ev(f.value, env)
            if isinstance(base, Obj):
                m = methods(base.cls).get(f.attr)
                if m is None:
                    raise AnchorError(f"{base.mod.rel}:{base.cls.name}.{f.attr} not found")
                args, kw = self.args_of(c, env)
                if any(u(dec) == "staticmethod" for dec in m.decorator_list):
                    return self.call_function(base.mod, m, args, kw)
                return self.call_function(base.mod, m, args, kw, selfobj=base)
            return self.method(base, f.attr, c, env)
        raise Undecided(f"{self.tag}: call {u(c)[:60]}")

    def builtin(self, nm, c, env):
        args, kw = self.args_of(c, env)
        if nm == "len" and len(args) == 1:
            v = args[0]
            if isinstance(v, np.ndarray):
                return int(v.shape[0])
            if isinstance(v, (list, tuple, dict)):
                return len(v)
        if nm in ("int", "float") and len(args) == 1:
            v = args[0]
            if isinstance(v, (int, np.integer)):
                return int(v)
            if isinstance(v, sp.Integer):
                return int(v)
            if nm == "float":
                return v
        if nm == "bool" and len(args) == 1:
            return self.truth(args[0], c)
        if nm == "abs" and len(args) == 1:
            return self._abs(args[0])
        if nm == "slice" and 1 <= len(args) <= 3 and all(a is None or isinstance(a, (int, np.integer)) for a in args):
            return slice(*[None if a is None else int(a) for a in args])
        if nm == "range":
            return list(range(*[int(a) for a in args]))
        if nm == "isinstance" and len(c.args) == 2:
            v, t = args[0], u(c.args[1]).replace(" ", "")
            if t in ("np.ndarray", "numpy.ndarray"):
                return isinstance(v, np.ndarray)
            if t in ("int", "(int,np.integer)", "np.integer"):
                return isinstance(v, (int, np.integer)) and not isinstance(v, bool)
            if t in ("list", "tuple", "(list,tuple)", "(tuple,list)"):
                return isinstance(v, (list, tuple))
            raise Undecided(f"{self.tag}: isinstance test against {t}")
        if nm in ("min", "max") and args:
            seq = list(args[0]) if len(args) == 1 else list(args)
            return self._select(seq, nm == "min")
        if nm in ("list", "tuple") and len(args) == 1:
            return list(args[0]) if nm == "list" else tuple(args[0])
        raise Undecided(f"{self.tag}: call of `{nm}` has no model")

    def _select(self, seq: list, smallest: bool):
        """the minimal / maximal element of symbolic values, chosen by the witness (valid on the path)"""
        if not seq:
            raise Undecided(f"{self.tag}: min/max of an empty sequence")
        vals = [self.numeric(v) for v in seq]
        k = int(np.argmin(vals) if smallest else np.argmax(vals))
        if any(not _is_native(v) for v in seq):
            self.decisions.append((("min" if smallest else "max") + " of " + str(len(seq)), str(k)))
        return seq[k]

    def _abs(self, v):
        def one(a):
            a = sp.sympify(a)
            if a.is_number:
                return sp.Abs(a)
            return sp.Abs(a)
        if isinstance(v, np.ndarray):
            if v.dtype != object:
                return np.abs(v)
            return np.frompyfunc(one, 1, 1)(v) if v.size else v
        if isinstance(v, (int, np.integer)):
            return abs(int(v))
        return one(v)

    # ---- ndarray methods ------------------------------------------------------------------------------------
    def method(self, base, name, c, env):
        args, kw = self.args_of(c, env)
        if isinstance(base, SpMat):
            if name in ("tocsr", "tocsc", "tocoo", "copy"):
                return SpMat(base.a.copy())
            if name in ("toarray", "todense"):
                return base.a.copy()
            if name == "transpose":
                return SpMat(base.a.T)
            if name == "dot" and len(args) == 1:
                return self.binop(ast.Mult(), base, args[0], c)
            raise Undecided(f"{self.tag}: sparse method {name}")
        if isinstance(base, (list,)) and name == "append" and len(args) == 1:
            base.append(args[0])
            return None
        if not isinstance(base, np.ndarray):
            raise Undecided(f"{self.tag}: method {name} of unmodelled value in `{u(c)[:60]}`")
        try:
            if name == "reshape":
                shp = args[0] if len(args) == 1 else tuple(args)
                shp = tuple(int(s) for s in shp) if isinstance(shp, (tuple, list)) else int(shp)
                order = kw.get("order", "C")
                return base.reshape(shp, order=order)
            if name in ("ravel", "flatten"):
                order = kw.get("order", args[0] if args else "C")
                r = base.ravel(order=order)
                return r.copy() if name == "flatten" else r
            if name == "copy":
                return base.copy()
            if name == "transpose" and not args:
                return base.T
            if name == "dot" and len(args) == 1:
                return self._dot(base, args[0], c)
            if name == "astype":
                return base
            if name in ("sum", "mean", "min", "max", "argmax", "argmin", "all", "any", "nonzero"):
                return self.np_reduce(name, base, kw.get("axis", args[0] if args else None), c)
        except ValueError as ex:
            raise ShapeError(c, str(ex))
        raise Undecided(f"{self.tag}: array method {name} in `{u(c)[:60]}`")

    def np_reduce(self, name, a, axis, c):
        if axis is not None and not isinstance(axis, (int, np.integer)):
            raise Undecided(f"{self.tag}: axis of {u(c)[:50]}")
        if name == "sum":
            if a.dtype == bool:
                return a.sum(axis=axis) if axis is not None else int(a.sum())
            r = _o(a).sum(axis=axis) if a.size else (np.zeros([s for i, s in enumerate(a.shape) if i != axis], dtype=object) if axis is not None else sp.Integer(0))
            if isinstance(r, np.ndarray) and r.dtype == object and r.size:
                fl = r.ravel()
                for i in range(fl.size):
                    fl[i] = sp.sympify(fl[i])
            return r
        if name == "mean":
            n = a.shape[axis] if axis is not None else a.size
            return self.np_reduce("sum", a, axis, c) / sp.Integer(n)
        if name in ("all", "any"):
            if a.dtype != bool:
                raise Undecided(f"{self.tag}: {name} of a non-boolean array in {u(c)[:50]}")
            r = getattr(a, name)(axis=axis)
            return bool(r) if axis is None else r
        if name == "nonzero":
            return np.nonzero(a)
        if name in ("min", "max", "argmin", "argmax"):
            if a.dtype != object:
                r = getattr(a, name)(axis=axis)
                return r.item() if isinstance(r, np.generic) else r
            smallest = name in ("min", "argmin")
            want_arg = name.startswith("arg")
            if a.size == 0:
                raise ShapeError(c, f"{name} of an empty array")

            def pick(vec):
                vals = [self.numeric(v) for v in vec]
                k = int(np.argmin(vals) if smallest else np.argmax(vals))
                self.decisions.append((u(c)[:70], str(k)))
                return k if want_arg else vec[k]
            if axis is None:
                return pick(list(a.ravel()))
            moved = np.moveaxis(a, axis, -1)
            out = np.empty(moved.shape[:-1], dtype=int if want_arg else object)
            for ix in np.ndindex(*moved.shape[:-1]):
                out[ix] = pick(list(moved[ix]))
            return out
        raise Undecided(f"{self.tag}: reduction {name}")

    # ---- numpy functions ------------------------------------------------------------------------------------
    def mkarray(self, v, node):
        """np.array / np.asarray of a nested python structure"""
        if isinstance(v, np.ndarray):
            return v
        if isinstance(v, SpMat):
            raise Undecided(f"{self.tag}: array of a sparse matrix")

        def leaves(x):
            if isinstance(x, (list, tuple)):
                for t in x:
                    yield from leaves(t)
            elif isinstance(x, np.ndarray):
                yield from x.ravel().tolist()
            else:
                yield x
        lv = list(leaves(v))
        if any(isinstance(t, (Opaque, Obj, str)) or t is None for t in lv):
            raise Undecided(f"{self.tag}: array of unmodelled values in {u(node)[:50]}")

        def conv(x):
            if isinstance(x, (list, tuple)):
                return [conv(t) for t in x]
            if isinstance(x, np.ndarray):
                return x.tolist()
            return x
        nested = conv(v)
        if all(isinstance(t, (int, bool, np.integer, np.bool_)) for t in lv):
            try:
                return np.array(nested)
            except ValueError as ex:
                raise ShapeError(node, str(ex))
        try:
            a = np.array(nested, dtype=object)
        except ValueError as ex:
            raise ShapeError(node, str(ex))
        return _o(a)

    def elementwise(self, fn, v):
        v = _symnum(v)
        if isinstance(v, np.ndarray):
            return np.frompyfunc(fn, 1, 1)(v) if v.size else v
        return fn(v)

    def norm(self, v, axis=None):
        if not isinstance(v, (np.ndarray, list, tuple)):
            return self._abs(v)
        v = _o(v)
        sq = v * v
        s = sq.sum(axis=axis) if axis is not None else sq.sum()
        if isinstance(s, np.ndarray):
            return np.frompyfunc(lambda t: self.alg.sqrt(sp.sympify(t)), 1, 1)(s) if s.size else s
        return self.alg.sqrt(sp.sympify(s))

    def numpy(self, name, c, env):
        args, kw = self.args_of(c, env)
        alg = self.alg
        n = len(args)
        try:
            if name in ("array", "asarray", "asanyarray") and n >= 1:
                a = self.mkarray(args[0], c)
                if kw.get("dtype") is not None and isinstance(kw["dtype"], Opaque) is False and a.dtype != object and u(kwarg(c, "dtype")) == "float":
                    return _o(a)
                return a.copy() if name == "array" and isinstance(args[0], np.ndarray) else a
            if name in ("zeros", "empty", "ones") and n >= 1:
                shp = args[0]
                shp = tuple(int(s) for s in shp) if isinstance(shp, (tuple, list)) else (int(shp),)
                dt = kwarg(c, "dtype") if kwarg(c, "dtype") is not None else (c.args[1] if len(c.args) > 1 else None)
                if dt is not None and u(dt) in ("bool", "np.bool_"):
                    return np.zeros(shp, dtype=bool) if name != "ones" else np.ones(shp, dtype=bool)
                if dt is not None and u(dt) in ("int", "np.int64", "np.int32"):
                    return np.zeros(shp, dtype=int) if name != "ones" else np.ones(shp, dtype=int)
                out = np.empty(shp, dtype=object)
                out[...] = sp.Integer(1 if name == "ones" else 0)
                return out
            if name in ("zeros_like", "ones_like", "empty_like") and n == 1:
                a = args[0]
                if isinstance(a, np.ndarray) and a.dtype != object:
                    return np.zeros_like(a) if name != "ones_like" else np.ones_like(a)
                out = np.empty(np.shape(a), dtype=object)
                out[...] = sp.Integer(1 if name == "ones_like" else 0)
                return out
            if name in ("eye", "identity") and n == 1:
                k = int(args[0])
                return _o(np.array(sp.eye(k).tolist(), dtype=object).reshape(k, k))
            if name == "arange":
                return np.arange(*[int(a) for a in args])
            if name == "sqrt" and n == 1:
                return self.elementwise(lambda t: alg.sqrt(alg.canon(t)), args[0])
            if name in ("abs", "absolute") and n == 1:
                return self._abs(args[0])
            if name in ("sin", "cos", "arccos", "arcsin") and n == 1:
                f = {"sin": sp.sin, "cos": sp.cos, "arccos": sp.acos, "arcsin": sp.asin}[name]
                return self.elementwise(lambda t: alg.canon(f(sp.sympify(t))), args[0])
            if name == "power" and n == 2:
                return self._pow(_symnum(args[0]), _symnum(args[1]))
            if name == "square" and n == 1:
                return _symnum(args[0]) * _symnum(args[0])
            if name in ("sum", "mean", "min", "max", "amin", "amax", "argmax", "argmin", "all", "any") and n >= 1:
                a = args[0] if isinstance(args[0], np.ndarray) else self.mkarray(args[0], c)
                if isinstance(a, (bool, np.bool_)):
                    return bool(a)
                nm = {"amin": "min", "amax": "max"}.get(name, name)
                if not isinstance(a, np.ndarray):
                    if nm in ("all", "any"):
                        return self.truth(a, c)
                    return a
                return self.np_reduce(nm, a, kw.get("axis", args[1] if n > 1 else None), c)
            if name == "linalg.norm" and n >= 1:
                return self.norm(args[0], kw.get("axis", args[1] if n > 1 else None))
            if name == "linalg.matrix_power" and n == 2:
                M, k = _o(args[0]), int(args[1])
                out = _o(np.array(sp.eye(M.shape[0]).tolist(), dtype=object))
                for _ in range(k):
                    out = np.dot(out, M)
                return out
            if name == "linalg.inv" and n == 1:
                return self.inv(_o(args[0]), c)
            if name == "linalg.det" and n == 1:
                return sp.Matrix(_o(args[0]).tolist()).det(method="berkowitz")
            if name == "dot" and n == 2:
                return self._dot(args[0], args[1], c)
            if name == "outer" and n == 2:
                return np.multiply.outer(_o(args[0]).ravel(), _o(args[1]).ravel())
            if name == "tensordot" and n >= 2:
                ax = kw.get("axes", args[2] if n > 2 else 2)
                if ax == 0:
                    return np.multiply.outer(_o(args[0]), _o(args[1]))
                if ax == 1:
                    return self._dot(args[0], args[1], c)
                raise Undecided(f"{self.tag}: tensordot axes {ax}")
            if name == "cross" and n == 2:
                return self.cross(_o(args[0]), _o(args[1]), kw.get("axis", None), c)
            if name == "einsum" and n == 3 and args[0] == "ij,ij->j":
                return (_o(args[1]) * _o(args[2])).sum(axis=0)
            if name == "reshape" and n == 2:
                return args[0].reshape(args[1], order=kw.get("order", "C"))
            if name == "ravel" and n == 1:
                return args[0].ravel(order=kw.get("order", "C"))
            if name == "swapaxes" and n == 3:
                return np.swapaxes(args[0], int(args[1]), int(args[2]))
            if name == "transpose" and n == 1:
                return args[0].T
            if name in ("vstack", "hstack", "concatenate", "stack") and n >= 1:
                parts = [p if isinstance(p, np.ndarray) else self.mkarray(p, c) for p in args[0]]
                if any(p.dtype == object for p in parts):
                    parts = [_o(p) for p in parts]
                if name == "concatenate":
                    return np.concatenate(parts, axis=kw.get("axis", args[1] if n > 1 else 0))
                if name == "stack":
                    return np.stack(parts, axis=kw.get("axis", args[1] if n > 1 else 0))
                return getattr(np, name)(parts)
            if name == "tile" and n == 2:
                reps = args[1]
                reps = tuple(int(r_) for r_ in reps) if isinstance(reps, (tuple, list)) else int(reps)
                return np.tile(args[0], reps)
            if name == "roll" and n >= 2:
                return np.roll(args[0], int(args[1]), axis=kw.get("axis", args[2] if n > 2 else None))
            if name == "atleast_2d" and n == 1:
                return np.atleast_2d(args[0])
            if name in ("logical_and", "logical_or") and n == 2:
                a, b = self._boolish(args[0], c), self._boolish(args[1], c)
                return np.logical_and(a, b) if name == "logical_and" else np.logical_or(a, b)
            if name == "logical_not" and n == 1:
                r = np.logical_not(self._boolish(args[0], c))
                return bool(r) if isinstance(r, np.bool_) else r
            if name == "where" and n == 3:
                cond = self._boolish(args[0], c)
                a, b = _symnum(args[1]), _symnum(args[2])
                if isinstance(cond, bool):
                    return a if cond else b
                ca, aa, ba = np.broadcast_arrays(cond, _o(np.asarray(a, dtype=object)) if not isinstance(a, np.ndarray) else _o(a),
                                                 _o(np.asarray(b, dtype=object)) if not isinstance(b, np.ndarray) else _o(b))
                out = np.empty(ca.shape, dtype=object)
                for ix in np.ndindex(*ca.shape):
                    out[ix] = aa[ix] if ca[ix] else ba[ix]
                return out
            if name == "clip" and n == 3:
                lo, hi = _symnum(args[1]), _symnum(args[2])

                def one(x):
                    return self._select([self._select([x, lo], False), hi], True)
                return self.elementwise(one, args[0])
            if name in ("where", "nonzero", "flatnonzero") and n == 1:
                a = self._boolish(args[0], c)
                return np.flatnonzero(a) if name == "flatnonzero" else np.nonzero(a)
            if name == "diag" and n == 1:
                a = args[0]
                if isinstance(a, np.ndarray) and a.ndim == 1:
                    out = np.empty((a.size, a.size), dtype=object)
                    out[...] = sp.Integer(0)
                    for i in range(a.size):
                        out[i, i] = _symnum(a[i])
                    return out
                if isinstance(a, np.ndarray) and a.ndim == 2:
                    return np.diag(a)
            if name == "setdiff1d" and n == 2:
                return np.setdiff1d(np.asarray(args[0]), np.asarray(args[1]))
            if name in ("ma.less_equal", "less_equal", "ma.less", "less", "ma.greater_equal", "greater_equal", "ma.greater", "greater") and n == 2:
                base = name.split(".")[-1]
                fn = {"less_equal": lambda a, b: a <= b, "less": lambda a, b: a < b, "greater_equal": lambda a, b: a >= b, "greater": lambda a, b: a > b}[base]
                return self.cmp(fn, args[0], args[1], c)
            if name in ("minimum", "maximum") and n == 2:
                small = name == "minimum"
                a, b = _symnum(args[0]), _symnum(args[1])
                if isinstance(a, np.ndarray) or isinstance(b, np.ndarray):
                    return np.frompyfunc(lambda x, y: self._select([x, y], small), 2, 1)(a, b)
                return self._select([a, b], small)
            if name in ("isclose", "allclose") and n >= 2:
                atol = _symnum(kw.get("atol", sp.Rational(1, 10**8)))
                rtol = _symnum(kw.get("rtol", sp.Rational(1, 10**5)))
                a, b = _symnum(args[0]), _symnum(args[1])
                r = self.cmp(lambda x, y: x <= y, self._abs(a - b), atol + rtol * self._abs(b), c)
                if name == "allclose":
                    return bool(np.all(r))
                return r
        except ValueError as ex:
            raise ShapeError(c, str(ex))
        raise Undecided(f"{self.tag}: numpy call {u(c)[:70]} has no model")

    def _boolish(self, v, c):
        if isinstance(v, (bool, np.bool_)):
            return bool(v)
        if isinstance(v, np.ndarray) and v.dtype == bool:
            return v
        raise Undecided(f"{self.tag}: logical operation on a non-boolean value in {u(c)[:50]}")

    def cross(self, a, b, axis, c):
        if axis is None:
            axis = -1
        a2, b2 = np.moveaxis(a, axis, 0) if a.ndim > 1 else a, np.moveaxis(b, axis, 0) if b.ndim > 1 else b
        if a2.shape[0] != 3 or b2.shape[0] != 3:
            raise ShapeError(c, "cross product of non 3-vectors")
        r = np.array([a2[1] * b2[2] - a2[2] * b2[1], a2[2] * b2[0] - a2[0] * b2[2], a2[0] * b2[1] - a2[1] * b2[0]], dtype=object)
        return np.moveaxis(r, 0, axis) if r.ndim > 1 else r

    def inv(self, M, c):
        n_ = M.shape[0]
        if M.shape != (n_, n_):
            raise ShapeError(c, "inverse of a non-square matrix")
        # an orthonormal matrix is inverted by transposition (decided, not assumed)
        G = np.dot(M.T, M)
        try:
            if all(self.alg.is_zero(sp.sympify(G[i, j]) - (1 if i == j else 0), "gram") for i in range(n_) for j in range(n_)):
                return M.T.copy()
        except Undecided:
            pass
        A = sp.Matrix(M.tolist())
        det = A.det(method="berkowitz")
        if self.alg.num(det) == 0:
            raise Undecided(f"{self.tag}: singular matrix inverted in {u(c)[:40]}")
        adj = A.adjugate()
        return _o(np.array((adj / det).tolist(), dtype=object).reshape(n_, n_))

    def sparse(self, name, c, env):
        args, kw = self.args_of(c, env)
        if name in ("csc_matrix", "csr_matrix", "coo_matrix") and args:
            a0 = args[0]
            if isinstance(a0, tuple) and len(a0) == 2 and isinstance(a0[1], tuple):
                data, (rows, cols) = a0
                shp = kw.get("shape", args[1] if len(args) > 1 else None)
                if shp is None:
                    raise Undecided(f"{self.tag}: sparse constructor without shape")
                out = np.empty(tuple(int(s) for s in shp), dtype=object)
                out[...] = sp.Integer(0)
                data = np.broadcast_to(_o(np.asarray(data)), np.shape(rows))
                for dv, r_, c_ in zip(data, np.asarray(rows), np.asarray(cols)):
                    out[int(r_), int(c_)] = out[int(r_), int(c_)] + dv
                return SpMat(out)
            if isinstance(a0, np.ndarray) and a0.ndim == 2:
                return SpMat(_o(a0).copy())
        raise Undecided(f"{self.tag}: sparse call {u(c)[:60]} has no model")


class ShapeError(Exception):
    """numpy itself rejects the operation on arrays of the faithful shapes (the code raises for every input of this shape)"""

    def __init__(self, node, msg: str):
        super().__init__(f"{u(node)[:70]}: {msg}")
        self.node = node


PP_MODULES = {"map_geometry": MG, "distances": "src/porepy/geometry/distances.py"}


class Bag:
    """a plain attribute bag standing for an object the code only reads attributes from (a grid)"""

    def __init__(self, **attrs):
        self.attrs = dict(attrs)
        self.cls = None
        self.mod = None


_attribute_orig = Interp.attribute


def _attribute(self, e, env):
    base = None
    if isinstance(e.value, ast.Name) and isinstance(env.get(e.value.id), Bag):
        base = env[e.value.id]
        if e.attr in base.attrs:
            return base.attrs[e.attr]
        raise Undecided(f"{self.tag}: attribute {u(e)} of the grid stand-in has no value")
    return _attribute_orig(self, e, env)


Interp.attribute = _attribute

# ======================================================================================================
# recording with memoisation (keyed by the AST of the functions a group interprets)
# ======================================================================================================

META = {
    "explanation": __doc__,
    "rule_text": "one obligation per (function, scenario, identity)",
    "trusted_base": ["python ast", "sa.core", "sympy polynomial arithmetic (together/expand/factor_list/Poly) as term normaliser",
                     "numpy broadcasting / indexing on object arrays of sympy terms (the interpreter executes the extracted statements with numpy's own "
                     "array semantics)", "models of the numpy calls the anchors use (array, zeros, eye, dot, cross, tensordot, linalg.norm/inv/matrix_power, "
                     "argmax, allclose/isclose, hstack/vstack, reshape/ravel, setdiff1d, logical_*, sin/cos/arccos, sqrt)",
                     "contract of csc_/csr_matrix_from_dense_blocks: block k is data[k b^2:(k+1) b^2] in column-major (csc) / row-major (csr) order",
                     "scipy sparse `*` is the matrix product; csc_matrix((data, (rows, cols)), shape) scatters data"],
    "assumptions": ["identities are proven per scenario path (listed in the evidence with the witness-decided predicates); inputs taking other paths "
                    "are not examined", "generic position: square roots of sums of squares are positive (no zero vectors)",
                    "`reference` arguments are unit vectors (the code does not normalise them)",
                    "compute_normal / compute_tangent are summarised by their R4 contract (unit vector) when called from the matrix builders"],
    "accepted_forms": ["any straight-line / branching / looping formulation the interpreter can execute: renamed locals, temporaries, private helpers "
                       "(interpreted with arguments bound, keyword or positional, depth <= 8), early returns, swapped arms, loops vs comprehensions, "
                       "in-place updates vs rebinding, closed forms instead of helper calls", "an idiom outside the numpy subset is Undecided (exit 2)"],
    "technique": "abstract interpretation of the extracted array formulas over symbolic vectors (radical tower + polynomial reduction as term "
                 "normaliser), path selection by scenario witnesses; black-box identities on the returned matrices",
    "level_note": "Decides the algebraic identities (orthogonality, determinant, image of the normal, idempotence, block layout) for symbolic input on the "
                  "listed paths; nothing about floating point, tolerances or degenerate input.",
}
MIN_INSTANCES = {"R1": 5, "R2": 24, "R3": 9, "R4": 15, "R5": 72, "R6": 12, "R7": 22}

_CACHE: dict = {}


class Rec:
    """collects check records of one group; replayed into the Ctx (and memoised by the AST of the interpreted functions)"""

    def __init__(self):
        self.items: list = []
        self.samples: list = []
        self.undecided: list = []

    def check(self, rule, ok, rel, qual, message, construct, facts=None):
        self.items.append((rule, bool(ok), rel, qual, message, construct, facts))
        return bool(ok)


def _fn_closure(repo, rel: str, qual: str, seen: Optional[set] = None) -> set:
    """(rel, qualname) of the function and of the same-module functions / methods / pp.<module> functions it may call (transitively)"""
    seen = seen if seen is not None else set()
    if (rel, qual) in seen:
        return seen
    mod = repo.module(rel)
    node = mod.get(qual)
    if node is None:
        raise AnchorError(f"{rel}:{qual} not found")
    seen.add((rel, qual))
    cls_prefix = qual.rsplit(".", 1)[0] + "." if "." in qual else ""
    for c in ast.walk(node):
        if not isinstance(c, ast.Call):
            continue
        if isinstance(c.func, ast.Name) and isinstance(mod.get(c.func.id), ast.FunctionDef):
            _fn_closure(repo, rel, c.func.id, seen)
        elif isinstance(c.func, ast.Attribute):
            d = dotted(c.func) or ""
            if d.startswith("self.") and d.count(".") == 1 and cls_prefix and mod.get(cls_prefix + c.func.attr) is not None:
                _fn_closure(repo, rel, cls_prefix + c.func.attr, seen)
            elif d.startswith("pp."):
                parts = d.split(".")
                rel2 = PP_MODULES.get(parts[-2]) if len(parts) >= 3 else None
                if rel2 is not None and repo.exists(rel2) and repo.module(rel2).get(parts[-1]) is not None:
                    _fn_closure(repo, rel2, parts[-1], seen)
    return seen


def _group(ctx: Ctx, name: str, roots: list, body: Callable[[Rec], None]) -> None:
    deps: set = set()
    for rel, qual in roots:
        _fn_closure(ctx.repo, rel, qual, deps)
    consts = tuple(sorted((rel, "".join(ast.dump(st) for st in ctx.repo.module(rel).tree.body if isinstance(st, (ast.Assign, ast.AnnAssign)))) for rel in {r_ for r_, _ in deps}))
    key = (name, tuple(sorted((rel, q, ast.dump(ctx.repo.module(rel).need(q))) for rel, q in deps)), consts)
    rec = _CACHE.get(key)
    if rec is None:
        rec = Rec()
        try:
            body(rec)
            # a concrete refutation is a verdict even if other identities of the group could not be decided; without one, undecided is undecided
            if rec.undecided and all(it[1] for it in rec.items):
                rec = rec.undecided[0]
        except (Undecided, AnchorError) as ex:
            rec = ex if not (isinstance(rec, Rec) and any(not it[1] for it in rec.items)) else rec
        if len(_CACHE) > 400:
            _CACHE.clear()
        _CACHE[key] = rec
    if isinstance(rec, Exception):
        raise rec
    for rule, ok, rel, qual, msg, cons, facts in rec.items:
        mod = ctx.repo.module(rel)
        ctx.check(rule, ok, mod, qual, mod.get(qual), msg, construct=cons, facts=facts)
    for s in rec.samples:
        ctx.sample(s)


# ======================================================================================================
# helpers for the identities
# ======================================================================================================

def _S(name: str):
    return sp.Symbol(name, real=True)


def _vec(prefix: str, n: int = 3) -> np.ndarray:
    out = np.empty(n, dtype=object)
    for i in range(n):
        out[i] = _S(f"{prefix}{i + 1}")
    return out


def _Q(x) -> sp.Rational:
    return sp.Rational(x) if not isinstance(x, tuple) else sp.Rational(x[0], x[1])


def _wit(pairs) -> dict:
    return {s: _Q(v) for s, v in pairs}


def _all_zero(alg: Alg, terms, what: str):
    """(True, None) all proven zero | (False, residual text) one refuted at the witness | raises Undecided"""
    for t in terms:
        t = sp.sympify(t)
        if t.has(sp.nan) or t.has(sp.zoo) or t.has(sp.oo):
            return False, f"{what}: not a finite term ({str(t)[:40]})"
        if not alg.is_zero(t, what):
            return False, f"{what}: residual {sp.N(alg.num(t), 8)} at the witness"
    return True, None


def _mat_terms(A, B) -> list:
    A, B = _o(np.asarray(A)), _o(np.asarray(B))
    if A.shape != B.shape:
        return None
    return [sp.sympify(x) for x in (A - B).ravel()]


def _eye(n: int) -> np.ndarray:
    return _o(np.array(sp.eye(n).tolist(), dtype=object).reshape(n, n))


def _det(M) -> sp.Expr:
    return sp.Matrix(_o(M).tolist()).det(method="berkowitz")


def _witness_text(alg: Alg, syms) -> str:
    return ", ".join(f"{s}={alg.numv[s]}" for s in syms if s in alg.numv)


class Scen:
    """one scenario: an Alg with its witness, an interpreter, and the outcome of calling a function"""

    def __init__(self, repo, witness: dict, stubs: Optional[dict] = None, tag: str = "C32"):
        self.alg = Alg(witness, tag)
        self.it = Interp(self.alg, repo, stubs, tag)
        self.repo = repo

    def call(self, rel: str, qual: str, args: list, kwargs: Optional[dict] = None, selfobj=None):
        mod = self.repo.module(rel)
        fn = mod.func(qual)
        return self.it.call_function(mod, fn, args, dict(kwargs or {}), selfobj=selfobj)


def _identity(rec: Rec, rule: str, sc: Scen, rel: str, qual: str, label: str, clause: str, terms, facts=None) -> bool:
    if terms is None:
        return rec.check(rule, False, rel, qual, f"{clause}: the result has the wrong shape [{label}]", f"{qual}: {clause} [{label}]", facts)
    try:
        ok, why = _all_zero(sc.alg, terms, clause)
    except Undecided as ex:
        rec.undecided.append(Undecided(f"{qual} [{label}]: {ex}"))
        return True
    return rec.check(rule, ok, rel, qual, f"{clause} [{label}]" + ("" if ok else f" FAILS - {why}; witness: {_witness_text(sc.alg, sorted(sc.alg.numv, key=str)[:12])}"),
                     f"{qual}: {clause} [{label}]", facts)


def _run(rec: Rec, rule: str, rel: str, qual: str, label: str, thunk):
    """run a scenario; a `raise` reached with the (partly artificial) scenario input and numpy shape rejections are Undecided, never findings"""
    try:
        return True, thunk()
    except Raised as ex:
        rec.undecided.append(Undecided(f"C32 {qual} [{label}]: the code raises on the scenario input ({ex})"))
    except ShapeError as ex:
        rec.undecided.append(Undecided(f"C32 {qual} [{label}]: numpy rejects the shapes: {ex}"))
    except Undecided as ex:
        rec.undecided.append(Undecided(f"C32 {qual} [{label}]: {ex}"))
    return False, None


# ======================================================================================================
# R1  rotation_matrix
# ======================================================================================================

def _r1(repo, rec: Rec) -> None:
    q = "rotation_matrix"
    a = _S("a")
    v = _vec("v")
    sc = Scen(repo, _wit([(a, (7, 10)), (v[0], (2, 7)), (v[1], (-3, 5)), (v[2], (5, 3))]))
    ok, R = _run(rec, "R1", MG, q, "generic", lambda: sc.call(MG, q, [a, v.copy()]))
    if ok:
        if not (isinstance(R, np.ndarray) and R.shape == (3, 3)):
            raise Undecided(f"C32 {q}: the result is not a 3x3 array")
        alg = sc.alg
        nv = alg.sqrt(sum(x * x for x in v))
        un = np.array([x / nv for x in v], dtype=object)
        c, s = alg.angle(a)
        _identity(rec, "R1", sc, MG, q, "symbolic angle and axis", "R R^T = I", _mat_terms(np.dot(R, R.T), _eye(3)))
        _identity(rec, "R1", sc, MG, q, "symbolic angle and axis", "det R = +1", [_det(R) - 1])
        _identity(rec, "R1", sc, MG, q, "symbolic angle and axis", "R v = v (the axis is fixed)", _mat_terms(np.dot(R, v), v))
        K = np.array([[0, -un[2], un[1]], [un[2], 0, -un[0]], [-un[1], un[0], 0]], dtype=object)
        rod = c * _eye(3) + s * _o(K) + (1 - c) * np.multiply.outer(un, un)
        _identity(rec, "R1", sc, MG, q, "symbolic angle and axis", "R is the right-handed rotation by the angle a about v/|v| (Rodrigues form)", _mat_terms(R, rod),
                  facts={"R[0,1]": str(R[0, 1])[:200]})
        rec.samples.append({"rule": "R1", "function": q, "decisions": sc.it.decisions[:4], "relations": {str(k): str(v_) for k, v_ in alg.rel.items()}})
    # the degenerate return (zero axis): still an orthogonal matrix
    z = np.array([sp.Integer(0)] * 3, dtype=object)
    sc0 = Scen(repo, _wit([(a, (7, 10))]))
    ok, R0 = _run(rec, "R1", MG, q, "zero axis", lambda: sc0.call(MG, q, [a, z]))
    if ok:
        _identity(rec, "R1", sc0, MG, q, "zero axis", "R R^T = I", _mat_terms(np.dot(_o(R0), _o(R0).T), _eye(3)) if isinstance(R0, np.ndarray) and R0.shape == (3, 3) else None)


# ======================================================================================================
# R2  project_plane_matrix / project_line_matrix
# ======================================================================================================

def _unit_stub(sc: Scen, prefix: str, w3):
    """a symbolic unit vector (n1, n2, n3) with n3**2 == 1 - n1**2 - n2**2; witness (2/7, 3/7, w3 = +-6/7)"""
    n = _vec(prefix)
    sc.alg.numv[n[0]] = sp.Rational(2, 7)
    sc.alg.numv[n[1]] = sp.Rational(3, 7)
    sc.alg.constrain(n[2], 1 - n[0] ** 2 - n[1] ** 2, _Q(w3))
    return n


def _r2(repo, rec: Rec) -> None:
    for q, dirname, kwname, callee in (("project_plane_matrix", "normal", "normal", "compute_normal"), ("project_line_matrix", "tangent", "tangent", "compute_tangent")):
        empty = np.empty((3, 0), dtype=object)

        def call(sc, **kw):
            if q == "project_plane_matrix":
                kw.setdefault("check_planar", False)
            return sc.call(MG, q, [empty], kw)
        ez = _o(np.array([0, 0, 1]))
        # (a) symbolic non-unit direction, default reference
        m = _vec("m")
        sc = Scen(repo, _wit([(m[0], (2, 7)), (m[1], (-3, 5)), (m[2], (5, 3))]))
        ok, R = _run(rec, "R2", MG, q, "symbolic direction, default reference", lambda: call(sc, **{kwname: m.copy()}))
        if ok:
            if not (isinstance(R, np.ndarray) and R.shape == (3, 3)):
                raise Undecided(f"C32 {q}: the result is not a 3x3 array")
            nv = sc.alg.sqrt(sum(x * x for x in m))
            un = np.array([x / nv for x in m], dtype=object)
            lab = f"symbolic non-unit {dirname}, default reference"
            _identity(rec, "R2", sc, MG, q, lab, "R R^T = I", _mat_terms(np.dot(R, R.T), _eye(3)))
            _identity(rec, "R2", sc, MG, q, lab, "det R = +1", [_det(R) - 1])
            _identity(rec, "R2", sc, MG, q, lab, f"R maps the unit {dirname} to the reference axis (0, 0, 1)", _mat_terms(np.dot(R, un), ez))
            rec.samples.append({"rule": "R2", "function": q, "scenario": lab, "decisions": sc.it.decisions[:4]})
        # (b) symbolic direction, symbolic unit reference
        m = _vec("m")
        sc = Scen(repo, _wit([(m[0], (2, 7)), (m[1], (-3, 5)), (m[2], (5, 3))]))
        r = _unit_stub(sc, "r", (6, 7))
        ok, R = _run(rec, "R2", MG, q, "symbolic reference", lambda: call(sc, reference=r.copy(), **{kwname: m.copy()}))
        if ok:
            nv = sc.alg.sqrt(sum(x * x for x in m))
            un = np.array([x / nv for x in m], dtype=object)
            _identity(rec, "R2", sc, MG, q, f"symbolic {dirname}, symbolic unit reference", f"R maps the unit {dirname} to the reference", _mat_terms(np.dot(R, un), r))
        # (c) the callers' references e_x, e_y
        for nm, ref in (("e_x", [1, 0, 0]), ("e_y", [0, 1, 0])):
            m = _vec("m")
            sc = Scen(repo, _wit([(m[0], (2, 7)), (m[1], (-3, 5)), (m[2], (5, 3))]))
            ok, R = _run(rec, "R2", MG, q, f"reference {nm}", lambda: call(sc, reference=list(ref), **{kwname: m.copy()}))
            if ok:
                nv = sc.alg.sqrt(sum(x * x for x in m))
                un = np.array([x / nv for x in m], dtype=object)
                _identity(rec, "R2", sc, MG, q, f"symbolic {dirname}, reference {nm} given as a list", f"R maps the unit {dirname} to the reference", _mat_terms(np.dot(R, un), _o(np.array(ref))))
        # (c2) symbolic direction whose witness is NEARLY parallel / anti-parallel to the default reference (angle about 2e-3): the map must still be exact
        for nm, w3 in (("nearly parallel", 1), ("nearly anti-parallel", -1)):
            m = _vec("m")
            sc = Scen(repo, _wit([(m[0], (1, 1000)), (m[1], (-2, 1000)), (m[2], w3)]))
            ok, R = _run(rec, "R2", MG, q, nm, lambda: call(sc, **{kwname: m.copy()}))
            if ok:
                nv = sc.alg.sqrt(sum(x * x for x in m))
                un = np.array([x / nv for x in m], dtype=object)
                _identity(rec, "R2", sc, MG, q, f"symbolic {dirname} {nm} to the default reference (angle 2e-3 at the witness)", f"R maps the unit {dirname} to the reference axis (0, 0, 1)",
                          _mat_terms(np.dot(R, un), ez))
        # (d) direction parallel / anti-parallel to the reference: orthogonal, and the direction stays on the reference AXIS (sign not decided)
        for nm, w in (("parallel", 3), ("anti-parallel", -3)):
            t = _S("t")
            sc = Scen(repo, _wit([(t, w)]))
            d0 = np.array([sp.Integer(0), sp.Integer(0), t], dtype=object)
            ok, R = _run(rec, "R2", MG, q, nm, lambda: call(sc, **{kwname: d0.copy()}))
            if ok:
                un = np.array([0, 0, sp.sign(w)], dtype=object)
                img = np.dot(_o(R), _o(un))
                _identity(rec, "R2", sc, MG, q, f"{dirname} {nm} to the default reference", "R R^T = I", _mat_terms(np.dot(_o(R), _o(R).T), _eye(3)))
                _identity(rec, "R2", sc, MG, q, f"{dirname} {nm} to the default reference", f"R maps the {dirname} onto the reference axis (up to sign)",
                          [img[0], img[1], sp.sympify(img[2]) ** 2 - 1])
        # (e) direction computed from the points: the callee is summarised by its contract (a unit vector, R4)
        sc = Scen(repo, {})
        holder = {}

        def stub(it, args, kw, node, sc=sc, holder=holder):
            holder["n"] = _unit_stub(sc, "n", (-6, 7))
            return holder["n"].copy()
        sc.it.stubs[callee] = stub
        pts = np.empty((3, 3), dtype=object)
        for i in range(3):
            for j in range(3):
                pts[i, j] = _S(f"p{i}{j}")
        kw = {} if q == "project_line_matrix" else {"check_planar": False}
        ok, R = _run(rec, "R2", MG, q, "direction from points", lambda: sc.call(MG, q, [pts], kw))
        if ok:
            if "n" not in holder:
                raise Undecided(f"C32 {q}: with {kwname}=None the direction is not obtained from {callee}")
            _identity(rec, "R2", sc, MG, q, f"{dirname} computed by {callee} (unit vector by R4), default reference", f"R maps the computed {dirname} to the reference axis (0, 0, 1)",
                      _mat_terms(np.dot(R, holder["n"]), ez))


# ======================================================================================================
# R3  normal_matrix / tangent_matrix
# ======================================================================================================

def _r3(repo, rec: Rec) -> None:
    m = _vec("m")
    wit = _wit([(m[0], (2, 7)), (m[1], (-3, 5)), (m[2], (5, 3))])
    sc = Scen(repo, wit)
    q = "normal_matrix"
    ok, N = _run(rec, "R3", MG, q, "symbolic normal", lambda: sc.call(MG, q, [], {"normal": m.copy()}))
    lab = "symbolic NON-unit normal"
    if ok:
        if not (isinstance(N, np.ndarray) and N.shape == (3, 3)):
            raise Undecided(f"C32 {q}: the result is not a 3x3 array")
        _identity(rec, "R3", sc, MG, q, lab, "N N = N (projection)", _mat_terms(np.dot(N, N), N))
        _identity(rec, "R3", sc, MG, q, lab, "N^T = N", _mat_terms(N.T, N))
        _identity(rec, "R3", sc, MG, q, lab, "N n = n", _mat_terms(np.dot(N, m), m))
    q2 = "tangent_matrix"
    sc2 = Scen(repo, wit)
    ok2, T = _run(rec, "R3", MG, q2, "symbolic normal", lambda: sc2.call(MG, q2, [], {"normal": m.copy()}))
    if ok2:
        if not (isinstance(T, np.ndarray) and T.shape == (3, 3)):
            raise Undecided(f"C32 {q2}: the result is not a 3x3 array")
        _identity(rec, "R3", sc2, MG, q2, lab, "T T = T (projection)", _mat_terms(np.dot(T, T), T))
        _identity(rec, "R3", sc2, MG, q2, lab, "T n = 0", _mat_terms(np.dot(T, m), np.array([0, 0, 0])))
        _identity(rec, "R3", sc2, MG, q2, lab, "T^T = T", _mat_terms(T.T, T))
        if ok:
            # same symbols, same radical (|m|): compare through the first scenario's algebra after re-evaluating T there
            sc3 = Scen(repo, wit)
            N3 = sc3.call(MG, q, [], {"normal": m.copy()})
            T3 = sc3.call(MG, q2, [], {"normal": m.copy()})
            _identity(rec, "R3", sc3, MG, q2, lab, "N + T = I", _mat_terms(_o(N3) + _o(T3), _eye(3)))
    # normal taken from the points: callee summarised by its contract
    for qq in (q, q2):
        sc4 = Scen(repo, {})
        holder = {}

        def stub(it, args, kw, node, sc4=sc4, holder=holder):
            holder["n"] = _unit_stub(sc4, "n", (6, 7))
            return holder["n"].copy()
        sc4.it.stubs["compute_normal"] = stub
        pts = np.empty((3, 3), dtype=object)
        for i in range(3):
            for j in range(3):
                pts[i, j] = _S(f"p{i}{j}")
        okp, M = _run(rec, "R3", MG, qq, "normal from points", lambda: sc4.call(MG, qq, [pts], {}))
        if okp:
            if "n" not in holder:
                raise Undecided(f"C32 {qq}: with normal=None the normal is not obtained from compute_normal")
            n = holder["n"]
            want = n if qq == q else np.array([0, 0, 0])
            _identity(rec, "R3", sc4, MG, qq, "normal computed by compute_normal (unit vector by R4)", "M n = n" if qq == q else "M n = 0", _mat_terms(np.dot(_o(M), n), want))


# ======================================================================================================
# R4  compute_normal / compute_tangent
# ======================================================================================================

def _points(k: int) -> np.ndarray:
    P = np.empty((3, k), dtype=object)
    for i in range(3):
        for j in range(k):
            P[i, j] = _S(f"p{j}{'xyz'[i]}")
    return P


def _r4(repo, rec: Rec) -> None:
    q = "compute_normal"
    P = _points(3)
    Q = sp.Rational
    a_, b_, c_ = (Q(5), Q(-2), Q(3)), (Q(1, 2), Q(3, 4), Q(-1, 3)), (Q(-2, 3), Q(1, 5), Q(4, 7))
    wsets = {"first point farthest from the centroid": [a_, b_, c_],
             "second point farthest": [b_, a_, c_],
             "third point farthest": [b_, c_, (Q(-4), Q(3), Q(7, 2))]}
    seen_choices = set()
    for lab, pts in wsets.items():
        sc = Scen(repo, {P[i, j]: sp.Rational(pts[j][i]) for i in range(3) for j in range(3)})
        ok, n = _run(rec, "R4", MG, q, lab, lambda: sc.call(MG, q, [P.copy()]))
        if not ok:
            continue
        if not (isinstance(n, np.ndarray) and n.shape == (3,)):
            raise Undecided(f"C32 {q}: the result is not a 3-vector")
        seen_choices.add(tuple(d_[1] for d_ in sc.it.decisions if "arg" in d_[0]))
        _identity(rec, "R4", sc, MG, q, lab, "the returned normal has unit length", [sum(sp.sympify(x) ** 2 for x in n) - 1])
        for j in (1, 2):
            _identity(rec, "R4", sc, MG, q, lab, f"the returned normal is orthogonal to p{j} - p0", [sum(sp.sympify(n[i]) * (P[i, j] - P[i, 0]) for i in range(3))])
        rec.samples.append({"rule": "R4", "function": q, "scenario": lab, "decisions": sc.it.decisions[:4]})
    # collinear points must be rejected (otherwise 0/0 is returned)
    p0, d = _vec("a"), _vec("d")
    C = np.empty((3, 3), dtype=object)
    for i in range(3):
        C[i, 0], C[i, 1], C[i, 2] = p0[i], p0[i] + d[i], p0[i] + 3 * d[i]
    sc = Scen(repo, _wit([(p0[0], 1), (p0[1], 2), (p0[2], -1), (d[0], 2), (d[1], (1, 3)), (d[2], 5)]))
    try:
        val = sc.call(MG, q, [C])
        rec.check("R4", False, MG, q, "three collinear symbolic points (p, p + d, p + 3d) are not rejected: the cross product vanishes identically and the "
                  f"function returns {str(val)[:60]} (0/0)", f"{q}: collinear points raise")
    except Raised:
        rec.check("R4", True, MG, q, "collinear symbolic points are rejected by a raise", f"{q}: collinear points raise")
    except ShapeError as ex:
        raise Undecided(f"C32 {q} [collinear]: {ex}")
    # fewer than three points
    sc = Scen(repo, {})
    try:
        sc.call(MG, q, [_points(2)])
        rec.check("R4", False, MG, q, "two points are accepted", f"{q}: fewer than three points raise")
    except Raised:
        rec.check("R4", True, MG, q, "fewer than three points are rejected", f"{q}: fewer than three points raise")
    except (ShapeError, Undecided):
        rec.check("R4", True, MG, q, "fewer than three points cannot be processed", f"{q}: fewer than three points raise")

    q = "compute_tangent"
    p0, d = _vec("a"), _vec("d")
    al, be = _S("alpha"), _S("beta")
    for lab, w in (("last point farthest from the mean", [(al, 1), (be, 4)]), ("first point farthest", [(al, 1), (be, (3, 2))]), ("middle point farthest", [(al, -5), (be, 1)])):
        C = np.empty((3, 3), dtype=object)
        for i in range(3):
            C[i, 0], C[i, 1], C[i, 2] = p0[i], p0[i] + al * d[i], p0[i] + be * d[i]
        sc = Scen(repo, _wit([(p0[0], 1), (p0[1], 2), (p0[2], -1), (d[0], 2), (d[1], (1, 3)), (d[2], 5)] + w))
        ok, t = _run(rec, "R4", MG, q, lab, lambda: sc.call(MG, q, [C]))
        if not ok:
            continue
        if not (isinstance(t, np.ndarray) and t.shape == (3,)):
            raise Undecided(f"C32 {q}: the result is not a 3-vector")
        _identity(rec, "R4", sc, MG, q, lab, "the returned tangent has unit length", [sum(sp.sympify(x) ** 2 for x in t) - 1])
        cr = [t[1] * d[2] - t[2] * d[1], t[2] * d[0] - t[0] * d[2], t[0] * d[1] - t[1] * d[0]]
        _identity(rec, "R4", sc, MG, q, lab, "the returned tangent is parallel to the line through the points", cr)


# ======================================================================================================
# R5 / R6  TangentialNormalProjection
# ======================================================================================================

def _dense_blocks_stub(order: str):
    def stub(it, args, kw, node):
        names = ["data", "block_size", "num_blocks"]
        b = dict(zip(names, args))
        b.update(kw)
        data, bs, nb = b["data"], int(b["block_size"]), int(b["num_blocks"])
        data = _o(np.asarray(data))
        if data.ndim != 1 or data.size != bs * bs * nb:
            raise Raised(node)
        out = np.empty((bs * nb, bs * nb), dtype=object)
        out[...] = sp.Integer(0)
        for k in range(nb):
            out[k * bs:(k + 1) * bs, k * bs:(k + 1) * bs] = data[k * bs * bs:(k + 1) * bs * bs].reshape((bs, bs), order=order)
        return SpMat(out)
    return stub


TNP_STUBS = {"csc_matrix_from_dense_blocks": _dense_blocks_stub("F"), "csr_matrix_from_dense_blocks": _dense_blocks_stub("C")}
CLS = "TangentialNormalProjection"


def _tnp_obj(repo, sc: Scen, normals: np.ndarray):
    mod = repo.module(TNP)
    cls = mod.cls(CLS)
    init = methods(cls).get("__init__")
    if init is None:
        raise AnchorError(f"{TNP}:{CLS}.__init__ not found")
    ob = Obj(cls, mod)
    sc.it.call_function(mod, init, [normals], {}, selfobj=ob)
    return ob


def _find_projection(ob: Obj, dim: int, nv: int):
    """the (dim, dim, nv) array of projection blocks and the (dim, nv) unit normals stored on the object"""
    proj = [k for k, v in ob.attrs.items() if isinstance(v, np.ndarray) and v.shape == (dim, dim, nv)]
    nrm = [k for k, v in ob.attrs.items() if isinstance(v, np.ndarray) and v.shape == (dim, nv)]
    if "_projection" in proj:
        proj = ["_projection"]
    if "normals" in nrm:
        nrm = ["normals"]
    if len(proj) != 1:
        raise Undecided(f"C32 {CLS}: expected one attribute of shape (dim, dim, num_vecs), found {proj}")
    return ob.attrs[proj[0]], (ob.attrs[nrm[0]] if len(nrm) == 1 else None)


def _r5(repo, rec: Rec) -> None:
    q = f"{CLS}.__init__"
    cases = []
    m1, m2, m3, s = _S("m1"), _S("m2"), _S("m3"), _S("s")
    Z = sp.Integer(0)
    for lab, w in (("n2 < 0, n1 > 0", (3, -2)), ("n2 < 0, n1 < 0", (-3, -2)), ("n2 > 0, n1 > 0", (3, 2)), ("n2 > 0, n1 < 0", (-1, 4))):
        cases.append((2, lab, [m1, m2], {m1: w[0], m2: w[1]}))
    for lab, w in (("n2 == 0, n1 > 0", 2), ("n2 == 0, n1 < 0", -2)):
        cases.append((2, lab, [s, Z], {s: w}))
    for lab, w in (("|n1| dominant, n1 > 0", (5, -1, 2)), ("|n1| dominant, n1 < 0", (-5, 1, 2)), ("|n2| dominant, n2 < 0", (1, -4, 2)), ("|n2| dominant, n2 > 0", (-1, 4, -2)),
                   ("|n3| dominant, n3 < 0", (2, 1, -6)), ("|n3| dominant, n3 > 0", (1, -2, 6))):
        cases.append((3, lab, [m1, m2, m3], {m1: w[0], m2: w[1], m3: w[2]}))
    for ax in range(3):
        for sg in (2, -2):
            comp = [Z, Z, Z]
            comp[ax] = s
            cases.append((3, f"normal aligned with {'+' if sg > 0 else '-'}e_{'xyz'[ax]}", comp, {s: sg}))
    for ax in range(3):
        w = [sp.Rational(1, 10 ** 5), sp.Rational(-2, 10 ** 5), sp.Rational(3, 10 ** 5)]
        w[ax] = sp.Integer(1) if ax != 1 else sp.Integer(-1)
        cases.append((3, f"normal NEARLY aligned with e_{'xyz'[ax]} (other components about 1e-5 at the witness)", [m1, m2, m3], {m1: w[0], m2: w[1], m3: w[2]}))
    for dim, lab, comp, w in cases:
        lab = f"{dim}-d, {lab}"
        normals = np.array(comp, dtype=object).reshape(dim, 1)
        sc = Scen(repo, {k: sp.Rational(v) for k, v in w.items()}, TNP_STUBS)
        ok, ob = _run(rec, "R5", TNP, q, lab, lambda: _tnp_obj(repo, sc, normals.copy()))
        if not ok:
            continue
        Pall, stored = _find_projection(ob, dim, 1)
        Pm = _o(Pall[:, :, 0])
        nv = sc.alg.sqrt(sum(sp.sympify(x) ** 2 for x in comp))
        un = np.array([sp.sympify(x) / nv for x in comp], dtype=object)
        _identity(rec, "R5", sc, TNP, q, lab, "the projection block is orthogonal (P P^T = I)", _mat_terms(np.dot(Pm, Pm.T), _eye(dim)))
        e_last = np.array([0] * (dim - 1) + [1])
        _identity(rec, "R5", sc, TNP, q, lab, "the projection block maps the unit normal to the LAST local axis", _mat_terms(np.dot(Pm, un), e_last))
        if dim == 3:
            _identity(rec, "R5", sc, TNP, q, lab, "det P = +1 (right-handed local basis)", [_det(Pm) - 1])
        if stored is not None:
            _identity(rec, "R5", sc, TNP, q, lab, "the stored normals are the unit normals", _mat_terms(stored[:, 0], un))
        rec.samples.append({"rule": "R5", "scenario": lab, "decisions": sc.it.decisions[:6]})


def _r6(repo, rec: Rec) -> None:
    mod = repo.module(TNP)
    cls = mod.cls(CLS)
    for dim, wit in ((3, {"m1": 5, "m2": -1, "m3": 2, "q1": 1, "q2": -4, "q3": 2}), (2, {"m1": 3, "m2": -2, "q1": -1, "q2": 4})):
        m, qv = _vec("m", dim), _vec("q", dim)
        normals = np.empty((dim, 2), dtype=object)
        normals[:, 0], normals[:, 1] = m, qv
        sc = Scen(repo, {_S(k): sp.Rational(v) for k, v in wit.items()}, TNP_STUBS)
        ob = _tnp_obj(repo, sc, normals)
        Pall, _ = _find_projection(ob, dim, 2)
        for mode, num, nb in (("one block per stored normal (num=None)", None, 2), ("the first block repeated (num=3)", 3, 3)):
            blocks = [Pall[:, :, k] for k in range(2)] if num is None else [Pall[:, :, 0]] * 3
            want = np.empty((dim * nb, dim * nb), dtype=object)
            want[...] = sp.Integer(0)
            for k, B in enumerate(blocks):
                want[k * dim:(k + 1) * dim, k * dim:(k + 1) * dim] = B
            res = {}
            for meth in ("project_tangential_normal", "project_normal", "project_tangential"):
                fn = methods(cls).get(meth)
                if fn is None:
                    raise AnchorError(f"{TNP}:{CLS}.{meth} not found")
                qn = f"{CLS}.{meth}"
                lab = f"{dim}-d, {mode}"
                ok, M = _run(rec, "R6", TNP, qn, lab, lambda: sc.it.call_function(mod, fn, [] if num is None else [num], {}, selfobj=ob))
                if not ok:
                    continue
                if isinstance(M, SpMat):
                    M = M.a
                if not isinstance(M, np.ndarray) or M.ndim != 2:
                    raise Undecided(f"C32 {qn}: the result is not a matrix")
                res[meth] = M
                nrows = [k * dim + dim - 1 for k in range(nb)]
                trows = [i for i in range(dim * nb) if i not in nrows]
                if meth == "project_tangential_normal":
                    _identity(rec, "R6", sc, TNP, qn, lab, "block-diagonal matrix of the per-vector projection blocks, vector-major", _mat_terms(M, want))
                elif meth == "project_normal":
                    _identity(rec, "R6", sc, TNP, qn, lab, "row k is the LAST row (index dim-1) of block k of the full projection", _mat_terms(M, want[nrows, :]))
                else:
                    _identity(rec, "R6", sc, TNP, qn, lab, "the rows are the first dim-1 rows of every block, in order", _mat_terms(M, want[trows, :]))


# ======================================================================================================
# R7  map_grid
# ======================================================================================================

def _symarr(prefix: str, shape) -> np.ndarray:
    out = np.empty(shape, dtype=object)
    for ix in np.ndindex(*shape):
        out[ix] = _S(prefix + "".join(str(i) for i in ix))
    return out


def _r7(repo, rec: Rec) -> None:
    q = "map_grid"
    fields = ("cell_centers", "face_normals", "face_centers", "nodes")
    shapes = {"cell_centers": (3, 1), "face_normals": (3, 2), "face_centers": (3, 2), "nodes": (3, 3)}
    prim = {0: 11, 1: 13, 2: 17}
    for gdim, given in ((2, True), (2, False), (1, True), (1, False)):
        g = Bag(dim=gdim, **{f: _symarr(f[0] + f.split("_")[-1][0], shapes[f]) for f in fields})
        # a rotation-like matrix that is not symmetric and leaves 3 - gdim rows of the face centres constant, so that the active-row mask is a
        # proper subset of the rows (block structure; the entries stay symbolic)
        Rm = _symarr("R", (3, 3))
        zero_at = [(0, 2), (1, 2), (2, 0), (2, 1)] if gdim == 2 else [(0, 1), (0, 2), (1, 0), (2, 0)]
        for ix in zero_at:
            Rm[ix] = sp.Integer(0)
        fcs = g.attrs["face_centers"]
        for row in ([2] if gdim == 2 else [1, 2]):
            fcs[row, 1] = fcs[row, 0]
        wit = {}
        for f in fields:
            for ix in np.ndindex(*shapes[f]):
                if isinstance(g.attrs[f][ix], sp.Symbol):
                    wit[g.attrs[f][ix]] = sp.Rational(prim[ix[0]] + 3 * ix[1] + len(f), 7)
        for ix in np.ndindex(3, 3):
            if isinstance(Rm[ix], sp.Symbol):
                wit[Rm[ix]] = sp.Rational(1 + ((2 * ix[0] + 5 * ix[1]) % 7), 9) * (-1 if (ix[0] + ix[1]) % 2 else 1)
        called = {}

        def stub(it, args, kw, node, called=called, Rm=Rm):
            called[call_name(node)] = args
            return Rm.copy()
        stubs = {"project_plane_matrix": stub, "project_line_matrix": stub}
        sc = Scen(repo, wit, stubs)
        lab = f"grid of dimension {gdim}, rotation {'given' if given else 'computed'}"
        ok, out = _run(rec, "R7", MG, q, lab, lambda: sc.call(MG, q, [g], {"R": Rm.copy()} if given else {}))
        if not ok:
            continue
        if not (isinstance(out, tuple) and len(out) == 6):
            raise Undecided(f"C32 {q}: the result is not the documented 6-tuple")
        cc, fn_, fc, Rret, mask, nodes = out
        if not (isinstance(mask, np.ndarray) and mask.dtype == bool and mask.shape == (3,)):
            raise Undecided(f"C32 {q}: the fifth returned value is not a boolean mask of the three axes")
        if int(mask.sum()) != gdim:
            raise Undecided(f"C32 {q}: the scenario does not produce {gdim} active rows (mask {mask.tolist()})")
        if not given:
            want_callee = "project_plane_matrix" if gdim == 2 else "project_line_matrix"
            rec.check("R7", set(called) == {want_callee}, MG, q, f"a {gdim}-d grid without a given rotation obtains it from {want_callee} (called: {sorted(called)})",
                      f"{q}: rotation source [{lab}]")
        _identity(rec, "R7", sc, MG, q, lab, "the returned rotation is the rotation applied", _mat_terms(Rret, Rm))
        for name, val, src in (("cell_centers", cc, g.attrs["cell_centers"]), ("face_normals", fn_, g.attrs["face_normals"]),
                               ("face_centers", fc, g.attrs["face_centers"]), ("nodes", nodes, g.attrs["nodes"])):
            want = np.dot(Rm, src)[mask, :]
            _identity(rec, "R7", sc, MG, q, lab, f"mapped {name} = (R @ {name})[active rows]", _mat_terms(val, want) if isinstance(val, np.ndarray) else None)
    # dimension 0 / 3: nothing is mapped
    for gdim in (0, 3):
        g = Bag(dim=gdim, **{f: _symarr(f[0] + f.split("_")[-1][0], shapes[f]) for f in fields})
        sc = Scen(repo, {})
        ok, out = _run(rec, "R7", MG, q, f"grid of dimension {gdim}", lambda: sc.call(MG, q, [g], {}))
        if ok:
            good = isinstance(out, tuple) and len(out) == 6 and all(out[i] is g.attrs[f] or (isinstance(out[i], np.ndarray) and out[i].shape == g.attrs[f].shape and (out[i] == g.attrs[f]).all())
                                                                  for i, f in ((0, "cell_centers"), (1, "face_normals"), (2, "face_centers"), (5, "nodes")))
            good = good and isinstance(out[3], np.ndarray) and _mat_terms(out[3], _eye(3)) is not None and all(t == 0 for t in _mat_terms(out[3], _eye(3)))
            rec.check("R7", bool(good), MG, q, f"a grid of dimension {gdim} is returned unmapped with the identity rotation", f"{q}: unmapped [dimension {gdim}]")


def run_groups(ctx: Ctx, groups: list) -> None:
    """run every group; a group that cannot be decided does not hide a concrete refutation found by another group: the Undecided is re-raised at the
    end unless a finding that is not a registered known finding was recorded (then the verdict is the finding)"""
    from ..core.report import load_known, match_known
    pending = []
    for name, roots, body in groups:
        try:
            _group(ctx, name, roots, body)
        except Undecided as ex:
            pending.append(ex)
    if pending:
        known = load_known()
        fresh = [f for f in ctx.findings if match_known(f, known) is None]
        if not fresh:
            raise pending[0]
        for ex in pending:
            ctx.note(f"undecided (a finding was reported elsewhere): {ex}")


def run(ctx: Ctx) -> None:
    repo = ctx.repo
    cls_roots = [(TNP, f"{CLS}.__init__")]
    run_groups(ctx, [
        ("R1", [(MG, "rotation_matrix")], lambda rec: _r1(repo, rec)),
        ("R2", [(MG, "project_plane_matrix"), (MG, "project_line_matrix")], lambda rec: _r2(repo, rec)),
        ("R3", [(MG, "normal_matrix"), (MG, "tangent_matrix")], lambda rec: _r3(repo, rec)),
        ("R4", [(MG, "compute_normal"), (MG, "compute_tangent")], lambda rec: _r4(repo, rec)),
        ("R5", cls_roots, lambda rec: _r5(repo, rec)),
        ("R6", cls_roots + [(TNP, f"{CLS}.project_tangential_normal"), (TNP, f"{CLS}.project_normal"), (TNP, f"{CLS}.project_tangential")], lambda rec: _r6(repo, rec)),
        ("R7", [(MG, "map_grid")], lambda rec: _r7(repo, rec)),
    ])


def _m(name, file, old, new, rule, control=False, count=1):
    return dict(name=name, file=file, old=old, new=new, rule=rule, control=control, count=count)


_W = "        [[0.0, -vect[2], vect[1]], [vect[2], 0.0, -vect[0]], [-vect[1], vect[0], 0.0]]\n"
_PLANE_CROSS = ("            normal[1] * reference[2] - normal[2] * reference[1],\n"
                "            normal[2] * reference[0] - normal[0] * reference[2],\n"
                "            normal[0] * reference[1] - normal[1] * reference[0],\n")
_PLANE_CROSS_SWAPPED = ("            reference[1] * normal[2] - reference[2] * normal[1],\n"
                        "            reference[2] * normal[0] - reference[0] * normal[2],\n"
                        "            reference[0] * normal[1] - reference[1] * normal[0],\n")

MUTANTS = [
    # rotation_matrix
    _m("rotation-left-handed", MG, _W, "        [[0.0, vect[2], -vect[1]], [-vect[2], 0.0, vect[0]], [vect[1], -vect[0], 0.0]]\n", "R1"),
    _m("rotation-one-plus-cos", MG, "        + (1.0 - np.cos(a)) * np.linalg.matrix_power(W, 2)\n", "        + (1.0 + np.cos(a)) * np.linalg.matrix_power(W, 2)\n", "R1"),
    _m("rotation-axis-not-normalised", MG, "    vect = vect / np.linalg.norm(vect)\n", "    vect = np.asarray(vect)\n", "R1"),
    _m("rotation-sin-cos-swapped", MG, "        + np.sin(a) * W\n", "        + np.cos(a) * W\n", "R1"),
    # project_plane_matrix / project_line_matrix
    _m("plane-cross-product-order", MG, _PLANE_CROSS, _PLANE_CROSS_SWAPPED, "R2"),
    _m("plane-angle-from-last-component", MG, "    angle = np.arccos(np.dot(normal, reference))\n", "    angle = np.arccos(normal[2])\n", "R2"),
    _m("plane-normal-not-normalised", MG, "        normal = normal.flatten() / np.linalg.norm(normal)\n", "        normal = normal.flatten()\n", "R2"),
    _m("plane-line-return-transpose", MG, "    return rotation_matrix(angle, vect)\n", "    return rotation_matrix(angle, vect).T\n", "R2", count=2),
    _m("line-angle-negated", MG, "    angle = np.arccos(np.dot(tangent, reference))\n", "    angle = -np.arccos(np.dot(tangent, reference))\n", "R2"),
    _m("line-tangent-not-normalised", MG, "        tangent = tangent.flatten() / np.linalg.norm(tangent)\n", "        tangent = tangent.flatten()\n", "R2"),
    # normal_matrix / tangent_matrix
    _m("normal-matrix-not-normalised", MG, "        normal = normal / np.linalg.norm(normal)\n", "        normal = np.asarray(normal)\n", "R3", control=True),
    _m("tangent-matrix-plus", MG, "    return np.eye(3) - normal_matrix(pts, normal)\n", "    return np.eye(3) + normal_matrix(pts, normal)\n", "R3"),
    # compute_normal / compute_tangent
    _m("compute-normal-unnormalised", MG, "    return normal / np.linalg.norm(normal)\n", "    return normal\n", "R4"),
    _m("compute-normal-raw-points", MG, "    v = pts - center\n", "    v = pts\n", "R4"),
    _m("compute-normal-guard-removed", MG, "    if np.allclose(normal, np.zeros(3), atol=tol * nrm_scaling):\n", "    if False:\n", "R4"),
    _m("compute-normal-cross-of-same-vector", MG, "            v1[2] * v[0] - v1[0] * v[2],\n", "            v1[2] * v[0] - v1[0] * v[1],\n", "R4"),
    _m("compute-tangent-unnormalised", MG, "    return tangent / np.linalg.norm(tangent)\n", "    return tangent\n", "R4"),
    # map_grid
    _m("map-grid-transpose-on-one-field", MG, "        cell_centers = np.dot(R, cell_centers)[dim, :]\n", "        cell_centers = np.dot(R.T, cell_centers)[dim, :]\n", "R7", control=True),
    _m("map-grid-mask-forgotten", MG, "        nodes = np.dot(R, nodes)[dim, :]\n", "        nodes = np.dot(R, nodes)\n", "R7"),
    _m("map-grid-wrong-builder", MG, "                R = project_plane_matrix(g.nodes, tol=tol)\n", "                R = project_line_matrix(g.nodes)\n", "R7"),
    _m("map-grid-normals-not-rotated", MG, "        face_normals = np.dot(R, face_normals)[dim, :]\n", "        face_normals = face_normals[dim, :]\n", "R7"),
    # TangentialNormalProjection
    _m("tnp-left-handed-second-tangent", TNP, "            tc2 = np.cross(normal, tc1, axis=0)\n", "            tc2 = np.cross(tc1, normal, axis=0)\n", "R5"),
    _m("tnp-2d-tangent-sign", TNP, "                [normal[1, positive_n1], -normal[0, positive_n1]]\n", "                [normal[1, positive_n1], normal[0, positive_n1]]\n", "R5"),
    _m("tnp-normal-first", TNP, "            basis = np.hstack([tc1, tc2, normal])\n", "            basis = np.hstack([normal, tc1, tc2])\n", "R5"),
    _m("tnp-aligned-case-dropped", TNP, "                tc1[other_dim[0], aligned_with_axis] = 1\n", "                pass\n", "R5"),
    _m("tnp-no-inverse", TNP, "            M_inv[:, :, i] = np.linalg.inv(M[:, :, i])\n", "            M_inv[:, :, i] = M[:, :, i]\n", "R5"),
    _m("tnp-3d-tangent-component-swapped", TNP, "                tc1[other_dim[1], hit] = normal[other_dim[0], hit]\n", "                tc1[other_dim[1], hit] = normal[other_dim[1], hit]\n", "R5"),
    _m("tnp-ravel-order", TNP, '                [self._projection[:, :, i].ravel("F") for i in range(num)]\n', '                [self._projection[:, :, i].ravel("C") for i in range(num)]\n', "R6"),
    _m("tnp-normal-row-index", TNP, "        cols = np.arange(self.dim - 1, size_proj, self.dim)\n", "        cols = np.arange(0, size_proj, self.dim)\n", "R6", control=True),
    _m("tnp-repeat-last-block", TNP, '            data = np.tile(self._projection[:, :, 0].ravel(order="F"), num)\n', '            data = np.tile(self._projection[:, :, -1].ravel(order="F"), num)\n', "R6"),
    # independently seeded changes (campaign; /tmp/seed_C32_out)
    _m("seed-tnp-aligned-test-on-dominant-component", TNP, "                aligned_with_axis = np.logical_and(\n                    hit, np.linalg.norm(normal[other_dim], axis=0) < 1e-8\n                )\n",
       "                aligned_with_axis = np.logical_and(hit, np.abs(normal[i]) > 1 - 1e-8)\n", "R5"),
    _m("seed-plane-identity-when-nearly-aligned", MG, "    angle = np.arccos(np.dot(normal, reference))\n",
       "    cos_angle = np.dot(normal, reference)\n    if np.isclose(np.abs(cos_angle), 1.0):\n        return np.identity(3)\n    angle = np.arccos(cos_angle)\n", "R2"),
    _m("seed-line-tangent-not-normalised", MG, "        tangent = tangent.flatten() / np.linalg.norm(tangent)\n", "        tangent = np.asarray(tangent, dtype=float).flatten()\n", "R2"),
    _m("tnp-tangential-rows-keep-normal", TNP, "            np.arange(size_proj), np.arange(self.dim - 1, size_proj, self.dim)\n", "            np.arange(size_proj), np.arange(0, size_proj, self.dim)\n", "R6"),
]
