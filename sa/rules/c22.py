"""C22 - subgrid extraction and partitioning preserve the parent grid: structural clauses.

Nothing is executed.  The anchored functions of grids/partition.py are index-bookkeeping programs; they are
interpreted over an abstract domain of *index spaces* (which entity kind the values of an index array point at,
which ordered selection an axis lives on, which unique()/where() site produced it) and small integer polynomials.
A use that needs one array to live in two spaces is a contradiction; an unknown idiom is never a finding.

The interpreter (class KI) is shared with C23 (refinement / extrusion).
"""
from __future__ import annotations

import ast
import copy
from dataclasses import dataclass, field, replace
from typing import Any, Optional

import sympy as sp

from ..core.astutil import u, dotted, call_name, kwarg, walk_local, parent_map
from ..core.loader import AnchorError, Undecided
from ..core.report import Ctx
from ..core import cfg as cfgmod
from .c34 import normalise

PART = "src/porepy/grids/partition.py"
GRID = "src/porepy/grids/grid.py"
STRUCT = "src/porepy/grids/structured.py"

# =====================================================================================
#  symbols, spaces, values
# =====================================================================================

_SYMS: dict[str, sp.Symbol] = {}


def S(name: str) -> sp.Symbol:
    if name not in _SYMS:
        _SYMS[name] = sp.Symbol(name, positive=True, integer=True)
    return _SYMS[name]


def _z(x) -> bool:
    """is the polynomial / expression identically zero (expand first, simplify only if needed)"""
    try:
        e = sp.expand(x)
    except Exception:
        return False
    if e == 0:
        return True
    if getattr(e, "is_number", False):
        return False
    try:
        if e.is_polynomial(*e.free_symbols):
            return False      # a non-zero polynomial in expanded form is not identically zero
    except Exception:
        pass
    return sp.simplify(e) == 0


def _layer_free(tot, cnt):
    """m with tot == m * cnt and m free of cnt; None otherwise"""
    m = sp.expand(sp.cancel(tot / cnt))
    return m if (cnt not in m.free_symbols and _z(m * cnt - tot)) else None


def n_of(G: str, K: str) -> sp.Symbol:
    """number of entities of kind K (N nodes, F faces, C cells) of grid G"""
    return S(f"n{K}_{G}")


POS3 = ("pos", sp.Integer(3))
BOT = ("bot",)  # value kind / axis of an empty accumulator (np.empty((k, 0)), np.array([]))


def E(G: str, K: str) -> tuple:
    return ("E", G, K)


def flat_prod(parts) -> tuple:
    out = []
    for p in parts:
        if isinstance(p, tuple) and p and p[0] == "prod":
            out.extend(p[1])
        else:
            out.append(p)
    return ("prod", tuple(out)) if len(out) != 1 else out[0]


MODS: dict = {}          # repo-relative path -> loader.Module of the run in progress (for private helper interpretation)
SPACE_SIZES: dict = {}   # sizes of analysis-specific spaces (registered by the rule that introduces them)


def size_of(space) -> Optional[sp.Expr]:
    if not isinstance(space, tuple) or not space:
        return None
    if space in SPACE_SIZES:
        return SPACE_SIZES[space]
    k = space[0]
    if k == "E":
        return n_of(space[1], space[2])
    if k == "pos":
        return space[1]
    if k == "prod":
        r = sp.Integer(1)
        for s_ in space[1]:
            z = size_of(s_)
            if z is None:
                return None
            r = r * z
        return r
    if k == "cat":
        r = sp.Integer(0)
        for s_ in space[1]:
            z = size_of(s_)
            if z is None:
                return None
            r = r + z
        return r
    if k == "bot":
        return sp.Integer(0)
    if k == "ptr" and len(space) == 3 and space[2] is not None:
        z = size_of(space[2])
        return None if z is None else z + 1
    return S("|" + fmt_space(canon_space(space)) + "|")


def fmt_space(s) -> str:
    if s is None:
        return "?"
    if not isinstance(s, tuple) or not s:
        return str(s)
    k = s[0]
    if not isinstance(k, str):
        return "(" + ",".join(fmt_space(x) if isinstance(x, tuple) else str(x) for x in s) + ")"
    if k == "E":
        return {"C": "cells", "F": "faces", "N": "nodes"}.get(s[2], s[2]) + f"({s[1]})"
    if k == "pos":
        return f"[{s[1]}]"
    if k == "prod":
        return "(" + " x ".join(fmt_space(x) for x in s[1]) + ")"
    if k == "cat":
        return "(" + " ++ ".join(fmt_space(x) for x in s[1]) + ")"
    if k == "sel":
        return f"sel<{fmt_ident(s[1])}>"
    if k == "U":
        return f"unique#{s[1]}"
    if k == "ent":
        return f"entries<{fmt_ident(s[1])}>"
    if k == "hits":
        return f"hits<{s[1]}>"
    if k == "X":
        return "new-" + {"C": "cells", "F": "faces", "N": "nodes"}.get(s[1], s[1])
    return k + "<" + ",".join(fmt_space(x) if isinstance(x, tuple) else str(x) for x in s[1:]) + ">"


def fmt_ident(i) -> str:
    if i is None:
        return "?"
    if isinstance(i, tuple):
        if not i or not isinstance(i[0], str):
            return "(" + ",".join(fmt_ident(x) if isinstance(x, tuple) else str(x) for x in i) + ")"
        return i[0] + "(" + ",".join(fmt_ident(x) if isinstance(x, tuple) else str(x) for x in i[1:]) + ")"
    return str(i)


@dataclass(frozen=True)
class Int:
    p: Any                      # sympy expression
    kind: Any = None            # space this scalar indexes (loop variable over range(n_K))


@dataclass(frozen=True)
class Arr:
    vk: Any = None              # space the VALUES index (None: not index valued / unknown)
    axes: Any = None            # tuple of spaces, one per axis (None: unknown)
    ident: Any = None           # content identity (same ident => same array)
    flags: frozenset = frozenset()   # idmap | col | maybe0d | unsigned | signed | bool
    val: Any = None             # symbolic value (sympy) for integer arrays with a closed form


@dataclass(frozen=True)
class Mat:
    rk: Any
    ck: Any
    signed: Optional[bool]
    fmt: Optional[str]
    mid: Any
    alias: str = "fresh"        # 'own' = the grid's own matrix object


@dataclass(frozen=True)
class Mask:
    axes: Any
    key: str
    pol: bool = True


@dataclass(frozen=True)
class Tup:
    items: tuple


@dataclass(frozen=True)
class GridV:
    name: str


@dataclass(frozen=True)
class Opaque:
    what: str
    info: Any = None


@dataclass(frozen=True)
class DictV:
    items: tuple                # ((key, value), ...)

    def get(self, k):
        for a, b in self.items:
            if a == k:
                return b
        return None


@dataclass
class ListV:
    items: list = field(default_factory=list)   # concrete appended values (outside loops)
    template: Any = None                        # (loop symbol, value) when appended inside a loop


@dataclass(frozen=True)
class Dims:
    """a small integer vector indexed by the Cartesian direction (cart_dims, coarse_dims, ...)"""
    base: Any = field(compare=False)   # function i -> sympy expression
    name: str = ""
    n: Optional[int] = field(default=None, compare=False)   # number of directions when known


def fmt_val(v) -> str:
    if v is None:
        return "?"
    if isinstance(v, Int):
        return f"int {v.p}"
    if isinstance(v, Arr):
        ax = "?" if v.axes is None else "(" + ", ".join(fmt_space(a) for a in v.axes) + ")"
        s_ = f"array on {ax}"
        if v.vk is not None:
            s_ += f" of indices into {fmt_space(v.vk)}"
        return s_
    if isinstance(v, Mat):
        return f"matrix {fmt_space(v.rk)} x {fmt_space(v.ck)}" + (" signed" if v.signed else "")
    if isinstance(v, Mask):
        return "mask over " + ("?" if v.axes is None else ", ".join(fmt_space(a) for a in v.axes))
    if isinstance(v, Tup):
        return "(" + ", ".join(fmt_val(x) for x in v.items) + ")"
    if isinstance(v, GridV):
        return f"grid {v.name}"
    return type(v).__name__


def canon_space(s):
    """one representative per ordered space: selecting with the array of unique values IS the unique space; the axis an
    index array lives on is the selection it defines"""
    if not isinstance(s, tuple) or not s:
        return s
    if s[0] == "seq":
        return canon_space(("sel", s[1]))
    if s[0] == "hits":
        return canon_space(("sel", ("where", s[1])))
    if s[0] == "sel" and isinstance(s[1], tuple) and s[1] and s[1][0] == "umap":
        return ("U", s[1][1])
    if s[0] in ("prod", "cat"):
        return (s[0], tuple(canon_space(x) for x in s[1]))
    return s


def last_axis(v) -> Any:
    if isinstance(v, (Arr, Mask)) and v.axes:
        return v.axes[-1]
    return None


def count_atoms(p) -> set:
    return {s_ for s_ in getattr(p, "free_symbols", set()) if s_.name.startswith(("nC_", "nF_", "nN_"))}


# =====================================================================================
#  KI: flow-ordered abstract interpreter over index spaces
# =====================================================================================

GRID_FIELDS2 = {"nodes": "N", "cell_centers": "C", "face_centers": "F", "face_normals": "F"}   # shape (3, n_K)
GRID_FIELDS1 = {"cell_volumes": "C", "face_areas": "F"}                                          # shape (n_K,)
GRID_COUNTS = {"num_cells": "C", "num_faces": "F", "num_nodes": "N"}
PRESERVE_FUNCS = {"asarray", "ascontiguousarray", "array", "copy", "atleast_2d"}
PRESERVE_METHODS = {"copy", "astype", "view"}
GRID_CTOR_PARAMS = ["dim", "nodes", "face_nodes", "cell_faces", "name", "history", "external_tags"]


class KI:
    """Interprets one (normalised) function body.  `report(kind, ok, node, msg, facts)` receives the generic typing
    obligations (gather / product / offset / ctor / rank); events needed by the rules are recorded in lists."""

    def __init__(self, fn: ast.FunctionDef, where: str, report, offset_hook=None, tuple_returning=None):
        self.fn, self.where, self.report = fn, where, report
        self.offset_hook = offset_hook
        self.tuple_returning = tuple_returning or {}
        self.env: dict[str, Any] = {}
        self.grid_spaces: dict[str, dict[str, Any]] = {}
        self.mats: dict[Any, Mat] = {}
        self.returns: list = []
        self.attr_stores: list = []      # (stmt, receiver value, attr, value)
        self.sub_stores: list = []       # (stmt, base name, base value, index values, value, aug)
        self.grids: list = []            # (call node, GridV, bound args {param: (expr, val)})
        self.ctors: list = []            # (call node, fmt, Mat or None, facts)
        self.truth: list = []            # (node, value) values used as a truth value
        self.uniques: list = []
        self.loops: dict = {}            # loop symbol -> (lo, hi, for-node)
        self.asserts: list = []
        self.calls: list = []            # (call node, dotted name, arg values)
        self.assign_log: dict[str, list] = {}
        self._seen: set = set()
        self._site = 0
        self._loopdepth: list = []
        self.pm = parent_map(fn)
        self.unbound: list = []
        self._comp_calls: dict = {}
        self.interp_private = False      # opt-in: interpret calls of private same-module helpers that could not be inlined
        self.callee_env: dict = {}       # private helper name -> (FunctionDef, environment at its return)
        self._depth = 0
        self.phi_src: dict = {}
        self.vk_join = None              # optional: join of differing value kinds (list -> kind or None)
        self.thresholds: list = []       # (compare node, array value) for `X > 0`-like tests
        self.products: list = []         # (node, matrix, other)
        self.dim_value: dict[str, int] = {}
        self.locals_ = {n.id for n in ast.walk(fn) if isinstance(n, ast.Name) and isinstance(n.ctx, ast.Store)}

    # ------------------------------------------------------------------ utilities
    def need(self, kind: str, ok: bool, node: ast.AST, msg: str, **facts) -> None:
        key = (id(node), kind)
        if key in self._seen:
            return
        self._seen.add(key)
        self.report(kind, bool(ok), node, msg, facts)

    def site(self, node: ast.AST) -> str:
        if not hasattr(self, "_sites"):
            self._sites: dict[int, str] = {}
        if id(node) not in self._sites:
            self._site += 1
            self._sites[id(node)] = f"{self._site}"
        return self._sites[id(node)]

    def sp_of(self, G: str, K: str):
        return self.grid_spaces.get(G, {}).get(K, E(G, K))

    def und(self, msg: str, node: Optional[ast.AST] = None) -> Undecided:
        return Undecided(f"{self.where}: {msg}" + (f" [{u(node)[:100]}]" if node is not None else ""))

    # ------------------------------------------------------------------ statements
    def run(self, body: list) -> bool:
        """returns True if the block always terminates (return / raise)"""
        for s in body:
            if self.stmt(s):
                return True
        return False

    def join(self, e1: dict, e2: dict, at: ast.AST) -> dict:
        out = {}
        for k in set(e1) | set(e2):
            a, b = e1.get(k), e2.get(k)
            if a == b:
                out[k] = a
            elif isinstance(a, Arr) and isinstance(b, Arr) and a.vk == b.vk:
                ident = ("phi", self.site(at), k)
                self.phi_src.setdefault(ident, set()).update({a.ident, b.ident})
                axes = a.axes if a.axes == b.axes else None
                if axes is None and a.axes is not None and b.axes is not None and len(a.axes) == len(b.axes) == 1 \
                        and all(isinstance(x.axes[0], tuple) and x.axes[0][0] in ("seq", "hits", "sel") for x in (a, b)):
                    axes = (("seq", ident),)
                out[k] = Arr(a.vk, axes, ident, a.flags & b.flags)
            elif isinstance(a, Arr) and isinstance(b, Arr) and BOT in (a.vk, b.vk):
                out[k] = b if a.vk == BOT else a
            elif isinstance(a, Arr) and isinstance(b, Arr) and self.vk_join is not None and a.vk is not None and b.vk is not None \
                    and self.vk_join([a.vk, b.vk]) is not None:
                out[k] = Arr(self.vk_join([a.vk, b.vk]), a.axes if a.axes == b.axes else None, None, a.flags & b.flags)
            elif isinstance(a, (Arr, Mask)) and isinstance(b, (Arr, Mask)) and type(a) is not type(b) and a.axes is not None and a.axes == b.axes:
                out[k] = Arr(None, a.axes, None, frozenset({"bool"}))   # an indicator array re-bound to a comparison result
            elif isinstance(a, ListV) and isinstance(b, ListV):
                out[k] = b
            elif isinstance(a, Int) and isinstance(b, Int):
                out[k] = Int(S(f"phi_{k}{self.site(at)}"), a.kind if a.kind == b.kind else None)
            else:
                out[k] = None
        return out

    def stmt(self, s: ast.stmt) -> bool:
        if isinstance(s, ast.Expr):
            if not (isinstance(s.value, ast.Constant)):
                self.ev(s.value)
            return False
        if isinstance(s, ast.Return):
            self.returns.append((s, self.ev(s.value) if s.value is not None else None))
            return True
        if isinstance(s, ast.Raise):
            return True
        if isinstance(s, (ast.Pass, ast.Import, ast.ImportFrom, ast.Global, ast.Nonlocal, ast.Break, ast.Continue,
                          ast.FunctionDef, ast.ClassDef, ast.Delete)):
            return False
        if isinstance(s, ast.Assert):
            self.asserts.append((s, self.ev(s.test)))
            return False
        if isinstance(s, ast.If):
            self.truth_use(s.test)
            dec = self.decide(s.test)
            if dec is not None:
                return self.run(s.body if dec else s.orelse)
            base = dict(self.env)
            t1 = self.run(s.body)
            e1 = self.env
            self.env = dict(base)
            t2 = self.run(s.orelse)
            e2 = self.env
            if t1 and t2:
                return True
            self.env = e2 if t1 else (e1 if t2 else self.join(e1, e2, s))
            return False
        if isinstance(s, (ast.For, ast.AsyncFor)):
            self.for_loop(s)
            return False
        if isinstance(s, ast.While):
            self.truth_use(s.test)
            base = dict(self.env)
            self.run(s.body)
            self.env = self.join(base, self.env, s)
            return False
        if isinstance(s, (ast.With, ast.AsyncWith)):
            return self.run(s.body)
        if isinstance(s, ast.Try):
            base = dict(self.env)
            t = self.run(s.body)
            e1 = self.env
            envs = [] if t else [e1]
            for h in s.handlers:
                self.env = dict(base)
                if not self.run(h.body):
                    envs.append(self.env)
            if not envs:
                return True
            cur = envs[0]
            for e_ in envs[1:]:
                cur = self.join(cur, e_, s)
            self.env = cur
            self.run(s.orelse)
            self.run(s.finalbody)
            return False
        if isinstance(s, ast.Assign):
            v = self.ev(s.value)
            for t in s.targets:
                self.bind(t, v, s, s.value)
            return False
        if isinstance(s, ast.AnnAssign):
            if s.value is not None:
                self.bind(s.target, self.ev(s.value), s, s.value)
            return False
        if isinstance(s, ast.AugAssign):
            if isinstance(s.target, ast.Name):
                fake = ast.BinOp(left=ast.Name(id=s.target.id, ctx=ast.Load()), op=s.op, right=s.value)
                ast.copy_location(fake, s)
                ast.fix_missing_locations(fake)
                self._aug_nodes = getattr(self, "_aug_nodes", {})
                fake = self._aug_nodes.setdefault(id(s), fake)
                v = self.ev(fake)
                self.env[s.target.id] = v
                self.assign_log.setdefault(s.target.id, []).append((s, v))
            elif isinstance(s.target, ast.Subscript):
                self.store_sub(s, s.target, self.ev(s.value), True)
            elif isinstance(s.target, ast.Attribute):
                self.attr_stores.append((s, self.ev(s.target.value), s.target.attr, None))
            return False
        raise self.und("statement form not handled", s)

    def decide(self, test: ast.expr) -> Optional[bool]:
        """truth value of a comparison between two concrete integers (dimension-specialised runs)"""
        if isinstance(test, ast.Compare) and len(test.ops) == 1:
            l, r = self.ev(test.left), self.ev(test.comparators[0])
            if isinstance(l, Int) and isinstance(r, Int) and l.p.is_Integer and r.p.is_Integer:
                a, b = int(l.p), int(r.p)
                op = test.ops[0]
                for t_, f_ in ((ast.Eq, a == b), (ast.NotEq, a != b), (ast.Lt, a < b), (ast.LtE, a <= b), (ast.Gt, a > b), (ast.GtE, a >= b)):
                    if isinstance(op, t_):
                        return f_
        return None

    def truth_use(self, test: ast.expr) -> None:
        t = test
        while isinstance(t, ast.UnaryOp) and isinstance(t.op, ast.Not):
            t = t.operand
        if isinstance(t, ast.BoolOp):
            for x in t.values:
                self.truth_use(x)
            return
        v = self.ev(t)
        self.truth.append((t, v))

    def bind(self, t: ast.expr, v, s: ast.stmt, vexpr: Optional[ast.expr]) -> None:
        if isinstance(t, ast.Name):
            self.env[t.id] = v
            self.assign_log.setdefault(t.id, []).append((s, v))
        elif isinstance(t, (ast.Tuple, ast.List)):
            items = None
            if isinstance(v, Tup) and len(v.items) == len(t.elts) and not any(isinstance(x, ast.Starred) for x in t.elts):
                items = v.items
            elif isinstance(v, Tup) and any(isinstance(x, ast.Starred) for x in t.elts):
                k = [i for i, x in enumerate(t.elts) if isinstance(x, ast.Starred)][0]
                tail = len(t.elts) - k - 1
                if len(v.items) >= len(t.elts) - 1:
                    items = list(v.items[:k]) + [None] + (list(v.items[len(v.items) - tail:]) if tail else [])
            for i, el in enumerate(t.elts):
                if isinstance(el, ast.Starred):
                    self.bind(el.value, None, s, None)
                else:
                    self.bind(el, items[i] if items is not None else None, s, None)
        elif isinstance(t, ast.Attribute):
            recv = self.ev(t.value)
            self.attr_stores = [x for x in self.attr_stores if x[0] is not s] + [(s, recv, t.attr, v)]
            if isinstance(recv, Mat) and t.attr == "data":
                self.need("alias", recv.alias != "own", s,
                          f"`{u(s)[:70]}` overwrites the data of the grid's own matrix (format conversions without copy=True return the object itself)",
                          construct="the grid's own incidence data is not overwritten")
                sg = None
                if isinstance(v, Arr) and ("unsigned" in v.flags or "bool" in v.flags):
                    sg = False
                elif isinstance(v, Arr) and "signed" in v.flags:
                    sg = True
                if isinstance(t.value, ast.Name):
                    self.env[t.value.id] = replace(recv, signed=sg)
        elif isinstance(t, ast.Subscript):
            self.store_sub(s, t, v, False)

    def store_sub(self, s: ast.stmt, t: ast.Subscript, v, aug: bool) -> None:
        base = self.ev(t.value)
        idx = self.index_parts(t.slice)
        ivals = [self.ev(x) if not isinstance(x, ast.Slice) else "slice" for x in idx]
        if isinstance(base, Arr) and base.axes is not None and len(idx) <= len(base.axes):
            for pos, (x, iv) in enumerate(zip(idx, ivals)):
                ax = base.axes[pos] if len(idx) == len(base.axes) else (base.axes[-1] if pos == len(idx) - 1 and len(idx) == 1 and len(base.axes) == 1 else None)
                self.check_index(t, base, ax, iv)
        self.sub_stores = [x for x in self.sub_stores if x[0] is not s] + [(s, dotted(t.value) or u(t.value), base, ivals, v, aug)]

    def for_loop(self, s: ast.For) -> None:
        sym = None
        it = s.iter
        tv = None
        if isinstance(it, ast.Call) and call_name(it) == "range" and it.args and not it.keywords:
            args = [self.ev(a) for a in it.args]
            if all(isinstance(a, Int) for a in args) and len(args) <= 2:
                lo = sp.Integer(0) if len(args) == 1 else args[0].p
                hi = args[-1].p
                nm = s.target.id if isinstance(s.target, ast.Name) else "it"
                sym = S(f"k_{nm}{self.site(s)}")
                kind = None
                if len(args) == 1:
                    for K in "CFN":
                        for G in self._grids_known():
                            if _z(hi - n_of(G, K)):
                                kind = self.sp_of(G, K)
                self.loops[sym] = (lo, hi, s)
                tv = Int(sym, kind)
        elif isinstance(it, ast.Call) and call_name(it) == "arange" and len(it.args) == 1:
            a = self.ev(it.args[0])
            if isinstance(a, Int):
                nm = s.target.id if isinstance(s.target, ast.Name) else "it"
                sym = S(f"k_{nm}{self.site(s)}")
                kind = None
                for K in "CFN":
                    for G in self._grids_known():
                        if _z(a.p - n_of(G, K)):
                            kind = self.sp_of(G, K)
                self.loops[sym] = (sp.Integer(0), a.p, s)
                tv = Int(sym, kind)
        elif isinstance(it, ast.Call) and call_name(it) == "enumerate" and len(it.args) == 1:
            seq = self.ev(it.args[0])
            if isinstance(seq, Tup) and seq.items and all(isinstance(x, Tup) and len(x.items) == len(seq.items[0].items)
                                                          and all(isinstance(y, Int) for y in x.items) for x in seq.items):
                sym = S(f"k_enum{self.site(s)}")
                self.loops[sym] = (sp.Integer(0), sp.Integer(len(seq.items)), s)
                elem = Tup(tuple(Int(S(f"e{j}_{self.site(s)}")) for j in range(len(seq.items[0].items))))
                tv = Tup((Int(sym), elem))
        else:
            seqv = self.ev(it)
            if isinstance(seqv, Arr) and seqv.axes is not None and len(seqv.axes) == 1 and size_of(seqv.axes[0]) is not None \
                    and seqv.axes[0][0] == "pos":
                sym = S(f"k_el{self.site(s)}")
                self.loops[sym] = (sp.Integer(0), size_of(seqv.axes[0]), s)
                tv = Opaque("elem", sym)
        self.bind(s.target, tv, s, None)
        self._loopdepth.append((sym, s))
        base = dict(self.env)
        self.run(s.body)
        self.env = self.join(base, self.env, s)
        self.bind(s.target, tv, s, None)
        self.run(s.body)
        inner = dict(self.env)
        self.env = self.join(base, self.env, s)
        self._loopdepth.pop()
        self.close_accumulators(s, sym, base, inner)
        self.run(s.orelse)

    def _grids_known(self) -> list[str]:
        return [v.name for v in self.env.values() if isinstance(v, GridV)]

    def close_accumulators(self, s: ast.For, sym, base: dict, inner: dict) -> None:
        """X = np.hstack((X, P)) executed once per iteration of `for k in range(T)`: X = X0 ++ P^T (T blocks of P)."""
        if sym is None:
            return
        lo, hi, _ = self.loops[sym]
        T = sp.expand(hi - lo)
        for st in s.body:
            if not (isinstance(st, ast.Assign) and len(st.targets) == 1 and isinstance(st.targets[0], ast.Name)):
                continue
            nm = st.targets[0].id
            c = st.value
            if not (isinstance(c, ast.Call) and call_name(c) in ("hstack", "concatenate", "append")):
                continue
            parts = list(c.args[0].elts) if c.args and isinstance(c.args[0], (ast.Tuple, ast.List)) else list(c.args[:2])
            if len(parts) < 2 or not (isinstance(parts[0], ast.Name) and parts[0].id == nm):
                continue
            if sum(1 for st2 in ast.walk(s) if isinstance(st2, (ast.Assign, ast.AugAssign)) and any(
                    isinstance(t, ast.Name) and t.id == nm for t in (st2.targets if isinstance(st2, ast.Assign) else [st2.target]))) != 1:
                continue
            x0 = base.get(nm)
            saved, self.env = self.env, inner
            pieces = [self.ev(p) for p in parts[1:]]
            self.env = saved
            cur = self.env.get(nm)
            if not isinstance(cur, Arr) or not all(isinstance(p, Arr) and p.axes is not None for p in pieces) or not isinstance(x0, Arr):
                continue
            pa = [p.axes[-1] for p in pieces]
            if any(sym in getattr(size_of(a), "free_symbols", set()) for a in pa if size_of(a) is not None):
                continue
            block = pa[0] if len(pa) == 1 else ("cat", tuple(pa))
            rep = flat_prod([("pos", T), block])
            if x0.axes is None:
                continue
            head = x0.axes[-1]
            lastax = rep if head == BOT or size_of(head) == 0 else ("cat", (head, rep))
            lead = pieces[0].axes[:-1]
            self.env[nm] = replace(cur, axes=tuple(lead) + (lastax,))

    # ------------------------------------------------------------------ expressions
    @staticmethod
    def index_parts(sl: ast.expr) -> list:
        return list(sl.elts) if isinstance(sl, ast.Tuple) else [sl]

    NAMED = ("E", "U", "sel", "ent", "X", "cat", "prod")

    def compat(self, a, b) -> Optional[bool]:
        """do two spaces denote the same index space?  None = cannot tell"""
        if a is None or b is None or a == BOT or b == BOT:
            return None
        a, b = canon_space(a), canon_space(b)
        if a == b:
            return True
        for x, y in ((a, b), (b, a)):
            if x[0] == "pos":
                sy = size_of(y)
                if sy is not None and y[0] in ("E", "pos", "prod", "cat", "X"):
                    return True if _z(sy - x[1]) else None   # positions of a differently sized range: cannot tell
                return None
        if a[0] in self.NAMED and b[0] in self.NAMED:
            return False
        return None

    def check_index(self, node: ast.AST, base, axis_space, iv) -> None:
        if axis_space is None or iv is None or iv == "slice":
            return
        isp = None
        if isinstance(iv, Arr):
            isp = iv.vk
        elif isinstance(iv, Mask):
            isp = iv.axes[-1] if iv.axes else None
        elif isinstance(iv, Int):
            isp = iv.kind
        ok = self.compat(isp, axis_space)
        if ok is None:
            return
        self.need("gather", ok, node,
                  f"`{u(node)[:90]}`: the indexed axis lives on {fmt_space(axis_space)} but the index holds "
                  f"{'a mask over' if isinstance(iv, Mask) else 'positions of'} {fmt_space(isp)}",
                  axis=fmt_space(axis_space), index=fmt_space(isp))

    def ev(self, e: Optional[ast.AST]):
        if e is None:
            return None
        if isinstance(e, ast.Name):
            if e.id not in self.env and e.id in self.locals_:
                self.unbound.append(e)
            if e.id not in self.env and e.id not in self.locals_:
                return self.module_constant(e.id)
            return self.env.get(e.id)
        if isinstance(e, ast.Constant):
            if isinstance(e.value, bool):
                return Opaque("bool", e.value)
            if isinstance(e.value, int):
                return Int(sp.Integer(e.value))
            if isinstance(e.value, str):
                return Opaque("str", e.value)
            return Opaque("const", e.value)
        if isinstance(e, ast.Tuple):
            return Tup(tuple(self.ev(x) for x in e.elts))
        if isinstance(e, ast.List):
            return ListV([self.ev(x) for x in e.elts])
        if isinstance(e, ast.Dict):
            if all(isinstance(k, ast.Constant) for k in e.keys):
                return DictV(tuple((k.value, self.ev(v)) for k, v in zip(e.keys, e.values)))  # type: ignore[union-attr]
            return None
        if isinstance(e, ast.Attribute):
            return self.ev_attr(e)
        if isinstance(e, ast.Subscript):
            return self.ev_subscript(e)
        if isinstance(e, ast.BinOp):
            return self.ev_binop(e)
        if isinstance(e, ast.UnaryOp):
            v = self.ev(e.operand)
            if isinstance(e.op, ast.USub):
                if isinstance(v, Int):
                    return Int(-v.p)
                if isinstance(v, Arr):
                    return replace(v, vk=None, ident=None, val=(-v.val if v.val is not None else None),
                                   flags=(v.flags - {"unsigned"}) | ({"signed"} if "unsigned" in v.flags else set()))
                return None
            if isinstance(e.op, (ast.Invert, ast.Not)):
                if isinstance(v, Mask):
                    return Mask(v.axes, v.key, not v.pol)
                if isinstance(e.op, ast.Not):
                    self.truth.append((e.operand, v))
                return None
            return v
        if isinstance(e, ast.Compare) and len(e.ops) == 1:
            l, r = self.ev(e.left), self.ev(e.comparators[0])
            if isinstance(l, Arr) and isinstance(r, Int) and r.p == 0 and isinstance(e.ops[0], (ast.Gt, ast.GtE)):
                self.thresholds.append((e, l))
            for a, b in ((l, r), (r, l)):
                if isinstance(a, Arr) and not isinstance(b, (Mat, Tup, GridV)):
                    return Mask(a.axes, u(e))
            return None
        if isinstance(e, ast.BoolOp):
            for x in e.values:
                self.ev(x)
            return None
        if isinstance(e, ast.Call):
            return self.ev_call(e)
        if isinstance(e, ast.IfExp):
            self.truth_use(e.test)
            dec = self.decide(e.test)
            if dec is not None:
                return self.ev(e.body if dec else e.orelse)
            a, b = self.ev(e.body), self.ev(e.orelse)
            return a if a == b else self.join({"ifexp": a}, {"ifexp": b}, e).get("ifexp")
        if isinstance(e, (ast.ListComp, ast.GeneratorExp)):
            return self.ev_comp(e)
        if isinstance(e, ast.JoinedStr):
            return Opaque("str")
        if isinstance(e, ast.Starred):
            return self.ev(e.value)
        return None

    def module_constant(self, name: str):
        """value of a module-level name bound once to a literal tuple/list/number"""
        mod = MODS.get(self.where.split(":")[0])
        if mod is None:
            return None
        hits = [st for st in mod.tree.body if (isinstance(st, ast.Assign) and any(isinstance(t, ast.Name) and t.id == name for t in st.targets))
                or (isinstance(st, ast.AnnAssign) and isinstance(st.target, ast.Name) and st.target.id == name and st.value is not None)]
        if len(hits) != 1:
            return None
        v = hits[0].value
        try:
            ast.literal_eval(v)
        except Exception:
            return None
        return self.ev(v)

    def ev_comp(self, e) -> Any:
        saved = dict(self.env)
        sym = None
        if len(e.generators) == 1 and not e.generators[0].ifs and isinstance(e.generators[0].target, ast.Name) \
                and isinstance(e.generators[0].iter, ast.Call) and call_name(e.generators[0].iter) == "range" and len(e.generators[0].iter.args) == 1:
            n = self.ev(e.generators[0].iter.args[0])
            if isinstance(n, Int):
                sym = S(f"k_{e.generators[0].target.id}{self.site(e)}")
                self.loops[sym] = (sp.Integer(0), n.p, e)
                kind = None
                for K in "CFN":
                    for G in self._grids_known():
                        if _z(n.p - n_of(G, K)):
                            kind = self.sp_of(G, K)
                self.env[e.generators[0].target.id] = Int(sym, kind)
        if sym is None and len(e.generators) == 1 and not e.generators[0].ifs and isinstance(e.generators[0].target, ast.Name):
            seqv = self.ev(e.generators[0].iter)
            if isinstance(seqv, Arr) and seqv.axes is not None and len(seqv.axes) == 1 and isinstance(seqv.axes[0], tuple) \
                    and seqv.axes[0][0] == "pos":
                sym = S(f"k_el{self.site(e)}")
                self.loops[sym] = (sp.Integer(0), size_of(seqv.axes[0]), e)
                self.env[e.generators[0].target.id] = Opaque("elem", sym)
        if sym is None:
            for g in e.generators:
                self.ev(g.iter)
                self.bind(g.target, None, e, None)  # type: ignore[arg-type]
        self._loopdepth.append((sym, e))
        v = self.ev(e.elt)
        if sym is not None:
            fake = ast.Call(func=ast.Name(id="append", ctx=ast.Load()), args=[e.elt], keywords=[])
            fake = self._comp_calls.setdefault(id(e), fake)
            v = self.on_append(fake, v)
        self._loopdepth.pop()
        self.env = saved
        return ListV([], template=(sym, v))

    # -- attributes -------------------------------------------------------------------------------
    def ev_attr(self, e: ast.Attribute):
        a = e.attr
        d = dotted(e)
        if d in ("np.newaxis",):
            return Opaque("newaxis")
        b = self.ev(e.value)
        if isinstance(b, GridV):
            G = b.name
            if a in GRID_COUNTS:
                z = size_of(self.sp_of(G, GRID_COUNTS[a]))
                return Int(z if z is not None else n_of(G, GRID_COUNTS[a]))
            if a == "dim":
                return Int(sp.Integer(self.dim_value[G])) if G in self.dim_value else Int(S(f"dim_{G}"))
            if a in GRID_FIELDS2:
                return Arr(None, (POS3, self.sp_of(G, GRID_FIELDS2[a])), ("field", G, a))
            if a in GRID_FIELDS1:
                return Arr(None, (self.sp_of(G, GRID_FIELDS1[a]),), ("field", G, a))
            if a == "cell_faces":
                m = Mat(self.sp_of(G, "F"), self.sp_of(G, "C"), True, "csc", ("cf", G), "own")
                self.mats[m.mid] = m
                return m
            if a == "face_nodes":
                m = Mat(self.sp_of(G, "N"), self.sp_of(G, "F"), False, "csc", ("fn", G), "own")
                self.mats[m.mid] = m
                return m
            if a == "cart_dims":
                base = sp.IndexedBase(f"cart_{G}", integer=True, positive=True)
                return Dims(lambda i, _b=base: _b[i], f"cart_dims({G})", self.dim_value.get(G))
            return Opaque("gridattr", (G, a))
        if isinstance(b, Mat):
            ent = ("ent", b.mid)
            if a == "indices":
                if b.fmt not in ("csc", "csr"):
                    return None
                return Arr(b.rk if b.fmt == "csc" else b.ck, (ent,), ("indices", b.mid))
            if a == "indptr":
                line = b.ck if b.fmt == "csc" else (b.rk if b.fmt == "csr" else None)
                return Arr(ent, (("ptr", b.mid, line),), ("indptr", b.mid))
            if a == "data":
                return Arr(None, (ent,), ("data", b.mid), frozenset({"signed"} if b.signed else ({"unsigned"} if b.signed is False else set())))
            if a == "shape":
                return Tup((self.int_of_space(b.rk), self.int_of_space(b.ck)))
            if a == "nnz":
                return self.int_of_space(ent)
            if a == "T":
                return self.transpose(b)
            if a == "format":
                return Opaque("format", b.fmt)
            return None
        if isinstance(b, Arr):
            if a == "size":
                if b.axes is None:
                    return None
                r = sp.Integer(1)
                for ax in b.axes:
                    z = size_of(ax)
                    if z is None:
                        return None
                    r = r * z
                return Int(r)
            if a == "shape":
                if b.axes is None:
                    return None
                return Tup(tuple(self.int_of_space(ax) for ax in b.axes))
            if a == "T":
                return replace(b, axes=tuple(reversed(b.axes)) if b.axes is not None else None,
                               ident=("T", b.ident) if b.ident is not None else None)
            if a == "dtype":
                return Opaque("dtype", "bool" if "bool" in b.flags else None)
            return None
        if isinstance(b, Mask):
            if a == "T" and b.axes is not None:
                return Mask(tuple(reversed(b.axes)), b.key + ".T", b.pol)
            return None
        if isinstance(b, Dims):
            if a == "size":
                return Int(S(f"ndims_{b.name}"))
            return None
        return None

    def int_of_space(self, s_) -> Optional[Int]:
        z = size_of(s_)
        return Int(z) if z is not None else None

    def transpose(self, m: Mat) -> Mat:
        fmt = {"csc": "csr", "csr": "csc"}.get(m.fmt or "", None)
        t = Mat(m.ck, m.rk, m.signed, fmt, ("T", m.mid))
        self.mats[t.mid] = t
        return t

    def space_from_size(self, p) -> tuple:
        p = sp.expand(p)
        for G in self._grids_known():
            for K in "CFN":
                if p == n_of(G, K):
                    return self.sp_of(G, K)
        return ("pos", p)

    # -- subscripts -------------------------------------------------------------------------------
    @staticmethod
    def _full(x) -> bool:
        return isinstance(x, ast.Slice) and x.lower is None and x.upper is None and x.step is None

    def ev_subscript(self, e: ast.Subscript):
        parts = self.index_parts(e.slice)
        if isinstance(e.value, ast.Attribute) and e.value.attr == "shape" and len(parts) == 1:
            t = self.ev(e.value)
            k = self.ev(parts[0])
            if isinstance(t, Tup) and isinstance(k, Int) and k.p.is_Integer:
                i = int(k.p)
                if -len(t.items) <= i < len(t.items):
                    return t.items[i]
            return None
        b = self.ev(e.value)
        if b is None:
            for x in parts:
                if not isinstance(x, ast.Slice):
                    self.ev(x)
            return None
        if isinstance(b, Opaque) and b.what == "gridattr" and b.info[1] == "tags" and len(parts) == 1 \
                and isinstance(parts[0], ast.Constant) and isinstance(parts[0].value, str):
            key = parts[0].value
            K = "F" if key.endswith("_faces") else ("N" if key.endswith("_nodes") else None)
            return Arr(None, (self.sp_of(b.info[0], K),), ("tag", b.info[0], key), frozenset({"bool"})) if K else None
        if isinstance(b, DictV):
            return b.get(parts[0].value) if len(parts) == 1 and isinstance(parts[0], ast.Constant) else None
        if isinstance(b, Tup):
            k = self.ev(parts[0]) if len(parts) == 1 and not isinstance(parts[0], ast.Slice) else None
            if isinstance(k, Int) and k.p.is_Integer and -len(b.items) <= int(k.p) < len(b.items):
                return b.items[int(k.p)]
            if isinstance(k, Int) and b.items and all(isinstance(x, Tup) and len(x.items) == len(b.items[0].items)
                                                      and all(isinstance(y, Int) for y in x.items) for x in b.items):
                return Tup(tuple(Int(S(f"e{j}_{self.site(e)}")) for j in range(len(b.items[0].items))))
            return None
        if isinstance(b, ListV):
            k = self.ev(parts[0]) if len(parts) == 1 and not isinstance(parts[0], ast.Slice) else None
            if isinstance(k, Int):
                if b.template is not None and b.template[0] is not None:
                    return subst_val(b.template[1], b.template[0], k.p)
                if k.p.is_Integer and -len(b.items) <= int(k.p) < len(b.items):
                    return b.items[int(k.p)]
            return None
        if isinstance(b, Dims):
            if len(parts) == 1 and not isinstance(parts[0], ast.Slice):
                k = self.ev(parts[0])
                if isinstance(k, Int):
                    return Int(b.base(k.p))
                return None
            if len(parts) == 1 and isinstance(parts[0], ast.Slice):
                sl = parts[0]
                lo = self.ev(sl.lower) if sl.lower is not None else Int(sp.Integer(0))
                hi = self.ev(sl.upper) if sl.upper is not None else None
                if hi is None and b.n is not None:
                    hi = Int(sp.Integer(b.n))
                if isinstance(lo, Int) and isinstance(hi, Int) and lo.p.is_Integer and hi.p.is_Integer and sl.step is None:
                    return Tup(tuple(Int(b.base(sp.Integer(i))) for i in range(int(lo.p), int(hi.p))))
            return None
        if isinstance(b, Mat):
            if len(parts) == 2:
                r, c = parts
                if self._full(c) and not isinstance(r, ast.Slice):
                    iv = self.ev(r)
                    self.check_index(e, b, b.rk, iv)
                    if isinstance(iv, (Arr, Mask)):
                        m = Mat(("sel", self.ident_of(iv, r)), b.ck, b.signed, "csr" if b.fmt == "csr" else None, ("rows", b.mid, self.ident_of(iv, r)))
                        self.mats[m.mid] = m
                        return m
                if self._full(r) and not isinstance(c, ast.Slice):
                    iv = self.ev(c)
                    self.check_index(e, b, b.ck, iv)
                    if isinstance(iv, (Arr, Mask)):
                        m = Mat(b.rk, ("sel", self.ident_of(iv, c)), b.signed, "csc" if b.fmt == "csc" else None, ("cols", b.mid, self.ident_of(iv, c)))
                        self.mats[m.mid] = m
                        return m
            return None
        if isinstance(b, Arr):
            return self.index_array(e, b, parts)
        return None

    def ident_of(self, v, node: ast.AST):
        if isinstance(v, Arr) and v.ident is not None:
            return v.ident
        if isinstance(v, Mask):
            return ("mask", v.key, v.pol)
        return ("anon", self.site(node))

    def index_array(self, e: ast.Subscript, b: Arr, parts: list):
        if b.axes is None or len(parts) > len(b.axes):
            ivs = [self.ev(x) for x in parts if not isinstance(x, ast.Slice)]
            fancy = [v for v in ivs if isinstance(v, (Arr, Mask))]
            if len(parts) == 1 and len(fancy) == 1 and isinstance(fancy[0], Arr):
                return Arr(b.vk, fancy[0].axes, None, b.flags & {"signed", "unsigned"})
            return Arr(b.vk, None, None) if b.vk is not None else None
        axes_out: list = []
        ident_parts = []
        n = len(parts)
        if n >= 2 and n == len(b.axes) and not any(isinstance(x, ast.Slice) for x in parts):
            ivs = [self.ev(x) for x in parts]
            if all(isinstance(v, Arr) and v.axes is not None and len(v.axes) == 1 for v in ivs):
                # paired (zipped) fancy indices: element k is b[i0[k], i1[k], ...]
                for ax, v in zip(b.axes, ivs):
                    self.check_index(e, b, ax, v)
                common = ivs[0].axes if all(self.compat(v.axes[0], ivs[0].axes[0]) is not False for v in ivs) else None
                named = [v.axes for v in ivs if isinstance(v.axes[0], tuple) and v.axes[0][0] == "E"]
                return Arr(b.vk, named[0] if named else common, ("paired", b.ident, tuple(self.ident_of(v, x) for v, x in zip(ivs, parts))))
        # a single index applies to the first axis (numpy); remaining axes are kept
        for pos, x in enumerate(parts):
            ax = b.axes[pos]
            if isinstance(x, ast.Slice):
                if self._full(x):
                    axes_out.append(ax)
                    ident_parts.append("all")
                else:
                    axes_out.append(("slice", ax, u(x)))
                    ident_parts.append(u(x))
                continue
            iv = self.ev(x)
            if isinstance(iv, Opaque) and iv.what == "newaxis":
                return Arr(b.vk, None, None)
            self.check_index(e, b, ax, iv)
            if isinstance(iv, Int):
                ident_parts.append(("at", str(iv.p)))
                continue
            if isinstance(iv, Arr) and isinstance(iv.ident, tuple) and iv.ident and iv.ident[0] == "rmi" and len(parts) == 1:
                return Arr(b.vk, (("hits", iv.ident),), ("picked", b.ident, iv.ident))
            if isinstance(iv, Arr):
                axes_out.extend(iv.axes if iv.axes is not None else [None])
                ident_parts.append(self.ident_of(iv, x))
                continue
            if isinstance(iv, Mask):
                axes_out.append(("sel", self.ident_of(iv, x)))
                ident_parts.append(self.ident_of(iv, x))
                continue
            return Arr(b.vk, None, None) if b.vk is not None else None
        axes_out.extend(b.axes[n:])
        if any(a is None for a in axes_out):
            return Arr(b.vk, None, None)
        if not axes_out:
            return Int(S(f"elem{self.site(e)}"), b.vk)
        ident = ("gather", b.ident, tuple(ident_parts)) if b.ident is not None else None
        flags = b.flags & {"signed", "unsigned", "bool"}
        val = None
        if b.val is not None and len(parts) == 1 and isinstance(parts[0], ast.Slice):
            val = b.val
        return Arr(b.vk, tuple(axes_out), ident, flags, val)

    # -- arithmetic -------------------------------------------------------------------------------
    def ev_binop(self, e: ast.BinOp):
        l, r = self.ev(e.left), self.ev(e.right)
        op = e.op
        if isinstance(l, Int) and isinstance(r, Int):
            try:
                if isinstance(op, ast.Add):
                    return Int(l.p + r.p)
                if isinstance(op, ast.Sub):
                    return Int(l.p - r.p)
                if isinstance(op, ast.Mult):
                    return Int(sp.expand(l.p * r.p))
                if isinstance(op, ast.FloorDiv):
                    return Int(sp.floor(l.p / r.p))
                if isinstance(op, ast.Div):
                    return Int(l.p / r.p)
                if isinstance(op, ast.Pow):
                    return Int(l.p ** r.p)
            except Exception:
                return None
            return None
        if isinstance(l, ListV) and isinstance(r, ListV) and isinstance(op, ast.Add):
            if l.template is None and r.template is not None and not r.items:
                return ListV(list(l.items), r.template)
            if l.template is None and r.template is None:
                return ListV(list(l.items) + list(r.items))
            return None
        if isinstance(l, Dims) or isinstance(r, Dims):
            return self.dims_binop(l, r, op)
        if isinstance(op, (ast.Mult, ast.MatMult)) and (isinstance(l, Mat) or isinstance(r, Mat)):
            return self.product(e, l, r)
        if isinstance(op, (ast.BitAnd, ast.BitOr)) and isinstance(l, Mask) and isinstance(r, Mask):
            return Mask(l.axes if l.axes == r.axes else None, u(e))
        if isinstance(l, Arr) and isinstance(r, Int) and isinstance(op, (ast.FloorDiv, ast.Mod)) and "idmap" in l.flags \
                and l.axes is not None and len(l.axes) == 1 and isinstance(l.axes[0], tuple) and l.axes[0][0] == "pos":
            # arange(m*n) // m  enumerates (i slow, copy fast) with value i;  arange(m*n) % n  enumerates (copy slow, i fast)
            tot = l.axes[0][1]
            for G in self._grids_known():
                for K in "CFN":
                    cnt = n_of(G, K)
                    if isinstance(op, ast.FloorDiv) and _z(tot - r.p * cnt):
                        sp_ = self.sp_of(G, K)
                        return Arr(sp_, (flat_prod([sp_, ("pos", r.p)]),), None, frozenset({"idmap"}))
                    if isinstance(op, ast.Mod) and _z(r.p - cnt) and _layer_free(tot, cnt) is not None:
                        sp_ = self.sp_of(G, K)
                        return Arr(sp_, (flat_prod([("pos", _layer_free(tot, cnt)), sp_]),), None, frozenset({"idmap"}))
        for a, b, swapped in ((l, r, False), (r, l, True)):
            if isinstance(a, Arr) and isinstance(b, Int):
                if isinstance(op, (ast.Add, ast.Sub)) and a.vk is not None and a.vk != BOT and not (swapped and isinstance(op, ast.Sub)):
                    off = b.p if isinstance(op, ast.Add) else -b.p
                    if self.offset_hook is not None:
                        res = self.offset_hook(self, e, a, off)
                        if res is not None:
                            return res
                    if count_atoms(off):
                        return Arr(None, a.axes, None)
                    return Arr(None, a.axes, None, frozenset(), (a.val + off) if a.val is not None else None)
                val = None
                if a.val is not None:
                    try:
                        val = {ast.Add: lambda x, y: x + y, ast.Sub: (lambda x, y: y - x) if swapped else (lambda x, y: x - y),
                               ast.Mult: lambda x, y: x * y}.get(type(op), lambda x, y: None)(a.val, b.p)
                    except Exception:
                        val = None
                fl = a.flags & ({"unsigned"} if isinstance(op, ast.Mult) and b.p.is_positive else set())
                if isinstance(op, ast.Mult) and b.p.is_negative and "unsigned" in a.flags:
                    fl = frozenset({"signed"})
                return Arr(None, a.axes, None, frozenset(fl), val)
        if isinstance(l, Arr) and isinstance(r, Arr):
            axes = self.broadcast(l.axes, r.axes)
            val = None
            if l.val is not None and r.val is not None:
                try:
                    val = {ast.Add: l.val + r.val, ast.Sub: l.val - r.val, ast.Mult: l.val * r.val}.get(type(op))
                except Exception:
                    val = None
            return Arr(None, axes, None, frozenset(), val)
        if isinstance(l, Arr) or isinstance(r, Arr):
            a = l if isinstance(l, Arr) else r
            return Arr(None, a.axes, None)
        return None

    @staticmethod
    def broadcast(a, b):
        if a is None or b is None:
            return None
        if a == b:
            return a
        if len(a) < len(b):
            a, b = b, a
        pad = (None,) * (len(a) - len(b)) + tuple(b)
        out = []
        for x, y in zip(a, pad):
            if y is None or x == y:
                out.append(x)
            elif isinstance(y, tuple) and y[0] == "pos" and y[1] == 1:
                out.append(x)
            elif isinstance(x, tuple) and x[0] == "pos" and x[1] == 1:
                out.append(y)
            else:
                return None
        return tuple(out)

    def dims_binop(self, l, r, op):
        def at(v, i):
            if isinstance(v, Dims):
                return v.base(i)
            if isinstance(v, Int):
                return v.p
            return None
        if not all(isinstance(v, (Dims, Int)) for v in (l, r)):
            return None
        f = {ast.Add: lambda x, y: x + y, ast.Sub: lambda x, y: x - y, ast.Mult: lambda x, y: x * y,
             ast.Div: lambda x, y: x / y, ast.FloorDiv: lambda x, y: sp.floor(x / y)}.get(type(op))
        if f is None:
            return None
        return Dims(lambda i, _l=l, _r=r: f(at(_l, i), at(_r, i)), f"({getattr(l, 'name', l)} {type(op).__name__} {getattr(r, 'name', r)})")

    def product(self, e: ast.AST, l, r):
        if isinstance(l, Mat) and isinstance(r, Mat):
            ok = self.compat(l.ck, r.rk)
            if ok is not None:
                self.need("product", ok, e, f"`{u(e)[:90]}`: left factor has columns on {fmt_space(l.ck)}, right factor rows on {fmt_space(r.rk)}",
                          left=fmt_val(l), right=fmt_val(r))
            sg = None if (l.signed is None or r.signed is None) else (l.signed or r.signed)
            m = Mat(l.rk, r.ck, sg, None, ("prod", l.mid, r.mid))
            self.mats[m.mid] = m
            return m
        self.products.append((e, l, r))
        if isinstance(l, Mat) and isinstance(r, (Arr, Mask)):
            ax = last_axis(r) if not (isinstance(r, Arr) and r.axes and len(r.axes) == 2) else r.axes[0]
            ok = self.compat(l.ck, ax)
            if ok is not None:
                self.need("product", ok, e, f"`{u(e)[:90]}`: the matrix has columns on {fmt_space(l.ck)}, the vector lives on {fmt_space(ax)}",
                          matrix=fmt_val(l), vector=fmt_val(r))
            fl = {"signed"} if l.signed else ({"unsigned"} if l.signed is False else set())
            return Arr(None, (l.rk,), None, frozenset(fl))
        if isinstance(r, Mat) and isinstance(l, (Arr, Mask)):
            ax = last_axis(l)
            ok = self.compat(r.rk, ax)
            if ok is not None:
                self.need("product", ok, e, f"`{u(e)[:90]}`: the matrix has rows on {fmt_space(r.rk)}, the vector lives on {fmt_space(ax)}")
            fl = {"signed"} if r.signed else ({"unsigned"} if r.signed is False else set())
            return Arr(None, (r.ck,), None, frozenset(fl))
        m = l if isinstance(l, Mat) else r
        o = r if isinstance(l, Mat) else l
        if isinstance(o, Int):
            return replace(m, mid=("scaled", m.mid), alias="fresh")
        return None

    # -- calls ------------------------------------------------------------------------------------
    def args_of(self, c: ast.Call, names: list[str]) -> dict[str, ast.expr]:
        out = {}
        for nm, a in zip(names, c.args):
            if isinstance(a, ast.Starred):
                break
            out[nm] = a
        for k in c.keywords:
            if k.arg is not None:
                out[k.arg] = k.value
        return out

    def order_of(self, c: ast.Call, pos: int = 0) -> str:
        o = kwarg(c, "order")
        if o is None and len(c.args) > pos:
            o = c.args[pos]
        if o is None:
            return "C"
        if isinstance(o, ast.Constant) and o.value in ("C", "F"):
            return o.value
        return "?"

    def ev_call(self, c: ast.Call):
        name = call_name(c)
        d = dotted(c.func) or ""
        f = c.func
        # ---- methods on typed receivers
        if isinstance(f, ast.Attribute) and not d.startswith(("np.", "numpy.", "sps.", "pp.", "nx.")):
            recv = self.ev(f.value)
            r = self.ev_method(c, recv, name)
            if r is not NotImplemented:
                return r
        argv = [self.ev(a) for a in c.args]
        self.calls.append((c, d or name, argv))
        h = getattr(self, "f_" + (name or ""), None)
        if h is not None:
            return h(c, argv)
        if name in self.tuple_returning and isinstance(f, ast.Name):
            return self.tuple_returning[name](self, c, argv)
        if isinstance(f, ast.Name) and name.startswith("_") and self._depth < 2 and self.interp_private:
            r = self.call_private(c, name, argv)
            if r is not NotImplemented:
                return r
        for k in c.keywords:
            self.ev(k.value)
        return None

    def call_private(self, c: ast.Call, name: str, argv):
        """interpret a call of a private same-module function (one that normalise could not inline, e.g. inside a
        comprehension): parameters bound to the argument values, body run by this interpreter"""
        mod = MODS.get(self.where.split(":")[0])
        fd = mod.get(name) if mod is not None else None
        if not isinstance(fd, ast.FunctionDef) or fd.args.vararg or fd.args.kwarg or any(isinstance(a, ast.Starred) for a in c.args):
            return NotImplemented
        params = [a.arg for a in fd.args.args]
        bound = dict(zip(params, argv))
        for k in c.keywords:
            if k.arg in params:
                bound[k.arg] = self.ev(k.value)
        defaults = dict(zip(params[len(params) - len(fd.args.defaults):], fd.args.defaults))
        saved_env, saved_ret, saved_locals = self.env, self.returns, self.locals_
        self.env = {p_: bound[p_] if p_ in bound else (self.ev(defaults[p_]) if p_ in defaults else None) for p_ in params}
        self.returns = []
        self.locals_ = {n.id for n in ast.walk(fd) if isinstance(n, ast.Name) and isinstance(n.ctx, ast.Store)}
        self._depth += 1
        try:
            self.run(fd.body)
            rets = [v for _s, v in self.returns]
            self.callee_env[name] = (fd, dict(self.env))
        finally:
            self._depth -= 1
            self.env, self.returns, self.locals_ = saved_env, saved_ret, saved_locals
        if not rets:
            return Opaque("none")
        out = rets[0]
        for v in rets[1:]:
            out = out if out == v else self.join({"r": out}, {"r": v}, c).get("r")
        return out

    def ev_method(self, c: ast.Call, recv, name):
        if isinstance(recv, GridV):
            G = recv.name
            if name == "cell_nodes":
                m = Mat(self.sp_of(G, "N"), self.sp_of(G, "C"), False, "csc", ("cn", G, self.site(c)))
                self.mats[m.mid] = m
                return m
            if name == "cell_connection_map":
                m = Mat(self.sp_of(G, "C"), self.sp_of(G, "C"), False, None, ("c2c", G, self.site(c)))
                self.mats[m.mid] = m
                return m
            if name == "copy":
                return recv
            if name == "compute_geometry":
                return Opaque("none")
            if name == "get_all_boundary_nodes":
                return Arr(self.sp_of(G, "N"), (("hits", "bnd_nodes"),), ("bnd_nodes", G))
            return None
        if isinstance(recv, Mat):
            if name in ("tocsc", "tocsr"):
                fmt = name[2:]
                cp = kwarg(c, "copy") or (c.args[0] if c.args else None)
                if recv.fmt == fmt:
                    return replace(recv, alias="fresh") if isinstance(cp, ast.Constant) and cp.value is True else recv
                m = Mat(recv.rk, recv.ck, recv.signed, fmt, ("conv", recv.mid, fmt))
                self.mats[m.mid] = m
                return m
            if name in ("tocoo", "tolil", "asformat"):
                return replace(recv, fmt=None, mid=("conv", recv.mid, name))
            if name == "copy":
                return replace(recv, alias="fresh")
            if name == "transpose":
                return self.transpose(recv)
            if name in ("sum", "getnnz"):
                ax = self.ev(kwarg(c, "axis") or (c.args[0] if c.args else None))
                if isinstance(ax, Int) and ax.p.is_Integer:
                    return Arr(None, (recv.ck if int(ax.p) == 0 else recv.rk,), None)
                return None
            if name in ("astype", "sorted_indices"):
                return recv
            return None
        if isinstance(recv, Arr):
            if name in PRESERVE_METHODS:
                fl = recv.flags
                if name == "astype" and c.args and u(c.args[0]) in ("bool", "'bool'", "np.bool_"):
                    fl = fl | {"bool"}
                return replace(recv, flags=fl)
            if name in ("ravel", "flatten"):
                return self.ravel(recv, self.order_of(c))
            if name == "reshape":
                shp = c.args[0] if len(c.args) == 1 else ast.Tuple(elts=[a for a in c.args], ctx=ast.Load())
                return self.reshape(c, recv, shp, self.order_of(c, 99))
            if name == "transpose" and not c.args:
                return replace(recv, axes=tuple(reversed(recv.axes)) if recv.axes is not None else None,
                               ident=("T", recv.ident) if recv.ident is not None else None)
            if name == "sort":
                ax = kwarg(c, "axis") or (c.args[0] if c.args else None)
                base = c.func.value  # type: ignore[attr-defined]
                if isinstance(base, ast.Name):
                    self.env[base.id] = replace(recv, ident=("sorted_axis", recv.ident, u(ax) if ax is not None else "-1"), vk=recv.vk)
                return Opaque("none")
            if name in ("min", "max", "sum", "prod", "mean"):
                if name == "prod" and recv.val is not None:
                    return None
                return None
            if name in ("tolist",):
                return None
            if name in ("squeeze",):
                return self.f_squeeze(c, [recv])
            if name in ("all", "any"):
                return Opaque("boolred")
            return None
        if isinstance(recv, Dims):
            if name == "prod":
                return Opaque("dimsprod", recv)
            if name in ("astype", "copy"):
                return recv
            return None
        if isinstance(recv, ListV):
            if name == "append" and c.args:
                v = self.on_append(c, self.ev(c.args[0]))
                if self._loopdepth and self._loopdepth[-1][0] is not None:
                    recv.template = (self._loopdepth[-1][0], v)
                elif self._loopdepth:
                    recv.template = (None, v)
                else:
                    recv.items.append(v)
                return Opaque("none")
            return None
        if isinstance(recv, Opaque) and recv.what == "str":
            return recv
        if isinstance(recv, Mask):
            if name in ("all", "any"):
                return Opaque("boolred", (name, recv))
            return None
        return NotImplemented

    def on_append(self, c: ast.Call, v):
        return v

    # ---- numpy creation
    def _shape_axes(self, shp) -> Optional[tuple]:
        v = self.ev(shp) if isinstance(shp, ast.AST) else shp
        items = v.items if isinstance(v, Tup) else (v,)
        out = []
        for it in items:
            if not isinstance(it, Int):
                return None
            out.append(BOT if it.p == 0 else self.space_from_size(it.p))
        return tuple(out)

    def f_arange(self, c, argv):
        kws = {k.arg: self.ev(k.value) for k in c.keywords if k.arg in ("start", "stop", "step")}
        if kws:
            if len(argv) == 0 and "stop" in kws:
                argv = [kws.get("start", Int(sp.Integer(0))), kws["stop"]] + ([kws["step"]] if "step" in kws else [])
            elif len(argv) == 1 and "step" in kws and "stop" in kws:
                argv = [argv[0], kws["stop"], kws["step"]]
            elif len(argv) == 2 and "step" in kws:
                argv = list(argv) + [kws["step"]]
            if len(argv) == 2 and isinstance(argv[0], Int) and argv[0].p == 0:
                argv = [argv[1]]
        if len(argv) == 1 and isinstance(argv[0], Int):
            s_ = self.space_from_size(argv[0].p)
            return Arr(s_, (s_,), ("arange", argv[0].p), frozenset({"idmap"}), None)
        if len(argv) in (2, 3) and all(isinstance(a, Int) for a in argv):
            return Arr(None, None, ("arange3",) + tuple(argv))
        return None

    def _filled(self, c, argv, flags=()):
        if not c.args and kwarg(c, "shape") is None:
            return None
        axes = self._shape_axes(kwarg(c, "shape") or c.args[0])
        fl = set(flags)
        dt = kwarg(c, "dtype") or (c.args[1] if len(c.args) > 1 and call_name(c) != "full" else None)
        if dt is not None and u(dt) in ("bool", "'bool'", "np.bool_"):
            fl.add("bool")
        if axes is None:
            return None
        if BOT in axes:
            return Arr(BOT, axes, None, frozenset(fl))
        return Arr(None, axes, None, frozenset(fl))

    def f_zeros(self, c, argv):
        return self._filled(c, argv, ("zeros",))

    def f_ones(self, c, argv):
        return self._filled(c, argv, ("unsigned",))

    def f_empty(self, c, argv):
        return self._filled(c, argv)

    def f_full(self, c, argv):
        return self._filled(c, argv)

    def f_zeros_like(self, c, argv):
        return Arr(None, argv[0].axes, None, frozenset({"zeros"})) if argv and isinstance(argv[0], Arr) else None

    def f_ones_like(self, c, argv):
        return Arr(None, argv[0].axes, None, frozenset({"unsigned"})) if argv and isinstance(argv[0], Arr) else None

    f_empty_like = f_zeros_like

    def f_array(self, c, argv):
        if c.args and isinstance(c.args[0], (ast.List, ast.Tuple)) and not c.args[0].elts:
            return Arr(BOT, (BOT,), None)
        if argv and isinstance(argv[0], Int) and argv[0].p == 0:
            return Arr(None, None, ("scalar0",))
        if argv and isinstance(argv[0], Arr):
            return argv[0]
        if argv and isinstance(argv[0], Tup) and all(isinstance(x, Arr) for x in argv[0].items):
            return self._stack0(list(argv[0].items))
        return None

    def f_asarray(self, c, argv):
        return argv[0] if argv and isinstance(argv[0], (Arr, Mask)) else None

    f_ascontiguousarray = f_asarray
    f_copy = f_asarray

    def f_atleast_1d(self, c, argv):
        if argv and isinstance(argv[0], Arr):
            return replace(argv[0], flags=argv[0].flags - {"maybe0d"})
        return None

    # ---- selection
    def _mask_arg(self, v, node):
        """(axes, key) of a boolean selector"""
        if isinstance(v, Mask):
            return v.axes, ("mask", v.key, v.pol)
        if isinstance(v, Arr) and v.axes is not None:
            return v.axes, ("truthy", self.ident_of(v, node))
        return None, None

    def f_where(self, c, argv):
        if len(argv) != 1:
            return None
        if isinstance(argv[0], Arr) and "selector" in argv[0].flags:
            # a selector parameter is an index array or a boolean mask over the same space: where() gives indices either way
            key = ("truthy", self.ident_of(argv[0], c.args[0]))
            return Tup((Arr(argv[0].vk, (("hits", key),), ("where", key), frozenset({"selector"})),))
        axes, key = self._mask_arg(argv[0], c.args[0])
        if axes is None:
            return None
        if len(axes) == 1:
            return Tup((Arr(axes[0], (("hits", key),), ("where", key)),))
        return Tup(tuple(Arr(ax, (("hits", key),), ("where", key, i), frozenset({"rowmajor"})) for i, ax in enumerate(axes)))

    f_nonzero = f_where

    def f_flatnonzero(self, c, argv):
        t = self.f_where(c, argv)
        return t.items[0] if isinstance(t, Tup) and len(t.items) == 1 else None

    def f_argwhere(self, c, argv):
        if len(argv) != 1:
            return None
        axes, key = self._mask_arg(argv[0], c.args[0])
        if axes is None:
            return None
        if len(axes) == 1:
            return Arr(axes[0], (("hits", key), ("pos", sp.Integer(1))), ("where", key), frozenset({"col"}))
        return Arr(None, (("hits", key), ("pos", sp.Integer(len(axes)))), ("argwhere", key, tuple(axes)))

    def f_squeeze(self, c, argv):
        v = argv[0] if argv else None
        if isinstance(v, Tup) and len(v.items) == 1:
            v = v.items[0]
        if not isinstance(v, Arr) or kwarg(c, "axis") is not None or len(c.args) > 1:
            return v if isinstance(v, Arr) else None
        axes = v.axes
        fl = set(v.flags)
        if axes is not None and "col" in fl:
            axes = axes[:1]
            fl.discard("col")
        if axes is None or any(isinstance(a, tuple) and a and a[0] in ("hits", "seq", "sel", "slice", "U") for a in axes):
            fl.add("maybe0d")
        return replace(v, axes=axes, flags=frozenset(fl))

    def f_sort(self, c, argv):
        v = argv[0] if argv else None
        if not isinstance(v, Arr):
            return None
        if "maybe0d" in v.flags:
            self.need("rank", False, c,
                      f"`{u(c)[:90]}`: np.squeeze without an axis gives a 0-d array when exactly one element is selected, and np.sort "
                      f"rejects 0-d input (AxisError)", arg=fmt_val(v))
        elif v.axes is not None and len(v.axes) == 1:
            self.need("rank", True, c, "np.sort receives a 1-d array")
        ax = kwarg(c, "axis")
        if v.axes is not None and len(v.axes) == 1:
            idn = ("sorted", self.ident_of(v, c.args[0]))
            return Arr(v.vk, (("seq", idn),), idn, v.flags - {"maybe0d", "idmap"})
        return Arr(v.vk, v.axes, ("sorted_axis", v.ident, u(ax) if ax is not None else "-1"))

    def f_unique(self, c, argv):
        v = argv[0] if argv else None
        if not isinstance(v, Arr):
            return None
        flags = [isinstance(kwarg(c, k), ast.Constant) and kwarg(c, k).value is True  # type: ignore[union-attr]
                 for k in ("return_index", "return_inverse", "return_counts")]
        ax = kwarg(c, "axis")
        st = self.site(c)
        if v.ident is not None:
            # two np.unique calls on the same array give the same ordered result: identify the unique space by its argument
            key = fmt_ident(v.ident)
            self._uniq_keys = getattr(self, "_uniq_keys", {})
            st = self._uniq_keys.setdefault(key, st)
        if ax is not None:
            self.uniques.append((c, st, "axis"))
            outs: list = [None] + [None for fl in flags if fl]
            return Tup(tuple(outs)) if any(flags) else None
        U = ("U", st)
        self.uniques.append((c, st, v))
        self.phi_src[("usrc", st)] = v.ident
        vals = Arr(v.vk, (U,), ("umap", st))
        if not any(flags):
            return vals
        outs = [vals]
        if flags[0]:
            outs.append(Arr(("flat", v.axes) if v.axes is None or len(v.axes) != 1 else v.axes[0], (U,), ("first", st)))
        if flags[1]:
            outs.append(Arr(U, v.axes, ("inv", st)))
        if flags[2]:
            outs.append(Arr(None, (U,), ("counts", st)))
        return Tup(tuple(outs))

    def f_argsort(self, c, argv):
        v = argv[0] if argv else None
        if isinstance(v, Arr) and v.axes is not None and len(v.axes) == 1:
            return Arr(v.axes[0], (("seq", ("argsort", self.ident_of(v, c.args[0]))),), ("argsort", self.ident_of(v, c.args[0])))
        return None

    def f_lexsort(self, c, argv):
        keys = argv[0] if argv else None
        if isinstance(keys, Tup) and keys.items and all(isinstance(k, Arr) and k.axes is not None and len(k.axes) == 1 for k in keys.items):
            idn = ("lexsort", tuple(self.ident_of(k, c) for k in keys.items))
            return Arr(keys.items[-1].axes[0], (("seq", idn),), idn)
        return None

    # ---- stacking
    def _seq_items(self, c, argv) -> Optional[list]:
        if not argv:
            return None
        a = argv[0]
        if isinstance(a, Tup):
            return list(a.items)
        if isinstance(a, ListV) and a.template is None:
            return list(a.items)
        return None

    def _join_vk(self, items: list):
        vks = [x.vk for x in items if x.vk != BOT]
        if not vks:
            return BOT
        if all(v == vks[0] for v in vks):
            return vks[0]
        return self.vk_join(vks) if self.vk_join is not None else None

    def _cat_last(self, items: list) -> Optional[Arr]:
        if not all(isinstance(x, Arr) for x in items):
            return None
        vk = self._join_vk(items)
        real = [x for x in items if x.vk != BOT and not (x.axes and x.axes[-1] == BOT)]
        if not real:
            return items[0]
        if any(x.axes is None for x in real):
            return Arr(vk, None, None)
        lead = real[0].axes[:-1]
        if any(x.axes[:-1] != lead for x in real):
            return Arr(vk, None, None)
        lastax = real[0].axes[-1] if len(real) == 1 else ("cat", tuple(x.axes[-1] for x in real))
        fl = frozenset.intersection(*[x.flags & {"signed", "unsigned", "bool"} for x in real])
        return Arr(vk, tuple(lead) + (lastax,), None, fl)

    def _stack0(self, items: list) -> Optional[Arr]:
        if not all(isinstance(x, Arr) for x in items):
            return None
        vk = self._join_vk(items)
        real = [x for x in items if x.vk != BOT]
        if not real or any(x.axes is None for x in real):
            return Arr(vk, None, None)
        if all(len(x.axes) == 1 for x in real):
            ax = real[0].axes[0]
            if any(self.compat(x.axes[0], ax) is False for x in real):
                return Arr(vk, None, ("rows", tuple(real)))
            return Arr(vk, (("pos", sp.Integer(len(real))), ax), ("rows", tuple(real)))
        if all(len(x.axes) in (1, 2) for x in items if x.axes is not None) and any(len(x.axes) == 2 for x in real):
            # rows (1-d) and row blocks (2-d) over one common last axis; a plain [n] axis adopts the structured layout of its neighbours
            items = [x if x.axes is None or len(x.axes) == 2 else replace(x, axes=(("pos", sp.Integer(1)), x.axes[0])) for x in items]
            real = [x for x in items if x.vk != BOT]
            structured = [x.axes[-1] for x in real if not (isinstance(x.axes[-1], tuple) and x.axes[-1][0] == "pos")]
            last = structured[0] if structured else real[0].axes[-1]
            if any(x.axes[-1] != last and self.compat(x.axes[-1], last) is not True for x in real) or any(a_ != last for a_ in structured):
                return Arr(vk, None, None)
            tot = sp.Integer(0)
            for x in items:
                if x.axes is not None:
                    z = size_of(x.axes[0])
                    if z is None:
                        return Arr(vk, None, None)
                    tot += z
            return Arr(vk, (("pos", tot), last), None)
        return Arr(vk, None, None)

    def _templated(self, lv) -> Optional[Arr]:
        """np.hstack([x0, ...] + [piece(k) for k in range(T)]): x0 ++ T blocks of piece along the last axis"""
        if not (isinstance(lv, ListV) and lv.template is not None and lv.template[0] is not None and lv.template[0] in self.loops):
            return None
        sym, piece = lv.template
        if not isinstance(piece, Arr) or piece.axes is None or not all(isinstance(x, Arr) for x in lv.items):
            return None
        lo, hi, _n = self.loops[sym]
        z = size_of(piece.axes[-1])
        if z is None or sym in z.free_symbols:
            return None
        rep_ax = flat_prod([("pos", sp.expand(hi - lo)), piece.axes[-1]])
        block = Arr(piece.vk, tuple(piece.axes[:-1]) + (rep_ax,), None, piece.flags & {"signed", "unsigned", "bool"})
        return self._cat_last(list(lv.items) + [block])

    def f_hstack(self, c, argv):
        if argv and isinstance(argv[0], ListV) and argv[0].template is not None:
            return self._templated(argv[0])
        it = self._seq_items(c, argv)
        return self._cat_last(it) if it is not None else None

    def f_concatenate(self, c, argv):
        ax = kwarg(c, "axis") or (c.args[1] if len(c.args) > 1 else None)
        if argv and isinstance(argv[0], ListV) and argv[0].template is not None:
            t_ = self._templated(argv[0])
            if t_ is None or t_.axes is None:
                return t_
            axv0 = self.ev(ax) if ax is not None else None
            if ax is None and len(t_.axes) == 1:
                return t_
            if isinstance(axv0, Int) and axv0.p.is_Integer and int(axv0.p) % len(t_.axes) == len(t_.axes) - 1:
                return t_
            return Arr(t_.vk, None, None)
        it = self._seq_items(c, argv)
        if it is None:
            return None
        if ax is None and all(isinstance(x, Arr) and x.axes is not None and len(x.axes) == 1 for x in it if isinstance(x, Arr) and x.vk != BOT):
            return self._cat_last(it)
        axv = self.ev(ax) if ax is not None else None
        if isinstance(axv, Int) and axv.p.is_Integer and all(isinstance(x, Arr) for x in it):
            nd_ = {len(x.axes) for x in it if x.axes is not None}
            if len(nd_) == 1:
                k = int(axv.p) % nd_.pop()
                real = [x for x in it if x.axes is not None]
                if real and k == len(real[0].axes) - 1:
                    return self._cat_last(it)
                if real and k == 0 and len(real[0].axes) == 2:
                    return self._stack0(it)
        return None

    def f_append(self, c, argv):
        if len(argv) >= 2 and kwarg(c, "axis") is None and all(isinstance(x, (Arr, Int)) for x in argv[:2]):
            items = [x if isinstance(x, Arr) else Arr(x.kind, (("pos", sp.Integer(1)),), None) for x in argv[:2]]
            return self._cat_last(items)
        return None

    def f_vstack(self, c, argv):
        it = self._seq_items(c, argv)
        self._last_vstack = (c, it)
        return self._stack0(it) if it is not None else None

    def f_tile(self, c, argv):
        if len(argv) == 1 and kwarg(c, "reps") is not None:
            argv = [argv[0], self.ev(kwarg(c, "reps"))]
        if len(argv) == 2 and isinstance(argv[0], Arr) and argv[0].axes is not None and len(argv[0].axes) == 2 and isinstance(argv[1], Int):
            a = argv[0]   # an integer repetition tiles the LAST axis
            return Arr(a.vk, (a.axes[0], flat_prod([("pos", argv[1].p), a.axes[1]])), ("tile", a.ident, argv[1].p), a.flags & {"signed", "unsigned"})
        if len(argv) != 2 or not isinstance(argv[0], Arr) or argv[0].axes is None or len(argv[0].axes) != 1:
            return None
        a, reps = argv
        if isinstance(reps, Int):
            return Arr(a.vk, (flat_prod([("pos", reps.p), a.axes[0]]),), ("tile", a.ident, reps.p), a.flags & {"idmap", "signed", "unsigned"})
        if isinstance(reps, Tup) and len(reps.items) == 2 and all(isinstance(x, Int) for x in reps.items) and reps.items[1].p == 1:
            return Arr(a.vk, (("pos", reps.items[0].p), a.axes[0]), ("tile2", a.ident, reps.items[0].p), a.flags & {"idmap"})
        return None

    def f_repeat(self, c, argv):
        if len(argv) == 1 and kwarg(c, "repeats") is not None:
            argv = [argv[0], self.ev(kwarg(c, "repeats"))]
        axr = self.ev(kwarg(c, "axis")) if kwarg(c, "axis") is not None else None
        if len(argv) == 2 and isinstance(argv[0], Arr) and argv[0].axes is not None and len(argv[0].axes) == 2 and isinstance(argv[1], Int) \
                and isinstance(axr, Int) and axr.p.is_Integer and int(axr.p) in (1, -1):
            a = argv[0]
            return Arr(a.vk, (a.axes[0], flat_prod([a.axes[1], ("pos", argv[1].p)])), ("repeat", a.ident, argv[1].p), a.flags & {"signed", "unsigned"})
        if len(argv) != 2 or not isinstance(argv[0], Arr) or argv[0].axes is None or len(argv[0].axes) != 1 or kwarg(c, "axis") is not None:
            return None
        a, reps = argv
        if isinstance(reps, Int):
            return Arr(a.vk, (flat_prod([a.axes[0], ("pos", reps.p)]),), ("repeat", a.ident, reps.p), a.flags & {"idmap"})
        return None

    # ---- layout
    def ravel(self, v: Arr, order: str):
        if v.axes is None or order == "?":
            return Arr(v.vk, None, None)
        if len(v.axes) == 1:
            return replace(v, flags=v.flags - {"maybe0d", "col"})
        if "col" in v.flags and len(v.axes) == 2:
            return replace(v, axes=v.axes[:1], flags=v.flags - {"col", "maybe0d"})
        axes = v.axes if order == "C" else tuple(reversed(v.axes))
        return Arr(v.vk, (flat_prod(axes),), ("ravel", v.ident, order) if v.ident is not None else None,
                   v.flags & {"signed", "unsigned", "idmap"}, v.val)

    def f_ravel(self, c, argv):
        return self.ravel(argv[0], self.order_of(c, 1)) if argv and isinstance(argv[0], Arr) else None

    def reshape(self, c: ast.AST, v: Arr, shp: ast.expr, order: str):
        tv = self.ev(shp)
        items = list(tv.items) if isinstance(tv, Tup) else [tv]
        if order == "?" or not all(isinstance(x, Int) for x in items):
            return Arr(v.vk, None, None)
        sizes = [x.p for x in items]
        # per-column slots of a compressed matrix:  M.indices.reshape((k, n_cols), order='F')
        if v.axes is not None and len(v.axes) == 1 and isinstance(v.axes[0], tuple) and v.axes[0][0] == "ent" and len(sizes) == 2 and order == "F":
            m = self.mats.get(v.axes[0][1])
            if m is not None and m.fmt in ("csc", "csr"):
                line = m.ck if m.fmt == "csc" else m.rk
                if sizes[1] == -1 or _z(sizes[1] - size_of(line)):
                    k = sizes[0] if sizes[0] != -1 else S(f"slots{self.site(c)}")
                    return Arr(v.vk, (("pos", k), line), ("slots", v.ident))
            return Arr(v.vk, None, None)
        if v.axes is None:
            return Arr(v.vk, None, None)
        if len(sizes) == 1 and sizes[0] == -1:
            return self.ravel(v, order)
        src = list(v.axes) if order == "C" else list(reversed(v.axes))
        comps: list = []
        for a in src:
            comps.extend(a[1] if isinstance(a, tuple) and a[0] == "prod" else [a])
        tgt = sizes if order == "C" else list(reversed(sizes))
        out, i = [], 0
        for k, sz in enumerate(tgt):
            grp = []
            if sz == -1:
                rest_needed = len(tgt) - k - 1
                if rest_needed:
                    return Arr(v.vk, None, None)
                grp = comps[i:]
                i = len(comps)
            else:
                acc = sp.Integer(1)
                while i < len(comps) and (not _z(acc - sz)):
                    z = size_of(comps[i])
                    if z is None:
                        return Arr(v.vk, None, None)
                    acc = acc * z
                    grp.append(comps[i])
                    i += 1
                if (not _z(acc - sz)):
                    return Arr(v.vk, None, None)
            if not grp:
                grp = [("pos", sp.Integer(1))]
            out.append(flat_prod(grp))
        if i != len(comps):
            return Arr(v.vk, None, None)
        axes = tuple(out) if order == "C" else tuple(reversed(out))
        return Arr(v.vk, axes, ("reshape", v.ident, tuple(str(s_) for s_ in sizes), order) if v.ident is not None else None,
                   v.flags & {"signed", "unsigned", "idmap"}, v.val)

    def f_reshape(self, c, argv):
        if argv and isinstance(argv[0], Arr) and len(c.args) >= 2:
            return self.reshape(c, argv[0], c.args[1], self.order_of(c, 2))
        return None

    def f_swapaxes(self, c, argv):
        if len(argv) == 3 and isinstance(argv[0], Arr) and argv[0].axes is not None and all(isinstance(x, Int) and x.p.is_Integer for x in argv[1:]):
            ax = list(argv[0].axes)
            i, j = int(argv[1].p), int(argv[2].p)
            if max(i, j) < len(ax):
                ax[i], ax[j] = ax[j], ax[i]
                return replace(argv[0], axes=tuple(ax), ident=None)
        return None

    def f_transpose(self, c, argv):
        if len(argv) == 1 and isinstance(argv[0], Arr) and argv[0].axes is not None:
            return replace(argv[0], axes=tuple(reversed(argv[0].axes)), ident=None)
        if len(argv) == 2 and isinstance(argv[0], Arr) and argv[0].axes is not None and isinstance(argv[1], Tup) \
                and all(isinstance(x, Int) and x.p.is_Integer for x in argv[1].items) and len(argv[1].items) == len(argv[0].axes):
            return replace(argv[0], axes=tuple(argv[0].axes[int(x.p)] for x in argv[1].items), ident=None)
        if len(argv) == 1 and isinstance(argv[0], Mat):
            return self.transpose(argv[0])
        return None

    def f_meshgrid(self, c, argv):
        ix = kwarg(c, "indexing")
        mode = "xy" if ix is None else (ix.value if isinstance(ix, ast.Constant) else "?")
        if mode not in ("xy", "ij") or not all(isinstance(a, Arr) and a.axes is not None and len(a.axes) == 1 for a in argv) or len(argv) < 2:
            return None
        axs = [a.axes[0] for a in argv]
        if mode == "xy":
            axs[0], axs[1] = axs[1], axs[0]
        return Tup(tuple(Arr(a.vk, tuple(axs), None, frozenset(), a.val) for a in argv))

    def f_ravel_multi_index(self, c, argv):
        if argv and isinstance(argv[0], Arr):
            return Arr(None, None, ("rmi", argv[0].ident, u(kwarg(c, "dims") or (c.args[1] if len(c.args) > 1 else c))))
        return None

    def f_unravel_index(self, c, argv):
        if len(argv) == 2 and isinstance(argv[0], Int):
            return Opaque("unravel", (argv[0], argv[1], c.args[1]))
        return None

    # ---- elementwise
    def _same(self, c, argv):
        v = argv[0] if argv else None
        if isinstance(v, Arr):
            return Arr(None, v.axes, None, v.flags & {"unsigned"}, None)
        return v if isinstance(v, Dims) else None

    def f_floor(self, c, argv):
        v = argv[0] if argv else None
        if isinstance(v, Dims):
            return Dims(lambda i, _v=v: sp.floor(_v.base(i)), f"floor({v.name})")
        if isinstance(v, Int):
            return Int(sp.floor(v.p))
        return self._same(c, argv)

    def f_ceil(self, c, argv):
        v = argv[0] if argv else None
        if isinstance(v, Dims):
            return Dims(lambda i, _v=v: sp.ceiling(_v.base(i)), f"ceil({v.name})")
        if isinstance(v, Int):
            return Int(sp.ceiling(v.p))
        return self._same(c, argv)

    def f_abs(self, c, argv):
        v = argv[0] if argv else None
        if isinstance(v, Mat):
            m = replace(v, signed=False, alias="fresh", mid=("abs", v.mid), fmt=v.fmt)
            self.mats[m.mid] = replace(m)
            # abs keeps the sparsity structure: same entries space as the argument
            self.mats[m.mid] = m
            return m
        if isinstance(v, Arr):
            return Arr(None, v.axes, ("abs", v.ident) if v.ident else None, (v.flags - {"signed"}) | {"unsigned"})
        return None

    f_absolute = f_abs

    def f_argmax(self, c, argv):
        v = argv[0] if argv else None
        axes = v.axes if isinstance(v, (Arr, Mask)) else None
        ax = self.ev(kwarg(c, "axis") or (c.args[1] if len(c.args) > 1 else None))
        if axes is None or not (isinstance(ax, Int) and ax.p.is_Integer) or len(axes) != 2:
            return None
        i = int(ax.p) % 2
        return Arr(axes[i], (axes[1 - i],), None)

    f_argmin = f_argmax

    def f_cumsum(self, c, argv):
        v = argv[0] if argv else None
        return Arr(None, v.axes, ("cumsum", v.ident) if v.ident else None) if isinstance(v, Arr) else None

    def f_diff(self, c, argv):
        v = argv[0] if argv else None
        if not isinstance(v, Arr) or v.axes is None:
            return None
        ax = self.ev(kwarg(c, "axis") or (c.args[2] if len(c.args) > 2 else None))
        i = int(ax.p) if isinstance(ax, Int) and ax.p.is_Integer else -1
        axes = list(v.axes)
        z = size_of(axes[i])
        axes[i] = ("pos", z - 1) if z is not None and axes[i][0] == "pos" else ("diff", axes[i])
        return Arr(None, tuple(axes), ("diff", v.ident, i))

    def f_logical_and(self, c, argv):
        if len(argv) == 2 and all(isinstance(a, Mask) for a in argv):
            return Mask(argv[0].axes if argv[0].axes == argv[1].axes else self.broadcast(argv[0].axes, argv[1].axes), u(c))
        return None

    f_logical_or = f_logical_and

    def f_logical_not(self, c, argv):
        v = argv[0] if argv else None
        return Mask(v.axes, v.key, not v.pol) if isinstance(v, Mask) else None

    def f_all(self, c, argv):
        v = argv[0] if argv else None
        if isinstance(v, Mask):
            ax = self.ev(kwarg(c, "axis") or (c.args[1] if len(c.args) > 1 else None))
            if isinstance(ax, Int) and ax.p.is_Integer and v.axes is not None:
                axes = tuple(a for k, a in enumerate(v.axes) if k != int(ax.p) % len(v.axes))
                return Mask(axes, u(c))
            return Opaque("boolred", (call_name(c), v))
        return None

    f_any = f_all

    def f_prod(self, c, argv):
        v = argv[0] if argv else None
        if isinstance(v, Tup) and all(isinstance(x, Int) for x in v.items):
            r = sp.Integer(1)
            for x in v.items:
                r = r * x.p
            return Int(r)
        if isinstance(v, Dims):
            return Opaque("dimsprod", v)
        return None

    def f_len(self, c, argv):
        v = argv[0] if argv else None
        if isinstance(v, Arr) and v.axes:
            return self.int_of_space(v.axes[0])
        return None

    def f_int(self, c, argv):
        return argv[0] if argv and isinstance(argv[0], Int) else None

    def f_hasattr(self, c, argv):
        return Opaque("hasattr", (argv[0] if argv else None, c.args[1].value if len(c.args) > 1 and isinstance(c.args[1], ast.Constant) else None))

    def f_isinstance(self, c, argv):
        return Opaque("isinstance")

    # ---- sparse constructors
    def _sparse_ctor(self, c: ast.Call, argv, fmt: str):
        shape = self.ev(kwarg(c, "shape") or (c.args[1] if len(c.args) > 1 else None))
        a0 = argv[0] if argv else None
        if isinstance(a0, Mat):
            if fmt == "coo":
                return replace(a0, fmt=None, mid=("conv", a0.mid, "coo"))
            if a0.fmt == fmt:
                return replace(a0, alias="fresh")
            m = Mat(a0.rk, a0.ck, a0.signed, fmt, ("conv", a0.mid, fmt))
            self.mats[m.mid] = m
            return m
        if isinstance(a0, Mask) and a0.axes is not None and len(a0.axes) == 2:
            return None
        if not isinstance(a0, Tup):
            self.ctors.append((c, fmt, None, {"kind": "other"}))
            return None

        def sign_of(dv):
            if isinstance(dv, Arr):
                if "unsigned" in dv.flags or "bool" in dv.flags:
                    return False
                if "signed" in dv.flags:
                    return True
            return None
        mid = ("ctor", self.site(c))
        if len(a0.items) == 3 and fmt in ("csc", "csr"):
            data, ind, ptr = a0.items
            own = None
            if isinstance(ptr, Arr) and isinstance(ptr.ident, tuple) and ptr.ident and ptr.ident[0] == "indptr":
                own = self.mats.get(ptr.ident[1])
            facts = {"kind": "compressed", "data": data, "indices": ind, "indptr": ptr, "owner": own, "shape": shape}
            rk = ck = None
            if isinstance(ind, Arr):
                if fmt == "csc":
                    rk = ind.vk
                    ck = (own.ck if own is not None and own.fmt == "csc" else None)
                else:
                    ck = ind.vk
                    rk = (own.rk if own is not None and own.fmt == "csr" else None)
            m = Mat(rk, ck, sign_of(data), fmt, mid)
            if own is not None:
                # built on the pointer array of `own`: same column structure (provenance)
                m = replace(m, mid=("like", own.mid, self.site(c)))
                self.ent_alias = getattr(self, "ent_alias", {})
                self.ent_alias[m.mid] = own.mid
            self.mats[m.mid] = m
            self.ctors.append((c, fmt, m, facts))
            return m
        if len(a0.items) == 2 and isinstance(a0.items[1], Tup) and len(a0.items[1].items) == 2:
            data, (rows, cols) = a0.items[0], a0.items[1].items
            facts = {"kind": "triplet", "data": data, "rows": rows, "cols": cols, "shape": shape}
            m = Mat(rows.vk if isinstance(rows, Arr) else None, cols.vk if isinstance(cols, Arr) else None, sign_of(data),
                    fmt if fmt != "coo" else None, mid)
            self.mats[m.mid] = m
            self.ctors.append((c, fmt, m, facts))
            return m
        self.ctors.append((c, fmt, None, {"kind": "other"}))
        return None

    def f_csc_matrix(self, c, argv):
        return self._sparse_ctor(c, argv, "csc")

    def f_csr_matrix(self, c, argv):
        return self._sparse_ctor(c, argv, "csr")

    def f_coo_matrix(self, c, argv):
        return self._sparse_ctor(c, argv, "coo")

    f_csc_array, f_csr_array, f_coo_array = f_csc_matrix, f_csr_matrix, f_coo_matrix

    def f_identity(self, c, argv):
        if argv and isinstance(argv[0], Int):
            s_ = self.space_from_size(argv[0].p)
            fm = kwarg(c, "format")
            m = Mat(s_, s_, False, fm.value if isinstance(fm, ast.Constant) else None, ("eye", self.site(c)))
            self.mats[m.mid] = m
            return m
        return None

    # ---- porepy helpers (trusted conventions, see META)
    def f_slice_sparse_matrix(self, c, argv):
        if len(argv) < 2 or not isinstance(argv[0], Mat):
            return None
        A, iv = argv[0], argv[1]
        if A.fmt not in ("csc", "csr"):
            return None
        idn = self.ident_of(iv, c.args[1])
        if A.fmt == "csc":
            self.check_index(c, A, A.ck, iv)
            m = Mat(A.rk, ("sel", idn), A.signed, "csc", ("cols", A.mid, idn))
        else:
            self.check_index(c, A, A.rk, iv)
            m = Mat(("sel", idn), A.ck, A.signed, "csr", ("rows", A.mid, idn))
        self.mats[m.mid] = m
        return m

    def f_rldecode(self, c, argv):
        if len(argv) == 2 and isinstance(argv[0], Arr):
            return Arr(argv[0].vk, (("rld", self.site(c)),), None)
        return None

    def f_sparse_array_to_row_col_data(self, c, argv):
        if argv and isinstance(argv[0], Mat):
            m = argv[0]
            ent = ("ent", ("coo", m.mid))
            return Tup((Arr(m.rk, (ent,), ("row", m.mid)), Arr(m.ck, (ent,), ("col", m.mid)),
                        Arr(None, (ent,), ("data", m.mid), frozenset({"signed"} if m.signed else set()))))
        return None

    f_find = f_sparse_array_to_row_col_data

    def f_expand_indices_nd(self, c, argv):
        if len(argv) >= 2 and isinstance(argv[0], Arr) and isinstance(argv[1], Int) and argv[0].axes is not None and len(argv[0].axes) == 1:
            a, nd = argv[0], argv[1].p
            vk = flat_prod([a.vk, ("pos", nd)]) if a.vk is not None else None
            return Arr(vk, (flat_prod([a.axes[0], ("pos", nd)]),), ("expand", a.ident, str(nd)))
        return None

    def _new_grid(self, c: ast.Call, argv, params: list[str], kind: str):
        bound = {}
        for nm, (a, v) in zip(params, zip(c.args, argv)):
            bound[nm] = (a, v)
        for k in c.keywords:
            if k.arg is not None:
                bound[k.arg] = (k.value, self.ev(k.value))
        g = GridV(f"h{self.site(c)}")
        sp_ = {}
        fn_, cf_ = bound.get("face_nodes", (None, None))[1], bound.get("cell_faces", (None, None))[1]
        if isinstance(fn_, Mat):
            sp_["N"] = fn_.rk
            sp_["F"] = fn_.ck
        if isinstance(cf_, Mat):
            sp_.setdefault("F", cf_.rk)
            sp_["C"] = cf_.ck
        self.grid_spaces[g.name] = {k: v for k, v in sp_.items() if v is not None}
        self.grids.append((c, g, bound, kind))
        return g

    def f_Grid(self, c, argv):
        return self._new_grid(c, argv, GRID_CTOR_PARAMS, "Grid")

    def f_PointGrid(self, c, argv):
        return self._new_grid(c, argv, ["pt", "name"], "PointGrid")

    def f_TensorGrid(self, c, argv):
        return self._new_grid(c, argv, ["x", "y", "z", "name"], "TensorGrid")

    def f_TriangleGrid(self, c, argv):
        return self._new_grid(c, argv, ["p", "tri", "name"], "TriangleGrid")


def subst_val(v, sym, by):
    """value with the loop symbol replaced (list templates instantiated at a constant position)"""
    if sym is None or v is None:
        return v
    def sx(x):
        if isinstance(x, sp.Basic):
            return x.subs(sym, by)
        if isinstance(x, tuple):
            return tuple(sx(y) for y in x)
        return x
    if isinstance(v, Int):
        return Int(sx(v.p), sx(v.kind))
    if isinstance(v, Arr):
        return Arr(sx(v.vk), sx(v.axes), sx(v.ident), v.flags, sx(v.val) if v.val is not None else None)
    return v


def view_of(mod, qual: str, inline: bool = True) -> ast.FunctionDef:
    """normalised copy of a module-level function: one level of private same-module helpers inlined (c34.normalise),
    public functions kept atomic"""
    fn = mod.func(qual)
    if not inline:
        return copy.deepcopy(fn)
    public = {st.name for st in mod.tree.body if isinstance(st, ast.FunctionDef) and not st.name.startswith("_")}
    once = normalise(mod, fn, cls=None, exclude=frozenset(public))
    # a second level: a maintainer may wrap code that already used a private helper into another private helper
    return normalise(mod, once, cls=None, exclude=frozenset(public))


# =====================================================================================
#  C22 rules
# =====================================================================================

META = {
    "explanation": (
        "Abstract interpretation of grids/partition.py over index spaces (no execution). "
        "R1 extract_subgrid (private helpers inlined): the cell-face sub-matrix is g.cell_faces with columns = the requested cells "
        "(one and the same ordered selection after the bool->index and sort normalisations) and rows = the unique faces of those "
        "columns; the face-node sub-matrix is g.face_nodes with columns = that same unique-face array and rows = its unique nodes; the "
        "new Grid receives nodes = g.nodes[:, unique nodes] and the two sub-matrices in the node/face/cell slots so that all three "
        "numberings agree; every geometric field copied to the child is the SAME field of the parent gathered along its last axis "
        "with the selection that defines the child's numbering of that entity kind (cells: the requested cells in the order used for "
        "the matrix columns; faces / nodes: the returned maps); parent_cell_ind is that cell selection; the returned maps are the row "
        "selections of the sub-matrices, faces second, nodes third. "
        "R2 _extract_submatrix: the format is established before compressed arrays are read; data, indices and indptr of the result "
        "come from one sliced matrix; the new indices are the INVERSE map of np.unique applied to the sliced indices and the returned "
        "map is the unique-values array of the same call; shape = (unique rows, selected columns). "
        "R3 face-extraction siblings (2d, 3d, 1d): columns of g.face_nodes selected by the given faces, child nodes = "
        "g.nodes[:, unique nodes], child cell_volumes/cell_centers taken from the parent's face_areas/face_centers at the given faces, "
        "parent_face_ind and the second returned value are the given faces, the third is the node map. "
        "R4 partition_structured, specialised per grid dimension d in the set supported by TensorGrid (read from structured.py): the "
        "returned array is bound on the path taken for d (today no arm exists for d=1); the per-direction coarse index takes at most "
        "coarse_dims[i] values - decided symbolically for the accepted idioms (slice to coarse_dims[i], clamp, floor(j*C/F)) and "
        "REFUTED with a witness (F, C) computed from the extracted closed form otherwise (today: arange(0,F,floor(F/C)) truncated by "
        "at most one entry); the flat coarse id is the mixed-radix number sum_k J_k * prod_{j<k} coarse_dims[j] (sympy identity on the "
        "extracted formula); the array is flattened x-fastest (meshgrid/swapaxes/ravel axis calculus) as TensorGrid numbers its cells. "
        "R5 partition_coordinates: trip count, unravel_index dims and the box width all use ONE coarse-dimension vector, the stored id "
        "is the loop index, the boxes are half-open [lower, upper) with upper(ind) == lower(ind+1) (sympy). "
        "R6 producer/consumer agreement inside the module: a function all of whose returns are k-tuples is never used as a truth value "
        "and is unpacked into k targets (today `if not grid_is_connected(..)` tests a non-empty tuple: the connectivity check of "
        "partition_coordinates can never fire); partition_grid appends grid / face map / node map to the lists it returns in that order. "
        "R7 overlap: each criterion arm loops exactly num_layers times; entity and cell activations are typed (matrix column space = "
        "space of the multiplied indicator, stores use indices of the stored array's space); a `> 0` threshold is only applied to "
        "products of sign-free matrices; inside the layer loop the active cell set keeps its previous members (in-place truthy stores or an "
        "explicit union - re-binding it to the cells reached through the activated nodes/faces drops the cells of a 0-d grid, which have "
        "neither); a sign-free incidence rebuilt from the index arrays of a grid matrix is given that matrix' shape (nothing can be inferred "
        "for a grid without faces); the returned index set is a "
        "proper 1-d array for every size (today np.sort(np.squeeze(argwhere)) fails for a single cell). "
        "R8 grid_is_connected restricts cell_connection_map with the same selection on rows and columns. "
        "R9 subgrid_to_grid_mapping: row/column index arrays and the shape slots of the four maps agree in space and size. "
        "Not decided: values of recomputed geometry, the incidence signs/orientation built by the face-extraction helpers, "
        "metis, connectedness of partitions, floating point coverage of the coordinate boxes, determine_coarse_dimensions."),
    "rule_text": "one obligation per typed gather/product/constructor/field copy/returned map/arm/dimension/consumer site",
    "trusted_base": ["python ast", "sa.core", "sa.rules.c34.normalise (private same-module helpers inlined, up to two levels)", "sympy as term normaliser",
                     "Grid: cell_faces is faces x cells (csc, signed), face_nodes nodes x faces (csc), cell_nodes() nodes x cells (csc); "
                     "field table nodes/cell_centers/face_centers/face_normals (3 x n), cell_volumes/face_areas (n)",
                     "slice_sparse_matrix(A, ind) = A[:, ind] (csc) in the order of ind (C35)",
                     "numpy: unique/where/argwhere/squeeze/sort/meshgrid/swapaxes/ravel/reshape/tile/repeat semantics (tables in KI)",
                     "TensorGrid numbers cells x-fastest"],
    "assumptions": ["the requested cells `c` are an index array or a boolean mask over the cells",
                    "an array or matrix whose provenance cannot be traced is never a finding: the rule refuses (exit 2), unless the same rule "
                    "has already reported a contradiction upstream (then it is a note)",
                    "witness search for R4 evaluates the extracted closed form count(F, C) for 1 <= C <= F <= 24 (a witness refutes; "
                    "absence of a witness is never taken as proof)"],
    "technique": "index-space type inference with contradiction detection (abstract interpretation over AST) + extracted-formula "
                 "identities (sympy) + dimension-specialised path analysis",
}
MIN_INSTANCES = {"R1": 26, "R2": 7, "R3": 20, "R4": 8, "R5": 7, "R6": 11, "R7": 15, "R8": 4, "R9": 12}


def _reporter(ctx: Ctx, rule: str, mod, q: str):
    def report(kind, ok, node, msg, facts):
        facts = dict(facts or {})
        cons = facts.pop("construct", None) or ("np.sort receives an array that is 1-d for every selection size" if kind == "rank" else None)
        ctx.check(rule, ok, mod, q, node, msg if not ok else f"{kind}: {msg}", construct=cons,
                  facts={"kind": kind, **{k: str(v) for k, v in facts.items()}})
    return report


def origin(mid) -> Any:
    """the grid matrix a derived matrix id comes from (through slicing, conversion, rebuilt triples)"""
    while isinstance(mid, tuple) and mid and mid[0] in ("cols", "rows", "conv", "like", "T", "abs", "scaled", "ctor_from"):
        mid = mid[1]
    return mid


def root_param(ident, phi_src: Optional[dict] = None, depth: int = 12) -> Optional[str]:
    """name of the parameter an ordered selection is derived from (through where / sort / joins of such)"""
    if not isinstance(ident, tuple) or not ident or depth <= 0:
        return None
    if ident[0] == "param":
        return ident[1]
    if ident[0] in ("sorted", "where", "truthy", "mask"):
        return root_param(ident[1], phi_src, depth - 1)
    if ident[0] == "phi" and phi_src and ident in phi_src:
        roots = {root_param(x, phi_src, depth - 1) for x in phi_src[ident]}
        return roots.pop() if len(roots) == 1 else None
    if ident[0] == "umap" and phi_src and ("usrc", ident[1]) in phi_src:
        return root_param(phi_src[("usrc", ident[1])], phi_src, depth - 1)   # np.unique(c): sorted, duplicates removed
    return None


def _main_return(ki: KI, arity: int):
    rets = [(s, v) for s, v in ki.returns if isinstance(v, Tup) and len(v.items) == arity and isinstance(v.items[0], GridV)]
    return rets[0] if len(rets) == 1 else None


def _ctor_of(ki: KI, g: GridV):
    for c, gv, bound, kind in ki.grids:
        if gv == g:
            return c, bound, kind
    return None


def _compressed_lockstep(ctx: Ctx, rule: str, mod, q: str, ki: KI, want_inverse: bool = True) -> int:
    """every (data, indices, indptr) constructor: all three from one matrix; indices = inverse map of unique(sliced.indices)"""
    n = 0
    for c, fmt, m, facts in ki.ctors:
        if facts.get("kind") != "compressed":
            continue
        data, ind, ptr, own = facts["data"], facts["indices"], facts["indptr"], facts["owner"]
        if own is None or not isinstance(ind, Arr) or not isinstance(data, Arr):
            raise Undecided(f"{mod.rel}:{q}: cannot type the compressed constructor `{u(c)[:80]}`")
        ent = ("ent", own.mid)
        n += 1
        ok_l = bool(data.axes and ind.axes and data.axes[-1] == ent and ind.axes[-1] == ent and fmt == own.fmt)
        ctx.check(rule, ok_l, mod, q, c,
                  f"data, indices and indptr of the sub-matrix must come from one and the same sliced {own.fmt} matrix "
                  f"(data on {fmt_space(last_axis(data))}, indices on {fmt_space(last_axis(ind))}, pointer of {fmt_ident(own.mid)}, format {fmt})",
                  construct="sub-matrix triple from one sliced matrix")
        if want_inverse:
            st = ind.ident[1] if isinstance(ind.ident, tuple) and ind.ident[0] == "inv" else None
            src = None
            for uc, s_, arg in ki.uniques:
                if s_ == st and isinstance(arg, Arr):
                    src = arg.ident
            ok_i = st is not None and src == ("indices", own.mid)
            ctx.check(rule, ok_i, mod, q, c,
                      "the row numbers of the sub-matrix must be the inverse map of np.unique applied to the sliced matrix' own indices "
                      f"(found indices = {fmt_ident(ind.ident)})", construct="sub-matrix indices = inverse map of unique(sliced indices)",
                      facts={"indices": fmt_ident(ind.ident)})
            shp = facts.get("shape")
            if isinstance(shp, Tup) and len(shp.items) == 2 and all(isinstance(x, Int) for x in shp.items) and st is not None:
                line = own.ck if fmt == "csc" else own.rk
                want = (size_of(("U", st)), size_of(line)) if fmt == "csc" else (size_of(line), size_of(("U", st)))
                ok_s = all(_z(a.p - b) for a, b in zip(shp.items, want))
                ctx.check(rule, ok_s, mod, q, c, f"shape of the sub-matrix must be (unique rows, selected columns); found {[str(x.p) for x in shp.items]}",
                          construct="sub-matrix shape")
    return n


def rule_extract_subgrid(ctx: Ctx, mod) -> None:
    q = "extract_subgrid"
    fn = view_of(mod, q)
    params = [a.arg for a in fn.args.args]
    if len(params) < 2:
        raise AnchorError(f"{PART}:{q}: signature changed ({params})")
    gname, cname = params[0], params[1]
    ki = KI(fn, f"{PART}:{q}", _reporter(ctx, "R1", mod, q))
    ki.env[gname] = GridV(gname)
    ki.env[cname] = Arr(E(gname, "C"), (("seq", ("param", cname)),), ("param", cname), frozenset({"selector"}))
    ki.run(fn.body)
    mr = _main_return(ki, 3)
    if mr is None:
        raise Undecided(f"{PART}:{q}: no single `return grid, face map, node map` could be typed")
    rs, rv = mr
    h = rv.items[0]
    cb = _ctor_of(ki, h)
    if cb is None or cb[2] != "Grid":
        raise Undecided(f"{PART}:{q}: the returned grid is not built by pp.Grid(...) in this function")
    cnode, bound, _ = cb
    n_lock = _compressed_lockstep(ctx, "R1", mod, q, ki)
    if n_lock < 2:
        raise Undecided(f"{PART}:{q}: expected two sub-matrix constructions, typed {n_lock}")
    fnm, cfm, nodes = (bound.get(k, (None, None))[1] for k in ("face_nodes", "cell_faces", "nodes"))
    if not (isinstance(fnm, Mat) and isinstance(cfm, Mat)):
        raise Undecided(f"{PART}:{q}: the matrices passed to pp.Grid could not be typed")
    chk = lambda ok, node, msg, cons, **f: ctx.check("R1", bool(ok), mod, q, node, msg, construct=cons, facts={k: str(v) for k, v in f.items()})
    for m_ in (cfm, fnm):
        if origin(m_.mid) not in (("cf", gname), ("fn", gname)):
            raise Undecided(f"{PART}:{q}: provenance of a matrix passed to pp.Grid unknown ({fmt_ident(origin(m_.mid))})")
    chk(origin(cfm.mid) == ("cf", gname) and cfm.signed is not False, cnode,
        f"the cell_faces slot of the new grid must receive a column selection of {gname}.cell_faces (origin {fmt_ident(origin(cfm.mid))})",
        "Grid(cell_faces=...) derives from parent.cell_faces")
    chk(origin(fnm.mid) == ("fn", gname), cnode,
        f"the face_nodes slot of the new grid must receive a column selection of {gname}.face_nodes (origin {fmt_ident(origin(fnm.mid))})",
        "Grid(face_nodes=...) derives from parent.face_nodes")
    csel = cfm.ck[1] if isinstance(cfm.ck, tuple) and cfm.ck[0] == "sel" else None
    if csel is not None and root_param(csel, ki.phi_src) is None:
        raise Undecided(f"{PART}:{q}: provenance of the column selection {fmt_ident(csel)} unknown")
    chk(csel is not None and root_param(csel, ki.phi_src) == cname, cnode,
        f"the columns of the cell-face sub-matrix must be the requested cells `{cname}` (found {fmt_space(cfm.ck)})",
        "columns of the cell-face sub-matrix = requested cells")
    chk(canon_space(fnm.ck) == canon_space(cfm.rk), cnode,
        f"faces of the child: the face-node sub-matrix has its columns on {fmt_space(canon_space(fnm.ck))} but the cell-face sub-matrix has "
        f"its rows on {fmt_space(canon_space(cfm.rk))}; both must be the unique faces of the requested cells (same np.unique result)",
        "columns of face_nodes sub-matrix = rows of cell_faces sub-matrix")
    if not (isinstance(nodes, Arr) and isinstance(nodes.ident, tuple) and nodes.ident[0] == "gather" and nodes.axes is not None):
        raise Undecided(f"{PART}:{q}: the node array passed to pp.Grid could not be traced ({fmt_val(nodes)})")
    ok_nodes = nodes.ident[:2] == ("gather", ("field", gname, "nodes")) and canon_space(nodes.axes[-1]) == canon_space(fnm.rk)
    chk(ok_nodes, cnode, f"nodes of the child must be {gname}.nodes[:, unique nodes] with the row selection of the face-node sub-matrix "
        f"(found {fmt_val(nodes)})", "Grid(nodes=...) = parent.nodes gathered with the rows of the face-node sub-matrix")
    spaces = {"N": canon_space(fnm.rk), "F": canon_space(cfm.rk), "C": canon_space(cfm.ck)}
    # copied fields
    table = {**{k: (v, 2) for k, v in GRID_FIELDS2.items()}, **{k: (v, 1) for k, v in GRID_FIELDS1.items()}}
    for s, recv, attr, val in ki.attr_stores:
        if recv != h:
            continue
        if attr in table:
            K, rank = table[attr]
            if not isinstance(val, Arr) or val.axes is None or not (isinstance(val.ident, tuple) and val.ident[0] == "gather"):
                raise Undecided(f"{PART}:{q}: cannot trace the value stored into .{attr} [{u(s)[:80]}]")
            src_ok = isinstance(val.ident, tuple) and val.ident[:2] == ("gather", ("field", gname, attr))
            chk(src_ok, s, f"child.{attr} must be a gather of the parent's own {attr} (found {fmt_ident(val.ident)})",
                f"child.{attr} copied from parent.{attr}")
            chk(len(val.axes) == rank and canon_space(val.axes[-1]) == spaces[K], s,
                f"child.{attr} must be numbered like the child's {fmt_space(E('child', K))}: its last axis lives on {fmt_space(canon_space(val.axes[-1]))}, "
                f"the child's {dict(C='cells', F='faces', N='nodes')[K]} are {fmt_space(spaces[K])} (a different order or selection shows for unsorted "
                f"or non-trivial requests only)", f"child.{attr} uses the selection that numbers the child's {dict(C='cells', F='faces', N='nodes')[K]}",
                axis=fmt_space(val.axes[-1]))
        elif attr == "parent_cell_ind":
            if not isinstance(val, Arr) or val.ident is None:
                raise Undecided(f"{PART}:{q}: cannot trace the value stored into .parent_cell_ind")
            ok = isinstance(val, Arr) and val.vk == E(gname, "C") and val.ident is not None and canon_space(("sel", val.ident)) == spaces["C"]
            chk(ok, s, f"parent_cell_ind must be the requested cells in the order used for the columns of the cell-face sub-matrix "
                f"(found {fmt_val(val)} / {fmt_ident(getattr(val, 'ident', None))}, columns {fmt_space(spaces['C'])})",
                "parent_cell_ind = cell selection used for the sub-matrix")
    for k, K, what in ((1, "F", "faces"), (2, "N", "nodes")):
        v = rv.items[k]
        if not isinstance(v, Arr) or v.ident is None:
            raise Undecided(f"{PART}:{q}: returned value {k} could not be traced ({fmt_val(v)})")
        ok = isinstance(v, Arr) and v.vk == E(gname, K) and isinstance(v.ident, tuple) and v.ident[0] == "umap" and ("U", v.ident[1]) == spaces[K]
        chk(ok, rs, f"returned value {k} must be the array of unique {what} that numbers the child's {what} (global index of child {what[:-1]} i); "
            f"found {fmt_val(v)}", f"returned map {k} = row selection of the {what} sub-matrix")
    ctx.sample({"rule": "R1", "child spaces": {k: fmt_space(v) for k, v in spaces.items()}})


def rule_extract_submatrix(ctx: Ctx, mod) -> None:
    q = "_extract_submatrix"
    fn = view_of(mod, q)
    params = [a.arg for a in fn.args.args]
    if len(params) != 2:
        raise AnchorError(f"{PART}:{q}: signature changed ({params})")
    mname, iname = params
    ki = KI(fn, f"{PART}:{q}", _reporter(ctx, "R2", mod, q))
    m0 = Mat(E("m", "R"), E("m", "K"), None, "csc", ("param", mname))
    ki.mats[m0.mid] = m0
    ki.env[mname] = m0
    ki.env[iname] = Arr(E("m", "K"), (("seq", ("param", iname)),), ("param", iname))
    ki.run(fn.body)
    rets = [(s, v) for s, v in ki.returns if isinstance(v, Tup) and len(v.items) == 2]
    if len(rets) != 1:
        raise Undecided(f"{PART}:{q}: expected one `return matrix, row map`")
    rs, rv = rets[0]
    rm, rmap = rv.items
    if not isinstance(rm, Mat) or not isinstance(rmap, Arr):
        raise Undecided(f"{PART}:{q}: cannot type the returned pair ({fmt_val(rm)}, {fmt_val(rmap)})")
    st = rm.rk[1] if isinstance(rm.rk, tuple) and rm.rk[0] == "U" else None
    if rmap.ident is None or rm.rk is None or rm.ck is None or (isinstance(rm.ck, tuple) and rm.ck[0] == "sel" and isinstance(rm.ck[1], tuple)
                                                                  and rm.ck[1][0] == "anon"):
        raise Undecided(f"{PART}:{q}: the returned pair could not be traced ({fmt_val(rm)}, {fmt_ident(rmap.ident)})")
    ctx.check("R2", st is not None and rm.ck == ("sel", ("param", iname)) and origin(rm.mid) == ("param", mname), mod, q, rs,
              f"the returned matrix must have the requested columns `{iname}` of `{mname}` and its rows renumbered by np.unique (found {fmt_val(rm)})",
              construct="returned sub-matrix: unique rows x requested columns")
    ctx.check("R2", rmap.ident == ("umap", st) and st is not None, mod, q, rs,
              f"the returned map must be the unique-values array of the SAME np.unique call whose inverse renumbers the rows "
              f"(found {fmt_ident(rmap.ident)}): local row i <-> global row map[i]", construct="returned map = unique values of the renumbering call")
    # format established before the compressed arrays are read
    guards = [s for s in ast.walk(fn) if isinstance(s, ast.If) and any(isinstance(x, ast.Raise) for x in s.body)
              and "format" in u(s.test) and "csc" in u(s.test)]
    conv = [c for c in ast.walk(fn) if isinstance(c, ast.Call) and call_name(c) == "tocsc"]
    ctx.check("R2", bool(guards or conv), mod, q, fn,
              "the indices/indptr arrays are read as column-compressed: the function must reject or convert a matrix that is not csc",
              construct="format established (guard or conversion) before compressed arrays are read")
    _compressed_lockstep(ctx, "R2", mod, q, ki)


FACE_TO_CELL = {"cell_volumes": "face_areas", "cell_centers": "face_centers"}


def rule_face_siblings(ctx: Ctx, mod) -> None:
    for q in ("_extract_cells_from_faces_2d", "_extract_cells_from_faces_3d"):
        fn = view_of(mod, q)
        params = [a.arg for a in fn.args.args]
        gname, fname = params[0], params[1]
        ki = KI(fn, f"{PART}:{q}", _reporter(ctx, "R3", mod, q))
        ki.env[gname] = GridV(gname)
        fv = Arr(E(gname, "F"), (("seq", ("param", fname)),), ("param", fname))
        ki.env[fname] = fv
        ki.run(fn.body)
        mr = _main_return(ki, 3)
        if mr is None:
            raise Undecided(f"{PART}:{q}: no single `return grid, faces, nodes` could be typed")
        rs, rv = mr
        h = rv.items[0]
        cb = _ctor_of(ki, h)
        if cb is None:
            raise Undecided(f"{PART}:{q}: constructor of the returned grid not found")
        cnode, bound, _ = cb
        chk = lambda ok, node, msg, cons: ctx.check("R3", bool(ok), mod, q, node, msg, construct=cons)
        # node map: unique rows of g.face_nodes[:, f]
        nm = rv.items[2]
        if not isinstance(nm, Arr) or nm.ident is None or not isinstance(rv.items[1], Arr) or rv.items[1].ident is None:
            raise Undecided(f"{PART}:{q}: the returned maps could not be traced")
        st = nm.ident[1] if isinstance(nm, Arr) and isinstance(nm.ident, tuple) and nm.ident[0] == "umap" else None
        src = [arg for _c, s_, arg in ki.uniques if s_ == st and isinstance(arg, Arr)]
        ok_src = bool(src) and isinstance(src[0].ident, tuple) and src[0].ident[0] == "indices" \
            and src[0].ident[1] == ("cols", ("fn", gname), ("param", fname))
        chk(ok_src and isinstance(nm, Arr) and nm.vk == E(gname, "N"), rs,
            f"the returned node map must be the unique rows of {gname}.face_nodes restricted to the columns `{fname}` (found {fmt_val(nm)})",
            "node map = unique nodes of the selected faces")
        nodes = bound.get("nodes", (None, None))[1]
        if not (isinstance(nodes, Arr) and isinstance(nodes.ident, tuple) and nodes.ident[0] == "gather" and nodes.axes is not None):
            raise Undecided(f"{PART}:{q}: the node array of the lower-dimensional grid could not be traced")
        chk(isinstance(nodes, Arr) and isinstance(nodes.ident, tuple) and nodes.ident[:2] == ("gather", ("field", gname, "nodes"))
            and nodes.axes is not None and st is not None and canon_space(nodes.axes[-1]) == ("U", st), cnode,
            f"nodes of the lower-dimensional grid must be {gname}.nodes[:, node map] (found {fmt_val(nodes)})", "child nodes gathered with the node map")
        chk(isinstance(rv.items[1], Arr) and rv.items[1].ident == ("param", fname), rs,
            f"the second returned value must be the faces `{fname}` as given (found {fmt_ident(getattr(rv.items[1], 'ident', None))})",
            "returned faces = given faces")
        seen = set()
        for s, recv, attr, val in ki.attr_stores:
            if recv != h:
                continue
            if attr in FACE_TO_CELL:
                seen.add(attr)
                want = FACE_TO_CELL[attr]
                if not (isinstance(val, Arr) and isinstance(val.ident, tuple) and val.ident[0] == "gather" and val.axes is not None):
                    raise Undecided(f"{PART}:{q}: cannot trace the value stored into .{attr}")
                ok = isinstance(val, Arr) and isinstance(val.ident, tuple) and val.ident[:2] == ("gather", ("field", gname, want)) \
                    and val.axes is not None and canon_space(val.axes[-1]) == canon_space(("sel", ("param", fname)))
                chk(ok, s, f"child.{attr} must be {gname}.{want} at the given faces `{fname}`, in their order (found {fmt_ident(getattr(val, 'ident', None))})",
                    f"child.{attr} = parent.{want}[given faces]")
            elif attr == "parent_face_ind":
                seen.add(attr)
                if not isinstance(val, Arr) or val.ident is None:
                    raise Undecided(f"{PART}:{q}: cannot trace the value stored into .parent_face_ind")
                chk(isinstance(val, Arr) and val.ident == ("param", fname), s,
                    f"parent_face_ind must be the faces `{fname}` as given", "parent_face_ind = given faces")
        if not {"cell_volumes", "cell_centers"} <= seen:
            raise Undecided(f"{PART}:{q}: the face->cell geometry copies were not found ({sorted(seen)})")
    # 1d sibling: second returned value is the given face
    q = "_extract_cells_from_faces_1d"
    fn = view_of(mod, q)
    fname = fn.args.args[1].arg
    rets = [n for n in walk_local(fn) if isinstance(n, ast.Return) and isinstance(n.value, ast.Tuple) and len(n.value.elts) == 3]
    if len(rets) != 1:
        raise Undecided(f"{PART}:{q}: expected one 3-tuple return")
    e1 = rets[0].value.elts[1]
    ctx.check("R3", isinstance(e1, ast.Name) and e1.id == fname and not any(
        isinstance(t, ast.Name) and t.id == fname for s_ in ast.walk(fn) if isinstance(s_, ast.Assign) for t in s_.targets), mod, q, rets[0],
        f"the second returned value must be the given face `{fname}`", construct="returned faces = given faces")


# ------------------------------------------------------------------------------------------
#  R4 partition_structured
# ------------------------------------------------------------------------------------------

def tensor_dims(ctx: Ctx) -> list[int]:
    """dimensions supported by TensorGrid: lengths of the cart_dims vectors assigned in its constructor"""
    smod = ctx.repo.module(STRUCT)
    init = smod.func("TensorGrid.__init__")
    dims = set()
    for s in ast.walk(init):
        if isinstance(s, ast.Assign) and any(isinstance(t, ast.Attribute) and t.attr == "cart_dims" for t in s.targets):
            for c in ast.walk(s.value):
                if isinstance(c, ast.Call) and call_name(c) == "array" and c.args and isinstance(c.args[0], (ast.List, ast.Tuple)):
                    dims.add(len(c.args[0].elts))
    if not dims:
        raise AnchorError(f"{STRUCT}:TensorGrid.__init__: assignments of cart_dims not found")
    return sorted(dims)


_J = sp.IndexedBase("J", integer=True)
_CO = sp.IndexedBase("coarse", integer=True, positive=True)


class _PS(KI):
    def __init__(self, *a, **k):
        super().__init__(*a, **k)
        self.appended: list = []
        self.interp_private = True

    def on_append(self, c: ast.Call, v):
        sym = self._loopdepth[-1][0] if self._loopdepth else None
        self.appended = [x for x in self.appended if x[0] is not c] + [(c, v, sym)]
        if isinstance(v, Arr) and sym is not None:
            return replace(v, val=_J[sym])
        return v


def _coarse_dims_val(n: Optional[int] = None):
    return Dims(lambda i: _CO[i], "coarse_dims", n)


def _range_of_direction_index(ctx: Ctx, mod, q: str, fn: ast.FunctionDef, ki: "_PS", gname: str) -> None:
    """number of distinct per-direction coarse indices <= coarse_dims[i]"""
    if len(ki.appended) != 1:
        raise Undecided(f"{PART}:{q}: expected one per-direction index appended in the loop over the directions, found {len(ki.appended)}")
    call, _v, sym = ki.appended[0]
    if sym is None:
        raise Undecided(f"{PART}:{q}: the per-direction index is not appended inside a counted loop")
    loop = ki.loops[sym][2]
    cart = sp.IndexedBase(f"cart_{gname}", integer=True, positive=True)
    F, C = cart[sym], _CO[sym]
    cons = "per-direction coarse index takes at most coarse_dims[i] values"
    env_here = None
    pm = ki.pm
    a0 = call.args[0]
    if isinstance(a0, ast.Call) and isinstance(a0.func, ast.Name) and a0.func.id in ki.callee_env:
        # the per-direction computation lives in a private helper: analyse its body, in the environment of that call
        fd, env_here = ki.callee_env[a0.func.id]
        rets_ = [r for r in walk_local(fd) if isinstance(r, ast.Return) and r.value is not None]
        if len(rets_) != 1:
            raise Undecided(f"{PART}:{q}: helper {a0.func.id} has {len(rets_)} returns")
        loop = fd
        pm = parent_map(fd)
        call = ast.Call(func=ast.Name(id="append", ctx=ast.Load()), args=[rets_[0].value], keywords=[])
        ast.copy_location(call, rets_[0])
        ast.fix_missing_locations(call)

    def defs(name: str) -> list:
        return [s for s in ast.walk(loop) if isinstance(s, ast.Assign) and len(s.targets) == 1 and isinstance(s.targets[0], ast.Name)
                and s.targets[0].id == name]

    def resolve(e: ast.expr, depth: int = 4) -> ast.expr:
        while isinstance(e, ast.Name) and depth > 0:
            d = defs(e.id)
            if len(d) != 1:
                break
            e, depth = d[0].value, depth - 1
        return e

    def intval(e: ast.expr):
        if env_here is not None:
            saved, ki.env = ki.env, env_here
            try:
                v = ki.ev(e)
            finally:
                ki.env = saved
        else:
            v = ki.ev(e)
        return v.p if isinstance(v, Int) else None

    A = resolve(call.args[0])
    # accepted closed forms ------------------------------------------------------------------
    def is_arange_F(e):
        e = resolve(e)
        return isinstance(e, ast.Call) and call_name(e) == "arange" and len(e.args) == 1 and intval(e.args[0]) is not None \
            and _z(intval(e.args[0]) - F)
    inner = A
    if isinstance(inner, ast.Call) and call_name(inner) == "astype" and isinstance(inner.func, ast.Attribute):
        inner = inner.func.value
    if isinstance(inner, ast.Call) and call_name(inner) == "floor" and inner.args:
        inner = inner.args[0]
        floored = True
    else:
        floored = False
    if isinstance(inner, ast.BinOp) and isinstance(inner.op, (ast.Div, ast.FloorDiv)) and (floored or isinstance(inner.op, ast.FloorDiv)):
        num, den = inner.left, inner.right
        if isinstance(num, ast.BinOp) and isinstance(num.op, ast.Mult) and intval(den) is not None and _z(intval(den) - F):
            for a, b in ((num.left, num.right), (num.right, num.left)):
                if is_arange_F(a) and intval(b) is not None and _z(intval(b) - C):
                    ctx.check("R4", True, mod, q, call, "index = floor(j * coarse / fine), 0 <= j < fine: values in [0, coarse)", construct=cons)
                    return
    if isinstance(inner, ast.Call) and call_name(inner) == "minimum" and len(inner.args) == 2:
        for a, b in ((inner.args[0], inner.args[1]), (inner.args[1], inner.args[0])):
            if intval(b) is not None and _z(intval(b) - (C - 1)):
                ctx.check("R4", True, mod, q, call, "index clamped with minimum(., coarse - 1)", construct=cons)
                return
    # increment-position form:  cumsum(indicator of P) - 1 ------------------------------------------
    if not (isinstance(A, ast.BinOp) and isinstance(A.op, ast.Sub) and isinstance(A.right, ast.Constant) and A.right.value == 1
            and isinstance(A.left, ast.Call) and call_name(A.left) == "cumsum" and A.left.args and isinstance(A.left.args[0], ast.Name)):
        raise Undecided(f"{PART}:{q}: per-direction index `{u(call.args[0])[:80]}` is not a recognised form")
    Z = A.left.args[0].id
    stores = [s for s in ast.walk(loop) if isinstance(s, (ast.Assign, ast.AugAssign))
              and any(isinstance(t, ast.Subscript) and isinstance(t.value, ast.Name) and t.value.id == Z
                      for t in (s.targets if isinstance(s, ast.Assign) else [s.target]))]
    zdefs = defs(Z)
    if len(stores) != 1 or len(zdefs) != 1 or not (isinstance(zdefs[0].value, ast.Call) and call_name(zdefs[0].value) == "zeros"):
        raise Undecided(f"{PART}:{q}: indicator array `{Z}` is not zeros(..) with exactly one marking store")
    st = stores[0]
    tgt = st.targets[0] if isinstance(st, ast.Assign) else st.target
    if not (isinstance(st.value, ast.Constant) and st.value.value == 1 and isinstance(tgt.slice, ast.Name)):
        raise Undecided(f"{PART}:{q}: marking store `{u(st)}` not recognised")
    P = tgt.slice.id
    pdefs = defs(P)
    if not pdefs or not (isinstance(pdefs[0].value, ast.Call) and call_name(pdefs[0].value) == "arange"):
        raise Undecided(f"{PART}:{q}: increment positions `{P}` are not built by np.arange")
    ar = pdefs[0].value
    pos = [a for a in ar.args]
    if len(pos) == 1:
        start, stop, step = sp.Integer(0), intval(pos[0]), sp.Integer(1)
    elif len(pos) == 2:
        start, stop, step = intval(pos[0]), intval(pos[1]), sp.Integer(1)
    elif len(pos) == 3:
        start, stop, step = (intval(x) for x in pos)
    else:
        raise Undecided(f"{PART}:{q}: arange form not recognised")
    if None in (start, stop, step) or start != 0:
        raise Undecided(f"{PART}:{q}: cannot evaluate the bounds of `{u(ar)}` or it does not start at 0")
    trunc = ("none", None)
    if len(pdefs) == 2:
        d1 = pdefs[1]
        sl = d1.value.slice if isinstance(d1.value, ast.Subscript) and isinstance(d1.value.value, ast.Name) and d1.value.value.id == P else None
        par = pm.get(d1)
        guard = None
        if isinstance(par, ast.If) and any(d1 is x for x in par.body) and not par.orelse and isinstance(par.test, ast.Compare) \
                and len(par.test.ops) == 1 and isinstance(par.test.ops[0], ast.Gt):
            l = par.test.left
            is_size = (isinstance(l, ast.Attribute) and l.attr == "size" and isinstance(l.value, ast.Name) and l.value.id == P) or \
                (isinstance(l, ast.Call) and call_name(l) == "len" and l.args and isinstance(l.args[0], ast.Name) and l.args[0].id == P)
            if is_size:
                guard = intval(par.test.comparators[0])
        if isinstance(sl, ast.Slice) and sl.lower is None and sl.step is None and sl.upper is not None:
            up = intval(sl.upper)
            if up is not None and up == -1 and guard is not None:
                trunc = ("drop_last_if_gt", guard)
            elif up is not None and up != -1:
                trunc = ("first", up)
        if trunc[0] == "none":
            raise Undecided(f"{PART}:{q}: second definition of `{P}` (`{u(d1)}`) not recognised")
    elif len(pdefs) > 2:
        raise Undecided(f"{PART}:{q}: more than two definitions of `{P}`")
    count0 = sp.ceiling((stop - start) / step)
    # symbolic acceptance
    if trunc[0] == "first" and _z(trunc[1] - C):
        ctx.check("R4", True, mod, q, call, "increment positions sliced to the first coarse_dims[i] entries", construct=cons)
        return
    if trunc[0] == "none" and _z(stop - F) and step == sp.ceiling(F / C):
        ctx.check("R4", True, mod, q, call, "step = ceil(fine/coarse): ceil(F/ceil(F/C)) <= C", construct=cons)
        return
    # refutation by a witness of the extracted closed form
    witness = None
    for Fv in range(1, 25):
        for Cv in range(1, Fv + 1):
            sub = {F: Fv, C: Cv}
            try:
                sv = step.subs(sub)
                if not sv.is_Integer or sv <= 0:
                    continue
                n = int(sp.ceiling((stop.subs(sub) - 0) / sv))
                if trunc[0] == "drop_last_if_gt":
                    gv = int(trunc[1].subs(sub))
                    n = n - 1 if n > gv else n
                elif trunc[0] == "first":
                    n = min(n, int(trunc[1].subs(sub)))
            except (TypeError, ValueError, AttributeError):
                continue
            if n > Cv:
                witness = (Fv, Cv, n)
                break
        if witness:
            break
    if witness is None:
        raise Undecided(f"{PART}:{q}: cannot prove that the increment positions number at most coarse_dims[i] (no witness found either)")
    Fv, Cv, n = witness
    ctx.check("R4", False, mod, q, call,
              f"the coarse index along a direction is a running count of the positions arange(0, F, {step}) "
              f"({'at most one entry dropped when there are more than ' + str(trunc[1]) if trunc[0] == 'drop_last_if_gt' else 'truncation: ' + trunc[0]}); "
              f"their number {count0} exceeds coarse_dims[i] by more than the truncation removes: F={Fv}, C={Cv} gives {n} distinct indices "
              f"(ids reach {n - 1} >= {Cv}); the flat id then leaves [0, num_part) and different coarse cells collide",
              construct=cons, facts={"witness": {"fine": Fv, "coarse": Cv, "distinct": n}, "count": str(count0), "truncation": trunc[0]})


def rule_partition_structured(ctx: Ctx, mod) -> None:
    q = "partition_structured"
    fn = view_of(mod, q)
    params = [a.arg for a in fn.args.args]
    if len(params) < 3:
        raise AnchorError(f"{PART}:{q}: signature changed ({params})")
    gname, npart, cd = params[0], params[1], params[2]
    dims = tensor_dims(ctx)
    cart = sp.IndexedBase(f"cart_{gname}", integer=True, positive=True)
    did_range = False
    for d in dims:
        ki = _PS(fn, f"{PART}:{q}", _reporter(ctx, "R4", mod, q),
                 tuple_returning={"determine_coarse_dimensions": lambda k_, c_, a_, _d=d: _coarse_dims_val(_d)})
        ki.env[gname] = GridV(gname)
        ki.dim_value[gname] = d
        ki.env[npart] = Int(S("num_part"))
        ki.env[cd] = _coarse_dims_val(d)
        ki.run(fn.body)
        rets = [(s, v) for s, v in ki.returns]
        final = rets[-1] if rets else None
        unb = [n for n in ki.unbound if final is not None and any(n is x for x in ast.walk(final[0]))]
        ok = final is not None and not unb
        ctx.check("R4", ok, mod, q, final[0] if final else fn,
                  f"TensorGrid supports dimension {d} ({STRUCT}), but on the path taken for g.dim == {d} the returned array "
                  f"`{unb[0].id if unb else '?'}` is never assigned (no arm for this dimension: UnboundLocalError)",
                  construct=f"partition ids are produced for grid dimension {d}", facts={"dim": d})
        if not ok:
            continue
        v = final[1]
        if not isinstance(v, Arr) or v.val is None or v.axes is None or len(v.axes) != 1:
            raise Undecided(f"{PART}:{q}: cannot type the array returned for dimension {d} ({fmt_val(v)})")
        want = sum(_J[sp.Integer(k)] * sp.prod([_CO[sp.Integer(j)] for j in range(k)]) for k in range(d))
        ctx.check("R4", sp.expand(v.val - want) == 0, mod, q, final[0],
                  f"dimension {d}: the flat coarse id must be the mixed-radix number {want} (stride of direction k = product of the coarse "
                  f"dimensions below k); extracted: {sp.expand(v.val)} - a wrong stride is invisible when the coarse dimensions coincide",
                  construct=f"dimension {d}: flat id = sum_k J_k * prod_(j<k) coarse_dims[j]", facts={"extracted": str(sp.expand(v.val))})
        comps = list(v.axes[0][1]) if v.axes[0][0] == "prod" else [v.axes[0]]
        want_ax = [("pos", cart[sp.Integer(k)]) for k in reversed(range(d))]
        ctx.check("R4", comps == want_ax, mod, q, final[0],
                  f"dimension {d}: the id array must be flattened with x running fastest, then y, then z (the cell numbering of TensorGrid); "
                  f"extracted flattening order (slowest..fastest): {[fmt_space(c) for c in comps]}",
                  construct=f"dimension {d}: flattening order = TensorGrid cell numbering", facts={"order": [fmt_space(c) for c in comps]})
        if not did_range:
            _range_of_direction_index(ctx, mod, q, fn, ki, gname)
            did_range = True
    if not did_range:
        raise Undecided(f"{PART}:{q}: no dimension could be analysed for the range of the per-direction index")


# ------------------------------------------------------------------------------------------
#  R5 partition_coordinates
# ------------------------------------------------------------------------------------------

def _plain_defs(fn: ast.AST, name: str) -> list[ast.Assign]:
    return [s for s in ast.walk(fn) if isinstance(s, ast.Assign) and len(s.targets) == 1 and isinstance(s.targets[0], ast.Name)
            and s.targets[0].id == name]


def _resolve(fn: ast.AST, e: ast.expr, depth: int = 5) -> ast.expr:
    while isinstance(e, ast.Name) and depth > 0:
        d = _plain_defs(fn, e.id)
        if len(d) != 1:
            break
        e, depth = d[0].value, depth - 1
    return e


def _strip_shape(e: ast.expr) -> ast.expr:
    """drop reshape(..)/[:, None]/[:, np.newaxis] column-vector decorations"""
    while True:
        if isinstance(e, ast.Call) and call_name(e) == "reshape" and isinstance(e.func, ast.Attribute):
            e = e.func.value
        elif isinstance(e, ast.Subscript) and isinstance(e.slice, ast.Tuple) and len(e.slice.elts) == 2 and isinstance(e.slice.elts[0], ast.Slice) \
                and (u(e.slice.elts[1]) in ("None", "np.newaxis")):
            e = e.value
        else:
            return e


def _to_sym(e: ast.expr, fn: ast.AST, atoms: dict, keep: set, depth: int = 6):
    """small arithmetic expression -> sympy over name symbols (names in `keep` are not resolved further)"""
    if isinstance(e, ast.Constant) and isinstance(e.value, (int, float)):
        return sp.nsimplify(e.value)
    if isinstance(e, ast.Name):
        if e.id not in keep and depth > 0:
            d = _plain_defs(fn, e.id)
            if len(d) == 1:
                r = _to_sym(d[0].value, fn, atoms, keep, depth - 1)
                if r is not None:
                    return r
        return atoms.setdefault(e.id, sp.Symbol(e.id))
    if isinstance(e, ast.BinOp):
        a, b = _to_sym(e.left, fn, atoms, keep, depth), _to_sym(e.right, fn, atoms, keep, depth)
        if a is None or b is None:
            return None
        return {ast.Add: lambda: a + b, ast.Sub: lambda: a - b, ast.Mult: lambda: a * b, ast.Div: lambda: a / b}.get(type(e.op), lambda: None)()
    if isinstance(e, ast.UnaryOp) and isinstance(e.op, ast.USub):
        a = _to_sym(e.operand, fn, atoms, keep, depth)
        return None if a is None else -a
    e2 = _strip_shape(e)
    if e2 is not e:
        return _to_sym(e2, fn, atoms, keep, depth)
    if isinstance(e, ast.Call) and call_name(e) in ("array", "asarray") and e.args:
        return _to_sym(e.args[0], fn, atoms, keep, depth)
    return None


def rule_partition_coordinates(ctx: Ctx, mod) -> None:
    q = "partition_coordinates"
    fn = view_of(mod, q)
    loops = []
    for lp in ast.walk(fn):
        if isinstance(lp, ast.For) and isinstance(lp.target, ast.Name) and isinstance(lp.iter, ast.Call) and call_name(lp.iter) == "range":
            st = [s for s in ast.walk(lp) if isinstance(s, ast.Assign) and isinstance(s.targets[0], ast.Subscript)
                  and isinstance(s.value, ast.Name) and s.value.id == lp.target.id]
            if st:
                loops.append((lp, st))
    if len(loops) != 1:
        raise Undecided(f"{PART}:{q}: expected one loop over the coarse boxes storing its index, found {len(loops)}")
    lp, stores = loops[0]
    iv = lp.target.id
    chk = lambda ok, node, msg, cons, **f: ctx.check("R5", bool(ok), mod, q, node, msg or cons, construct=cons, facts=f or None)
    # (a) trip count = product of the coarse-dimension vector
    if len(lp.iter.args) != 1:
        raise Undecided(f"{PART}:{q}: loop range has {len(lp.iter.args)} arguments")
    n_expr = _resolve(fn, lp.iter.args[0])
    while isinstance(n_expr, ast.Call) and call_name(n_expr) in ("int", "asarray") and n_expr.args:
        n_expr = _resolve(fn, n_expr.args[0])
    vec = None
    if isinstance(n_expr, ast.Call) and call_name(n_expr) == "prod":
        b = n_expr.func.value if isinstance(n_expr.func, ast.Attribute) and not n_expr.args else (n_expr.args[0] if n_expr.args else None)
        if isinstance(b, ast.Name):
            vec = b.id
    if vec is None:
        raise Undecided(f"{PART}:{q}: number of boxes `{u(n_expr)}` is not the product of a dimension vector")
    chk(True, lp, "", "number of boxes = product of the coarse dimension vector", vector=vec)
    # (b) the box multi-index unravels the loop index over the same vector
    unr = [c for c in ast.walk(lp) if isinstance(c, ast.Call) and call_name(c) == "unravel_index"]
    if len(unr) != 1:
        raise Undecided(f"{PART}:{q}: expected one np.unravel_index in the box loop")
    a0 = unr[0].args[0] if unr[0].args else kwarg(unr[0], "indices")
    a1 = unr[0].args[1] if len(unr[0].args) > 1 else kwarg(unr[0], "shape")
    while isinstance(a1, ast.Call) and call_name(a1) in ("tuple", "asarray", "array", "list") and a1.args:
        a1 = a1.args[0]
    if not (isinstance(a0, ast.Name) and isinstance(a1, ast.Name)):
        raise Undecided(f"{PART}:{q}: arguments of `{u(unr[0])}` are not plain names")
    chk(isinstance(a0, ast.Name) and a0.id == iv and isinstance(a1, ast.Name) and a1.id == vec, unr[0],
        f"the box multi-index must be unravel_index(<loop index>, {vec}) - the vector whose product is the trip count; found `{u(unr[0])}`",
        "box multi-index unravels the loop index over the same vector")
    # the name holding the multi-index
    ind_name = None
    for s in ast.walk(lp):
        if isinstance(s, ast.Assign) and any(c is unr[0] for c in ast.walk(s.value)) and isinstance(s.targets[0], ast.Name):
            ind_name = s.targets[0].id
    if ind_name is None:
        raise Undecided(f"{PART}:{q}: the multi-index is not bound to a name")
    # (c) bounds and comparisons
    cmps = [c for c in ast.walk(lp) if isinstance(c, ast.Compare) and len(c.ops) == 1 and isinstance(c.ops[0], (ast.Gt, ast.GtE, ast.Lt, ast.LtE))]
    lows = [c for c in cmps if isinstance(c.ops[0], (ast.Gt, ast.GtE))]
    ups = [c for c in cmps if isinstance(c.ops[0], (ast.Lt, ast.LtE))]
    if len(lows) != 1 or len(ups) != 1:
        raise Undecided(f"{PART}:{q}: expected one lower and one upper comparison in the box loop")
    lo, up = lows[0], ups[0]
    if not (isinstance(lo.left, ast.Name) and isinstance(up.left, ast.Name)):
        raise Undecided(f"{PART}:{q}: compared coordinates are not plain names")
    chk(u(lo.left) == u(up.left), lo, f"both box comparisons must test the same coordinates (`{u(lo.left)}` vs `{u(up.left)}`)",
        "lower and upper test apply to the same coordinate array")
    closed = (isinstance(lo.ops[0], ast.GtE), isinstance(up.ops[0], ast.LtE))
    chk(closed[0] != closed[1], lo,
        f"adjacent boxes share a boundary: exactly one of the two tests may include equality (found `{u(lo)[:50]}` and `{u(up)[:50]}`); with both "
        f"strict a centre on a box boundary gets no id, with both closed the boxes overlap", "boxes are half-open")
    atoms: dict = {}
    keep = {ind_name, vec}
    L = _to_sym(lo.comparators[0], fn, atoms, keep)
    U = _to_sym(up.comparators[0], fn, atoms, keep)
    if L is None or U is None or ind_name not in atoms:
        raise Undecided(f"{PART}:{q}: cannot extract the box bounds as formulas of the multi-index")
    I = atoms[ind_name]
    chk(_z(U - L.subs(I, I + 1)), up,
        f"upper bound of box `ind` must equal the lower bound of box `ind+1` (extracted lower {L}, upper {U})", "upper(ind) == lower(ind + 1)",
        lower=str(L), upper=str(U))
    V = atoms.setdefault(vec, sp.Symbol(vec))
    width = sp.simplify(U - L)
    num, den = sp.fraction(sp.together(width))
    if not (den.is_Symbol and I not in width.free_symbols):
        raise Undecided(f"{PART}:{q}: box width `{width}` is not <extent> / <vector>")
    ok_w = den == V
    chk(ok_w, up, f"the box width must be <extent> / {vec} with the same vector {vec} that counts the boxes (extracted width {width}); otherwise the boxes do "
        f"not tile the bounding box and cells remain unassigned", "box width divides the extent by the vector that counts the boxes", width=str(width))
    for s in stores:
        chk(True, s, "", "stored partition id = box loop index")


# ------------------------------------------------------------------------------------------
#  R6 producer / consumer agreement
# ------------------------------------------------------------------------------------------

def tuple_functions(mod) -> dict[str, int]:
    """module-level functions every return of which is a k-tuple literal or a call of such a function (same k)"""
    out: dict[str, int] = {}
    changed = True
    while changed:
        changed = False
        for st in mod.tree.body:
            if not isinstance(st, ast.FunctionDef) or st.name in out:
                continue
            rets = [r for r in walk_local(st) if isinstance(r, ast.Return) and r.value is not None]
            ks = set()
            for r in rets:
                v = _resolve(st, r.value, 2)
                if isinstance(v, ast.Tuple):
                    ks.add(len(v.elts))
                elif isinstance(v, ast.Call) and isinstance(v.func, ast.Name) and v.func.id in out:
                    ks.add(out[v.func.id])
                else:
                    ks.add(None)
            if rets and len(ks) == 1 and None not in ks and min(ks) >= 2:
                out[st.name] = ks.pop()
                changed = True
    return out


def rule_consumers(ctx: Ctx, mod) -> None:
    tf = tuple_functions(mod)
    if "grid_is_connected" not in tf or "extract_subgrid" not in tf:
        raise AnchorError(f"{PART}: grid_is_connected / extract_subgrid no longer return tuples on every path ({tf})")
    for st in mod.tree.body:
        if not isinstance(st, ast.FunctionDef):
            continue
        pm = parent_map(st)
        for c in ast.walk(st):
            if not (isinstance(c, ast.Call) and isinstance(c.func, ast.Name) and c.func.id in tf):
                continue
            k = tf[c.func.id]
            par = pm.get(c)
            cons = f"use of the {k}-tuple returned by {c.func.id}"
            truthy = (isinstance(par, ast.UnaryOp) and isinstance(par.op, ast.Not)) or isinstance(par, ast.BoolOp) \
                or (isinstance(par, (ast.If, ast.While, ast.IfExp, ast.Assert)) and par.test is c)
            if truthy:
                ctx.check("R6", False, mod, st.name, c,
                          f"`{u(par)[:70] if not isinstance(par, (ast.If, ast.While)) else 'if ' + u(par.test)[:60]}`: {c.func.id} returns a {k}-tuple on every "
                          f"path; a non-empty tuple is always true, so this test never selects the other arm",
                          construct=cons + " as a truth value")
                continue
            if isinstance(par, ast.Assign) and par.value is c and len(par.targets) == 1 and isinstance(par.targets[0], (ast.Tuple, ast.List)):
                t = par.targets[0]
                ok = len(t.elts) == k or any(isinstance(e, ast.Starred) for e in t.elts)
                ctx.check("R6", ok, mod, st.name, c, f"{c.func.id} returns {k} values but is unpacked into {len(t.elts)} targets",
                          construct=cons + ": unpacked")
                continue
            ctx.check("R6", True, mod, st.name, c, f"{c.func.id}: tuple kept whole", construct=cons + ": forwarded / bound whole")
    # partition_grid: lists returned in the order of extract_subgrid's values
    q = "partition_grid"
    fn = view_of(mod, q)
    gname = fn.args.args[0].arg

    def es(ki_, c_, a_):
        return Tup((GridV("sub"), Arr(E(gname, "F"), (("U", "f"),), ("umap", "f")), Arr(E(gname, "N"), (("U", "n"),), ("umap", "n"))))
    ki = KI(fn, f"{PART}:{q}", _reporter(ctx, "R6", mod, q), tuple_returning={"extract_subgrid": es})
    ki.env[gname] = GridV(gname)
    ki.run(fn.body)
    rets = [(s, v) for s, v in ki.returns if isinstance(v, Tup) and len(v.items) == 3]
    if len(rets) != 1 or not all(isinstance(x, ListV) and x.template is not None for x in rets[0][1].items):
        raise Undecided(f"{PART}:{q}: the three returned lists could not be typed")
    rs, rv = rets[0]
    want = [("grids", lambda v: isinstance(v, GridV)), ("face maps", lambda v: isinstance(v, Arr) and v.vk == E(gname, "F")),
            ("node maps", lambda v: isinstance(v, Arr) and v.vk == E(gname, "N"))]
    for k, (what, pred) in enumerate(want):
        v = rv.items[k].template[1]
        if v is None:
            raise Undecided(f"{PART}:{q}: content of returned list {k} unknown")
        ctx.check("R6", pred(v), mod, q, rs, f"returned list {k} must collect the {what} of extract_subgrid; it collects {fmt_val(v)}",
                  construct=f"partition_grid: returned list {k} holds the {what}")


# ------------------------------------------------------------------------------------------
#  R7 overlap   R8 grid_is_connected   R9 subgrid_to_grid_mapping
# ------------------------------------------------------------------------------------------

def rule_overlap(ctx: Ctx, mod) -> None:
    q = "overlap"
    fn = view_of(mod, q)
    params = [a.arg for a in fn.args.args]
    if len(params) < 3:
        raise AnchorError(f"{PART}:{q}: signature changed ({params})")
    gname, cname, lname = params[0], params[1], params[2]
    ki = KI(fn, f"{PART}:{q}", _reporter(ctx, "R7", mod, q))
    ki.env[gname] = GridV(gname)
    ki.env[cname] = Arr(E(gname, "C"), (("seq", ("param", cname)),), ("param", cname), frozenset({"selector"}))
    NL = S("num_layers")
    ki.env[lname] = Int(NL)
    for p in params[3:]:
        ki.env[p] = Opaque("str")
    ki.run(fn.body)
    if not ki.loops:
        raise Undecided(f"{PART}:{q}: no counted layer loop found")
    for sym, (lo, hi, node) in ki.loops.items():
        ctx.check("R7", _z(hi - lo - NL), mod, q, node,
                  f"each layer loop must run exactly {lname} times; `{u(node.iter)}` runs {sp.expand(hi - lo)} times",
                  construct=f"layer loop runs {lname} times", facts={"trips": str(sp.expand(hi - lo))})
    n_thr = 0
    for node, arr in ki.thresholds:
        if "signed" in arr.flags:
            n_thr += 1
            ctx.check("R7", False, mod, q, node,
                      f"`{u(node)[:80]}`: a positive threshold is applied to the product of a SIGNED incidence matrix with the indicator: an entity whose "
                      f"only active neighbour has sign -1 gives -1 and is missed, two active neighbours of opposite sign cancel",
                      construct="threshold `> 0` applied to a sign-free product")
        elif "unsigned" in arr.flags:
            n_thr += 1
            ctx.check("R7", True, mod, q, node, "threshold `> 0` applied to a sign-free product", construct="threshold `> 0` applied to a sign-free product")
    if n_thr < 2 and not ctx.findings:
        raise Undecided(f"{PART}:{q}: fewer than two typed incidence products under a positive threshold")
    # the active cell set
    rets = [(s, v) for s, v in ki.returns if s.value is not None]
    if len(rets) != 1:
        raise Undecided(f"{PART}:{q}: expected one return")
    rs, rv = rets[0]
    cand = [n.id for n in ast.walk(rs.value) if isinstance(n, ast.Name) and isinstance(ki.env.get(n.id), Arr)
            and ki.env[n.id].axes == (E(gname, "C"),)]
    if len(set(cand)) != 1:
        e = _resolve(fn, rs.value)
        cand = [n.id for n in ast.walk(e) if isinstance(n, ast.Name) and isinstance(ki.env.get(n.id), Arr) and ki.env[n.id].axes == (E(gname, "C"),)]
    if len(set(cand)) != 1:
        raise Undecided(f"{PART}:{q}: the indicator of the active cells is not identifiable from the return expression")
    A = cand[0]
    if not isinstance(rv, Arr) or rv.vk is None:
        raise Undecided(f"{PART}:{q}: cannot type the returned array")
    ctx.check("R7", isinstance(rv, Arr) and rv.vk == E(gname, "C"), mod, q, rs,
              f"the function must return cell indices of {gname} (found {fmt_val(rv)})", construct="returned array holds cell indices")
    # an incidence rebuilt from (data, indices, indptr) of a grid matrix must be given that matrix' shape
    for c_, fmt_, m_, facts_ in ki.ctors:
        if facts_.get("kind") == "compressed" and facts_.get("owner") is not None:
            ctx.check("R7", facts_.get("shape") is not None, mod, q, c_,
                      f"`{u(c_)[:70]}` rebuilds the incidence from the index arrays of {fmt_ident(origin(facts_['owner'].mid))} without `shape=`: scipy infers the "
                      f"number of rows from the largest index present and cannot infer anything for a grid without faces (PointGrid: "
                      f"overlap(point_grid, [0], 1, criterion='face') raises ValueError('unable to infer matrix dimensions'))",
                      construct="rebuilt incidence matrix is given the shape of the original")
    # the active set keeps its previous members: in-place truthy stores or an explicit union.  (Re-binding it to the cells found
    # through the activated nodes/faces is NOT a superset: a cell of a 0-d grid has neither nodes nor faces and is dropped.)
    for sym, (lo, hi, node) in ki.loops.items():
        bad = None
        for s_ in ast.walk(node):
            if isinstance(s_, ast.Assign) and any(isinstance(t, ast.Name) and t.id == A for t in s_.targets):
                v = s_.value
                uses_old = A in {n.id for n in ast.walk(v) if isinstance(n, ast.Name)}
                union = (isinstance(v, ast.BinOp) and isinstance(v.op, ast.BitOr) and A in {getattr(v.left, "id", None), getattr(v.right, "id", None)}) or \
                    (isinstance(v, ast.Call) and call_name(v) in ("logical_or", "maximum") and any(isinstance(a_, ast.Name) and a_.id == A for a_ in v.args))
                if union:
                    continue
                if uses_old and not (isinstance(v, ast.Compare) or isinstance(v, ast.BinOp)):
                    raise Undecided(f"{PART}:{q}: update `{u(s_)[:70]}` of the active set not recognised")
                bad = s_
            if isinstance(s_, ast.AugAssign) and isinstance(s_.target, ast.Name) and s_.target.id == A and not isinstance(s_.op, (ast.BitOr, ast.Add)):
                bad = s_
        for s_, base, bval, ivals, v, aug in ki.sub_stores:
            if base == A and any(s_ is x for x in ast.walk(node)):
                falsy = (isinstance(v, Int) and v.p == 0) or (isinstance(v, Opaque) and v.what == "bool" and v.info is False)
                if falsy:
                    bad = s_
        ctx.check("R7", bad is None, mod, q, bad or node,
                  f"an overlap layer must contain the previous cell set; `{u(bad)[:80] if bad else ''}` replaces the active set by the cells reached through the "
                  f"activated nodes/faces, which drops every cell that has no node/face of its own (a PointGrid cell: overlap(point_grid, [0], 1) returns an "
                  f"empty set instead of [0]) - store into the set in place or take the union with it",
                  construct="active cell set keeps its previous members in the layer loop")
    arms = [s for s in ast.walk(fn) if isinstance(s, ast.If) and "criterion" in u(s.test)]
    if arms and not any(isinstance(x, ast.Raise) for a in arms for x in ast.walk(a)):
        ctx.note("overlap: an unknown `criterion` falls through both arms and silently returns the input cells (no else: raise)")


def rule_connected(ctx: Ctx, mod) -> None:
    q = "grid_is_connected"
    fn = view_of(mod, q)
    params = [a.arg for a in fn.args.args]
    gname, cname = params[0], params[1]
    ki = KI(fn, f"{PART}:{q}", _reporter(ctx, "R8", mod, q))
    ki.env[gname] = GridV(gname)
    ki.env[cname] = Arr(E(gname, "C"), (("seq", ("param", cname)),), ("param", cname))
    ki.run(fn.body)
    graph = [(c, a) for c, d, a in ki.calls if d.endswith("from_scipy_sparse_array") or d.endswith("from_scipy_sparse_matrix")]
    if len(graph) != 1 or not graph[0][1] or not isinstance(graph[0][1][0], Mat):
        raise Undecided(f"{PART}:{q}: the matrix handed to networkx could not be typed")
    c, (m, *_) = graph[0]
    ctx.check("R8", isinstance(origin(m.mid), tuple) and origin(m.mid)[0] == "c2c", mod, q, c,
              f"connectivity must be tested on a restriction of {gname}.cell_connection_map() (origin {fmt_ident(origin(m.mid))})",
              construct="graph built from cell_connection_map")
    for sp_ in (m.rk, m.ck):
        if isinstance(sp_, tuple) and sp_[0] == "sel" and isinstance(sp_[1], tuple) and sp_[1][0] == "anon":
            raise Undecided(f"{PART}:{q}: a restriction of the connection map uses an untraceable selection")
    ctx.check("R8", m.rk == m.ck and isinstance(m.rk, tuple) and m.rk[0] == "sel", mod, q, c,
              f"rows and columns of the connection map must be restricted with the same cell selection (rows {fmt_space(m.rk)}, columns {fmt_space(m.ck)})",
              construct="same selection on rows and columns")


def rule_subgrid_mapping(ctx: Ctx, mod) -> None:
    q = "subgrid_to_grid_mapping"
    fn = view_of(mod, q)
    params = [a.arg for a in fn.args.args]
    if len(params) < 5:
        raise AnchorError(f"{PART}:{q}: signature changed ({params})")
    sd, lf, lc, isv, nd = params[:5]
    ki = KI(fn, f"{PART}:{q}", _reporter(ctx, "R9", mod, q))
    ki.env[sd] = GridV(sd)
    ki.env[lf] = Arr(E(sd, "F"), (("seq", ("param", lf)),), ("param", lf))
    ki.env[lc] = Arr(E(sd, "C"), (("seq", ("param", lc)),), ("param", lc))
    ki.env[nd] = Int(S("nd"))
    ki.run(fn.body)
    n = 0
    for c, fmt, m, facts in ki.ctors:
        if facts.get("kind") != "triplet":
            continue
        rows, cols, shp = facts["rows"], facts["cols"], facts["shape"]
        if not (isinstance(rows, Arr) and isinstance(cols, Arr) and isinstance(shp, Tup) and len(shp.items) == 2
                and all(isinstance(x, Int) for x in shp.items) and rows.vk is not None and cols.vk is not None
                and rows.axes is not None and cols.axes is not None):
            raise Undecided(f"{PART}:{q}: cannot type `{u(c)[:80]}`")
        n += 1
        for what, arr, k in (("row", rows, 0), ("column", cols, 1)):
            z = size_of(arr.vk)
            ctx.check("R9", z is not None and _z(z - shp.items[k].p), mod, q, c,
                      f"the {what} indices point into {fmt_space(arr.vk)} ({z} entries) but the shape reserves {shp.items[k].p} {what}s",
                      construct=f"map {n}: {what} index space agrees with the shape", facts={"space": fmt_space(arr.vk), "shape": str(shp.items[k].p)})
        za, zb = size_of(rows.axes[-1]), size_of(cols.axes[-1])
        ctx.check("R9", za is not None and zb is not None and _z(za - zb), mod, q, c,
                  f"row and column index arrays are paired entry by entry and must have the same length ({za} vs {zb})",
                  construct=f"map {n}: row/column arrays have equal length")
    if n != 4:
        raise Undecided(f"{PART}:{q}: expected four triplet constructors (vector/scalar x face/cell), typed {n}")
    rets = [(s, v) for s, v in ki.returns if isinstance(v, Tup) and len(v.items) == 2]
    if len(rets) != 1:
        raise Undecided(f"{PART}:{q}: expected one `return face_map, cell_map`")


def guarded(ctx: Ctx, rule, *args) -> None:
    """run one rule; a refusal (Undecided) AFTER the same rule has reported a contradiction is a note: the untypable
    site is downstream of what was reported.  A refusal without a finding propagates (exit 2)."""
    n0 = len(ctx.findings)
    try:
        rule(ctx, *args)
    except Undecided as e:
        if len(ctx.findings) > n0:
            ctx.note("not analysed further (downstream of a reported contradiction): " + str(e))
        else:
            raise


def run(ctx: Ctx) -> None:
    mod = ctx.repo.module(PART)
    MODS[mod.rel] = mod
    for rule in (rule_extract_subgrid, rule_extract_submatrix, rule_face_siblings, rule_partition_structured, rule_partition_coordinates,
                 rule_consumers, rule_overlap, rule_connected, rule_subgrid_mapping):
        guarded(ctx, rule, mod)


def _m(name, old, new, rule, control=False, count=1):
    return dict(name=name, file=PART, old=old, new=new, rule=rule, control=control, count=count)


MUTANTS = [
    # independently seeded changes (campaign of the coordinator)
    dict(name="seed-cell-volumes-in-request-order-next-to-sorted-copy", rule="R1", file=PART, edits=[
        dict(file=PART, old="    if sort:\n        c = np.sort(np.atleast_1d(c))\n\n    if faces:\n        return _extract_cells_from_faces(g, c, is_planar)\n",
             new="    c = np.atleast_1d(c)\n    ind = np.sort(c) if sort else c\n\n    if faces:\n        return _extract_cells_from_faces(g, ind, is_planar)\n"),
        dict(file=PART, old="_extract_submatrix(g.cell_faces.tocsc(), c)", new="_extract_submatrix(g.cell_faces.tocsc(), ind)"),
        dict(file=PART, old="h.cell_centers = g.cell_centers[:, c]", new="h.cell_centers = g.cell_centers[:, ind]"),
        dict(file=PART, old="    h.parent_cell_ind = c\n", new="    h.parent_cell_ind = ind\n")]),
    _m("seed-overlap-active-set-rebound", "            # Map back to new cells\n            ci_new = np.squeeze(np.where((cn.transpose() * active_nodes) > 0))\n            # Activate new cells.\n            active_cells[ci_new] = 1\n",
       "            active_cells = (cn.transpose() * active_nodes) > 0\n", "R7"),
    # reverted forms of the applied fixes
    _m("revert-fix-2c57e785d-connectivity-tuple-as-truth", "            if not grid_is_connected(g, p_ind)[0]:", "            if not grid_is_connected(g, p_ind):", "R6", control=True),
    _m("revert-fix-9809e7416-coarse-index-range", "            incr_ind = incr_ind[: coarse_dims[i]]\n", "            incr_ind = incr_ind[:-1]\n", "R4", control=True),
    _m("revert-fix-a1fffc32a-no-1d-arm", "    if nd == 1:\n        glob_dims = ind[0]\n    elif nd == 2:", "    if nd == 2:", "R4"),
    _m("revert-fix-8ac7b4b92-overlap-squeeze", "    return np.sort(np.argwhere(active_cells > 0).ravel())", "    return np.sort(np.squeeze(np.argwhere(active_cells > 0)))", "R7"),
    _m("structured-1d-arm-wrong-direction", "    if nd == 1:\n        glob_dims = ind[0]\n", "    if nd == 1:\n        glob_dims = ind[0] * coarse_dims[0]\n", "R4"),
    dict(name="parent-cell-ind-keeps-request-order", rule="R1", file=PART, edits=[
        dict(file=PART, old="    if sort:\n        c = np.sort(np.atleast_1d(c))\n", new="    c_req = c\n    if sort:\n        c = np.sort(np.atleast_1d(c))\n"),
        dict(file=PART, old="    h.parent_cell_ind = c\n", new="    h.parent_cell_ind = c_req\n")]),
    dict(name="cell-volumes-in-request-order", rule="R1", file=PART, edits=[
        dict(file=PART, old="    if sort:\n        c = np.sort(np.atleast_1d(c))\n", new="    c_req = c\n    if sort:\n        c = np.sort(np.atleast_1d(c))\n"),
        dict(file=PART, old="        h.cell_volumes = g.cell_volumes[c]\n", new="        h.cell_volumes = g.cell_volumes[c_req]\n")]),
    _m("returned-maps-swapped", "    return h, unique_faces, unique_nodes\n", "    return h, unique_nodes, unique_faces\n", "R1"),
    _m("face-normals-from-face-centers", "h.face_normals = g.face_normals[:, unique_faces]", "h.face_normals = g.face_centers[:, unique_faces]", "R1"),
    _m("face-areas-by-node-map", "h.face_areas = g.face_areas[unique_faces]", "h.face_areas = g.face_areas[unique_nodes]", "R1"),
    _m("grid-matrix-slots-swapped", "g.dim, g.nodes[:, unique_nodes], fn_sub, cf_sub, name=g.name", "g.dim, g.nodes[:, unique_nodes], cf_sub, fn_sub, name=g.name", "R1"),
    _m("face-nodes-of-sorted-faces", "_extract_submatrix(g.face_nodes.tocsc(), unique_faces)", "_extract_submatrix(g.face_nodes.tocsc(), np.sort(unique_faces)[::-1])", "R1"),
    _m("submatrix-returns-inverse-map", "    return sps.csc_matrix((data, rows_sub, cols), shape), unique_rows\n",
       "    return sps.csc_matrix((data, rows_sub, cols), shape), rows_sub\n", "R2"),
    _m("submatrix-first-occurrence-instead-of-inverse", "np.unique(sub_mat.indices, return_inverse=True)", "np.unique(sub_mat.indices, return_index=True)", "R2"),
    _m("submatrix-keeps-global-rows", "sps.csc_matrix((data, rows_sub, cols), shape), unique_rows", "sps.csc_matrix((data, sub_mat.indices, cols), shape), unique_rows", "R2"),
    _m("submatrix-guard-removed", "    if mat.format != \"csc\":\n        raise ValueError(\"To extract columns from a matrix, it must be csc\")\n", "", "R2"),
    _m("faces3d-volumes-of-sorted-faces", "    h.cell_volumes = g.face_areas[f]\n    h.cell_centers = g.face_centers[:, f]\n\n    h.parent_face_ind = f  # type: ignore\n    return h, f, unique_nodes\n\n\ndef partition_grid",
       "    h.cell_volumes = g.face_areas[np.sort(f)]\n    h.cell_centers = g.face_centers[:, f]\n\n    h.parent_face_ind = f  # type: ignore\n    return h, f, unique_nodes\n\n\ndef partition_grid", "R3"),
    _m("faces2d-centres-from-normals", "    h.cell_centers = g.face_centers[:, f]\n\n    h.parent_face_ind = f  # type: ignore\n    return h, f, unique_nodes\n\n\ndef _extract_cells_from_faces_3d",
       "    h.cell_centers = g.face_normals[:, f]\n\n    h.parent_face_ind = f  # type: ignore\n    return h, f, unique_nodes\n\n\ndef _extract_cells_from_faces_3d", "R3"),
    _m("structured-stride-of-y", "glob_dims = (xi + yi * coarse_dims[0]).ravel(\"C\")", "glob_dims = (xi + yi * coarse_dims[1]).ravel(\"C\")", "R4"),
    _m("structured-2d-fortran-ravel", "glob_dims = (xi + yi * coarse_dims[0]).ravel(\"C\")", "glob_dims = (xi + yi * coarse_dims[0]).ravel(\"F\")", "R4"),
    _m("structured-stride-of-z", "zi * np.prod(coarse_dims[:2])", "zi * np.prod(coarse_dims[1:])", "R4"),
    _m("structured-3d-axes", "np.swapaxes(np.swapaxes(glob_dims, 1, 2), 0, 1).ravel(\"C\")", "np.swapaxes(glob_dims, 0, 2).ravel(\"C\")", "R4"),
    _m("structured-2d-meshgrid-ij", "xi, yi = np.meshgrid(ind[0], ind[1])", "xi, yi = np.meshgrid(ind[0], ind[1], indexing=\"ij\")", "R4"),
    _m("coordinates-width-from-other-vector", "    dx = delta / coarse_dims\n", "    dx = delta / delta_int\n", "R5"),
    _m("coordinates-closed-boxes", "cc < upper_coord.reshape((-1, 1))", "cc <= upper_coord.reshape((-1, 1))", "R5"),
    _m("coordinates-unravel-other-vector", "np.unravel_index(i, coarse_dims)", "np.unravel_index(i, delta_int)", "R5"),
    _m("coordinates-upper-bound-shift", "upper_coord = min_coord + dx * (ind + 1)", "upper_coord = min_coord + dx * ind + 1", "R5"),
    _m("partition-grid-lists-mixed", "        face_map_list.append(fm)\n", "        face_map_list.append(nm)\n", "R6"),
    _m("partition-grid-unpack-order", "sg, fm, nm = extract_subgrid(g, ci)", "sg, nm, fm = extract_subgrid(g, ci)", "R6"),
    _m("overlap-one-layer-short", "for _ in range(num_layers):", "for _ in range(num_layers - 1):", "R7", count=2),
    _m("overlap-signed-incidence", "        cf.data = np.ones_like(cf.data)\n", "", "R7"),
    _m("revert-fix-6954172d6-overlap-incidence-rebuilt-without-shape", "        cf = g.cell_faces.tocsc(copy=True)\n        cf.data = np.ones_like(cf.data)\n",
       "        cf = g.cell_faces\n        data = np.ones_like(cf.data)\n        cf = sps.csc_matrix((data, cf.indices, cf.indptr))\n", "R7"),
    _m("overlap-overwrites-grid-incidence", "        cf = g.cell_faces.tocsc(copy=True)\n", "        cf = g.cell_faces.tocsc()\n", "R7"),
    _m("overlap-face-arm-marks-nodes", "            active_faces[np.squeeze(np.where((cf * active_cells) > 0))] = 1",
       "            active_faces[np.squeeze(np.where((g.cell_nodes() * active_cells) > 0))] = 1", "R7"),
    _m("connected-columns-not-restricted", "c2c.tocsr()[cell_ind, :].tocsc()[:, cell_ind]", "c2c.tocsr()[cell_ind, :].tocsc()[:, np.sort(cell_ind)]", "R8"),
    _m("mapping-cell-map-transposed", "(np.ones(num_cells_loc), (np.arange(num_cells_loc), loc_cells)),", "(np.ones(num_cells_loc), (loc_cells, np.arange(num_cells_loc))),", "R9"),
    _m("mapping-face-rows-sized-by-cells", "            shape=(sd.num_faces * nd, num_faces_loc * nd),", "            shape=(sd.num_cells * nd, num_faces_loc * nd),", "R9"),
]
