"""C22 - subgrid extraction and partitioning preserve the parent grid: structural clauses.

Nothing is executed.  The anchored functions of grids/partition.py are index-bookkeeping programs; they are
interpreted over an abstract domain of *index spaces* (which entity kind the values of an index array point at,
which ordered selection an axis lives on, which unique()/where() site produced it) and small integer polynomials.
A use that needs one array to live in two spaces is a contradiction; an unknown idiom is never a finding.

The interpreter (class KI) is shared with C23 (refinement / extrusion).
"""
from __future__ import annotations

import ast
import copy
from dataclasses import dataclass, field, replace
from typing import Any, Optional

import sympy as sp

from ..core.astutil import u, dotted, call_name, kwarg, walk_local, parent_map
from ..core.loader import AnchorError, Undecided
from ..core.report import Ctx
from ..core import cfg as cfgmod
from .c34 import normalise

PART = "src/porepy/grids/partition.py"
GRID = "src/porepy/grids/grid.py"
STRUCT = "src/porepy/grids/structured.py"

# =====================================================================================
#  symbols, spaces, values
# =====================================================================================

_SYMS: dict[str, sp.Symbol] = {}


def S(name: str) -> sp.Symbol:
    if name not in _SYMS:
        _SYMS[name] = sp.Symbol(name, positive=True, integer=True)
    return _SYMS[name]


def n_of(G: str, K: str) -> sp.Symbol:
    """number of entities of kind K (N nodes, F faces, C cells) of grid G"""
    return S(f"n{K}_{G}")


POS3 = ("pos", sp.Integer(3))
BOT = ("bot",)  # value kind / axis of an empty accumulator (np.empty((k, 0)), np.array([]))


def E(G: str, K: str) -> tuple:
    return ("E", G, K)


def flat_prod(parts) -> tuple:
    out = []
    for p in parts:
        if isinstance(p, tuple) and p and p[0] == "prod":
            out.extend(p[1])
        else:
            out.append(p)
    return ("prod", tuple(out)) if len(out) != 1 else out[0]


def size_of(space) -> Optional[sp.Expr]:
    if not isinstance(space, tuple) or not space:
        return None
    k = space[0]
    if k == "E":
        return n_of(space[1], space[2])
    if k == "pos":
        return space[1]
    if k == "prod":
        r = sp.Integer(1)
        for s_ in space[1]:
            z = size_of(s_)
            if z is None:
                return None
            r = r * z
        return r
    if k == "cat":
        r = sp.Integer(0)
        for s_ in space[1]:
            z = size_of(s_)
            if z is None:
                return None
            r = r + z
        return r
    if k == "bot":
        return sp.Integer(0)
    return S("|" + fmt_space(space) + "|")


def fmt_space(s) -> str:
    if s is None:
        return "?"
    if not isinstance(s, tuple) or not s:
        return str(s)
    k = s[0]
    if k == "E":
        return {"C": "cells", "F": "faces", "N": "nodes"}.get(s[2], s[2]) + f"({s[1]})"
    if k == "pos":
        return f"[{s[1]}]"
    if k == "prod":
        return "(" + " x ".join(fmt_space(x) for x in s[1]) + ")"
    if k == "cat":
        return "(" + " ++ ".join(fmt_space(x) for x in s[1]) + ")"
    if k == "sel":
        return f"sel<{fmt_ident(s[1])}>"
    if k == "U":
        return f"unique#{s[1]}"
    if k == "ent":
        return f"entries<{fmt_ident(s[1])}>"
    if k == "hits":
        return f"hits<{s[1]}>"
    if k == "X":
        return "new-" + {"C": "cells", "F": "faces", "N": "nodes"}.get(s[1], s[1])
    return k + "<" + ",".join(fmt_space(x) if isinstance(x, tuple) else str(x) for x in s[1:]) + ">"


def fmt_ident(i) -> str:
    if i is None:
        return "?"
    if isinstance(i, tuple):
        return i[0] + "(" + ",".join(fmt_ident(x) if isinstance(x, tuple) else str(x) for x in i[1:]) + ")"
    return str(i)


@dataclass(frozen=True)
class Int:
    p: Any                      # sympy expression
    kind: Any = None            # space this scalar indexes (loop variable over range(n_K))


@dataclass(frozen=True)
class Arr:
    vk: Any = None              # space the VALUES index (None: not index valued / unknown)
    axes: Any = None            # tuple of spaces, one per axis (None: unknown)
    ident: Any = None           # content identity (same ident => same array)
    flags: frozenset = frozenset()   # idmap | col | maybe0d | unsigned | signed | bool
    val: Any = None             # symbolic value (sympy) for integer arrays with a closed form


@dataclass(frozen=True)
class Mat:
    rk: Any
    ck: Any
    signed: Optional[bool]
    fmt: Optional[str]
    mid: Any
    alias: str = "fresh"        # 'own' = the grid's own matrix object


@dataclass(frozen=True)
class Mask:
    axes: Any
    key: str
    pol: bool = True


@dataclass(frozen=True)
class Tup:
    items: tuple


@dataclass(frozen=True)
class GridV:
    name: str


@dataclass(frozen=True)
class Opaque:
    what: str
    info: Any = None


@dataclass
class ListV:
    items: list = field(default_factory=list)   # concrete appended values (outside loops)
    template: Any = None                        # (loop symbol, value) when appended inside a loop


@dataclass(frozen=True)
class Dims:
    """a small integer vector indexed by the Cartesian direction (cart_dims, coarse_dims, ...)"""
    base: Any                   # sympy IndexedBase or a function i -> expr
    name: str


def fmt_val(v) -> str:
    if v is None:
        return "?"
    if isinstance(v, Int):
        return f"int {v.p}"
    if isinstance(v, Arr):
        ax = "?" if v.axes is None else "(" + ", ".join(fmt_space(a) for a in v.axes) + ")"
        s_ = f"array on {ax}"
        if v.vk is not None:
            s_ += f" of indices into {fmt_space(v.vk)}"
        return s_
    if isinstance(v, Mat):
        return f"matrix {fmt_space(v.rk)} x {fmt_space(v.ck)}" + (" signed" if v.signed else "")
    if isinstance(v, Mask):
        return "mask over " + ("?" if v.axes is None else ", ".join(fmt_space(a) for a in v.axes))
    if isinstance(v, Tup):
        return "(" + ", ".join(fmt_val(x) for x in v.items) + ")"
    if isinstance(v, GridV):
        return f"grid {v.name}"
    return type(v).__name__


def last_axis(v) -> Any:
    if isinstance(v, (Arr, Mask)) and v.axes:
        return v.axes[-1]
    return None


def count_atoms(p) -> set:
    return {s_ for s_ in getattr(p, "free_symbols", set()) if s_.name.startswith(("nC_", "nF_", "nN_"))}


# @@NEXT@@
