"""C09 - adaptive time stepping: ordering / pairing structure of the controller.

R1  compute_time_step: adaptation arm <-> recompute flag, clamps before the schedule correction,
    schedule correction is the last writer of dt, constant path leaves dt alone, a failed step
    can never leave without the recomputation adaptation
R2  _adaptation_based_on_recomputation: rewind by the *old* dt before shrinking it, counter and
    time index move with it, budget test is `_recomp_num < recomp_max` with a raising other arm
R3  schedule cursor typestate: increment only together with the about-to-hit flag, flag reset on
    every pass, decrement only under the flag and only together with the rewind, the corrected dt
    is computed from the schedule point read before the cursor moves
R4  counters and the time loop: _recomp_num reset on the converged path, increase_time /
    increase_time_index before solve, mirror of the rewind, hooks call compute_time_step
R5  clamp siblings: dt_min uses bound 0 with `<`, dt_max bound 1 with `>`, same bound assigned
"""
from __future__ import annotations

import ast
from typing import Optional

from ..core import cfg as cfgmod
from ..core.astutil import u, walk_local, call_name, kwarg, methods, single_assign_value, parent_map, assigned_targets
from ..core.loader import AnchorError, Undecided
from ..core.report import Ctx

TSC = "src/porepy/numerics/time_step_control.py"
RUN = "src/porepy/models/run_models.py"
SOLSTRAT = "src/porepy/models/solution_strategy.py"
CLS = "TimeManager"

M_COMPUTE = "compute_time_step"
M_ITER = "_adaptation_based_on_iterations"
M_RECOMP = "_adaptation_based_on_recomputation"
M_MIN = "_correction_based_on_dt_min"
M_MAX = "_correction_based_on_dt_max"
M_SCHED = "_correction_based_on_schedule"
FLAG = "_is_about_to_hit_schedule"
CURSOR = "_scheduled_idx"

META = {
    "explanation": (
        "Ordering and pairing rules of TimeManager decided on hand-built statement CFGs (dominance, post-dominance, "
        "reachability) plus a three-valued evaluation of branch tests over the flags recompute_solution / is_constant / "
        "_is_about_to_hit_schedule. R1: in compute_time_step the recomputation adaptation is the arm of a true recompute "
        "flag and the iteration adaptation the arm of a false one; with recompute_solution=True and a non-constant step no "
        "normal exit is reachable without passing the recomputation adaptation (so a failed last step cannot be swallowed "
        "by the final-time shortcut); both clamps dominate the schedule correction, which dominates the returns and is "
        "the last writer of dt; no dt writer is reachable on the constant path. R2: on every normally returning path of "
        "_adaptation_based_on_recomputation the clock is rewound by self.dt before any write to dt, the time index and the "
        "recomputation counter move with it, dt is multiplied by recomp_factor, and the budget test is the strict "
        "`_recomp_num < recomp_max` whose other arm cannot return normally. R3: every increment of the schedule cursor "
        "executes together with setting the about-to-hit flag, the flag is reset on every pass before it may be set, the "
        "only decrements are unreachable when the flag is false and execute together with the rewind, increments and "
        "decrements are by one, the corrected dt is `schedule[cursor as read before the increment] - self.time`, and no "
        "normally returning path advances the cursor without either that assignment or a re-evaluation of the correction "
        "against the next entry (recursive call / re-read in a loop), except on the edge where the cursor is past the last "
        "entry (fix 8b3fd1b10: exact landing on a scheduled time). "
        "R4: the recomputation counter is reset on every normal path of the iteration adaptation, increase_time and "
        "increase_time_index dominate solver.solve in the time loops and are the exact mirror of the rewind, the time "
        "loop is guarded by final_time_reached, the convergence hook reaches compute_time_step(iterations=...) on every "
        "adaptive path and the failure hook compute_time_step(recompute_solution=True) on every normal path. R5: the two "
        "clamps compare and assign the same bound, min with index 0 and `<`, max with index 1 and `>`. "
        "Not decided: that every schedule point is hit for all schedules / failure sequences (the np.isclose arm that "
        "skips the correction, floating-point rewind error, dt < dt_min after a schedule correction) - that needs runs or "
        "a model over real-valued state."),
    "rule_text": "one obligation per (ordering pair | flag-feasible exit | cursor write | counter write | loop | clamp)",
    "trusted_base": ["python ast", "sa.core (loader, astutil, cfg)", "networkx dominators"],
    "assumptions": ["TimeManager state is written only by its own methods (self.X stores) - external writers such as "
                    "restart code are not ordered against the controller",
                    "dt_min_max is (min, max) as documented and validated in __init__"],
    "technique": "statement-CFG dominance / post-dominance / reachability + three-valued branch evaluation",
}
MIN_INSTANCES = {"R1": 10, "R2": 8, "R3": 9, "R4": 10, "R5": 2}


# ------------------------------------------------------------------ generic helpers

def _header_roots(s: ast.AST) -> list[ast.AST]:
    if isinstance(s, (ast.If, ast.While)):
        return [s.test]
    if isinstance(s, (ast.For, ast.AsyncFor)):
        return [s.iter]
    if isinstance(s, (ast.With, ast.AsyncWith)):
        return [i.context_expr for i in s.items]
    if isinstance(s, ast.Match):
        return [s.subject]
    if isinstance(s, (ast.match_case, ast.ExceptHandler, ast.FunctionDef, ast.AsyncFunctionDef, ast.ClassDef)):
        return []
    return [s]


def _calls_at(g: cfgmod.CFG, n: int) -> list[ast.Call]:
    out = []
    for r in _header_roots(g.stmt[n]):
        out += [c for c in walk_local(r) if isinstance(c, ast.Call)]
    return out


def _call_nodes(g: cfgmod.CFG, pred) -> list[tuple[int, ast.Call]]:
    out = []
    for n in sorted(g.stmt):
        for c in _calls_at(g, n):
            if pred(c):
                out.append((n, c))
    return out


def _resolve(fn: ast.AST, e: ast.expr, depth: int = 6) -> ast.expr:
    for _ in range(depth):
        if isinstance(e, ast.Name):
            v = single_assign_value(fn, e.id)
            if v is None:
                return e
            e = v
        else:
            return e
    return e


def _path_conds(pm: dict, stmt: ast.AST, stop: ast.AST) -> list[tuple[ast.expr, bool]]:
    out = []
    cur = stmt
    while cur is not stop and cur in pm:
        par = pm[cur]
        if isinstance(par, (ast.If, ast.While)):
            if any(cur is s for s in par.body):
                out.append((par.test, True))
            elif any(cur is s for s in par.orelse):
                out.append((par.test, False))
        cur = par
    return out


def _ev(e: ast.expr, env: dict[str, bool]) -> Optional[bool]:
    """Three-valued evaluation of a test; env maps unparsed atoms to truth values."""
    t = u(e)
    if t in env:
        return env[t]
    if isinstance(e, ast.Constant) and isinstance(e.value, bool):
        return e.value
    if isinstance(e, ast.UnaryOp) and isinstance(e.op, ast.Not):
        v = _ev(e.operand, env)
        return None if v is None else (not v)
    if isinstance(e, ast.BoolOp):
        vals = [_ev(v, env) for v in e.values]
        if isinstance(e.op, ast.And):
            if any(v is False for v in vals):
                return False
            return True if all(v is True for v in vals) else None
        if any(v is True for v in vals):
            return True
        return False if all(v is False for v in vals) else None
    return None


def _reach(g: cfgmod.CFG, env: dict[str, bool], avoid: frozenset = frozenset(), start: int = cfgmod.ENTRY) -> set[int]:
    """Nodes reachable from `start` along edges that do not contradict env, never entering `avoid`."""
    seen = {start}
    stack = [start]
    while stack:
        n = stack.pop()
        s = g.stmt.get(n)
        v = _ev(s.test, env) if isinstance(s, (ast.If, ast.While)) else None
        for m in g.g.successors(n):
            c = g.g.edges[n, m].get("cond")
            if v is not None and c is not None and c != v:
                continue
            if m in avoid or m in seen:
                continue
            seen.add(m)
            stack.append(m)
    return seen


def _self_attr(e: ast.AST) -> Optional[str]:
    if isinstance(e, ast.Attribute) and isinstance(e.value, ast.Name) and e.value.id == "self":
        return e.attr
    return None


def _writes(g: cfgmod.CFG, attr: str) -> list[int]:
    """CFG nodes that store to self.<attr>."""
    out = []
    for n, s in sorted(g.stmt.items()):
        if isinstance(s, (ast.Assign, ast.AugAssign, ast.AnnAssign)):
            if any(_self_attr(t) == attr for t in assigned_targets(s)):
                out.append(n)
    return out


def _method_writes(fn: ast.FunctionDef) -> set[str]:
    out = set()
    for s in walk_local(fn):
        if isinstance(s, (ast.Assign, ast.AugAssign, ast.AnnAssign)):
            for t in assigned_targets(s):
                a = _self_attr(t)
                if a:
                    out.add(a)
    return out


def _delta(s: ast.stmt, attr: str) -> Optional[tuple[str, ast.expr]]:
    """('+', e) / ('-', e) if s is `self.attr += e`, `self.attr -= e`, `self.attr = self.attr +/- e`
    (also as one component of a parallel assignment `self.a, self.b = ..., ...`)."""
    if isinstance(s, ast.Assign) and len(s.targets) == 1 and isinstance(s.targets[0], (ast.Tuple, ast.List)) \
            and isinstance(s.value, (ast.Tuple, ast.List)) and len(s.value.elts) == len(s.targets[0].elts):
        for t, v in zip(s.targets[0].elts, s.value.elts):
            if _self_attr(t) == attr:
                return _delta(ast.Assign(targets=[t], value=v), attr)
        return None
    if isinstance(s, ast.AugAssign) and _self_attr(s.target) == attr:
        if isinstance(s.op, ast.Add):
            return "+", s.value
        if isinstance(s.op, ast.Sub):
            return "-", s.value
        if isinstance(s.op, ast.Mult):
            return "*", s.value
        if isinstance(s.op, ast.Div):
            return "/", s.value
    if isinstance(s, ast.Assign) and len(s.targets) == 1 and _self_attr(s.targets[0]) == attr and isinstance(s.value, ast.BinOp):
        b = s.value
        sym = {ast.Add: "+", ast.Sub: "-", ast.Mult: "*", ast.Div: "/"}.get(type(b.op))
        if sym and _self_attr(b.left) == attr:
            return sym, b.right
        if sym in ("+", "*") and _self_attr(b.right) == attr:
            return sym, b.left
    return None


def _is_int(e: ast.AST, v: int) -> bool:
    return isinstance(e, ast.Constant) and type(e.value) is int and e.value == v


def _self_calls(g: cfgmod.CFG, name: str) -> list[int]:
    return [n for n, c in _call_nodes(g, lambda c: isinstance(c.func, ast.Attribute) and c.func.attr == name
                                      and isinstance(c.func.value, ast.Name) and c.func.value.id == "self")]


def _on_all_normal_paths(g: cfgmod.CFG, n: int) -> bool:
    return g.postdominates(n, cfgmod.ENTRY)


# ------------------------------------------------------------------ one-level inlining of private helpers

def _inline_helpers(fn: ast.FunctionDef, lookup, skip: frozenset = frozenset()) -> ast.FunctionDef:
    """Copy of fn in which (one level of) statement-level calls `self.h(...)` of a helper method h of the same class
    are replaced by h's body (parameters bound, helper locals renamed), and `for c in (self.a, self.b): c()` loops over
    a literal tuple of bound methods are unrolled.  Also `x = self.h(...)` with a plain local target.  Early / valued
    returns of the helper (outside its loops) are expressed as `while True: ...; break` so that no spurious path is
    added.  Helpers that contain nested defs, return from inside a loop or reassign a parameter are left alone.  The
    analysed structure is then the same whether or not a helper was extracted."""
    import copy

    def params_of(h: ast.FunctionDef) -> list[str]:
        ps = [a.arg for a in h.args.posonlyargs + h.args.args]
        return ps[1:] if ps and ps[0] in ("self", "cls") else ps

    def helper_body(call: ast.Call, target: Optional[str] = None) -> Optional[list]:
        f = call.func
        if not (isinstance(f, ast.Attribute) and isinstance(f.value, ast.Name) and f.value.id == "self"):
            return None
        h = lookup(f.attr)
        if h is None or h.name == fn.name or h.name in skip or h.args.vararg or h.args.kwarg:
            return None
        body = [s for s in h.body if not (isinstance(s, ast.Expr) and isinstance(s.value, ast.Constant)
                                          and isinstance(s.value.value, str))]
        if body and isinstance(body[-1], ast.Return) and body[-1].value is None:
            body = body[:-1]
        has_return = False
        for s in body:
            for n in walk_local(s):
                if isinstance(n, (ast.Yield, ast.YieldFrom, ast.FunctionDef, ast.AsyncFunctionDef, ast.Lambda,
                                  ast.Global, ast.Nonlocal, ast.ClassDef)):
                    return None
                if isinstance(n, (ast.For, ast.AsyncFor, ast.While)) and any(isinstance(x, ast.Return) for x in walk_local(n)):
                    return None  # a return inside a loop cannot be expressed as a break of the wrapper
                if isinstance(n, ast.Return):
                    has_return = True
        if target is not None and not has_return:
            return None  # `x = self.h()` of a helper that returns nothing: leave it alone
        ps = params_of(h)
        if any(isinstance(a, ast.Starred) for a in call.args) or any(k.arg is None for k in call.keywords) \
                or len(call.args) > len(ps):
            return None
        m: dict[str, ast.AST] = {p: a for p, a in zip(ps, call.args)}
        for k in call.keywords:
            if k.arg in m or k.arg not in ps + [a.arg for a in h.args.kwonlyargs]:
                return None
            m[k.arg] = k.value
        for pname, d in zip(ps[len(ps) - len(h.args.defaults):], h.args.defaults):
            m.setdefault(pname, d)
        for a, d in zip(h.args.kwonlyargs, h.args.kw_defaults):
            if d is not None:
                m.setdefault(a.arg, d)
        if set(ps) - set(m):
            return None
        stored = {t.id for s in body for n in walk_local(s) if isinstance(n, ast.stmt) for t in assigned_targets(n)
                  if isinstance(t, ast.Name)}
        if stored & set(m):
            return None
        ren = {nm: f"{nm}__{h.name}" for nm in stored}

        class T(ast.NodeTransformer):
            def visit_Name(self, n: ast.Name):
                if n.id in ren:
                    return ast.copy_location(ast.Name(id=ren[n.id], ctx=n.ctx), n)
                if n.id in m and isinstance(n.ctx, ast.Load):
                    return ast.copy_location(copy.deepcopy(m[n.id]), n)
                return n

            def visit_Return(self, n: ast.Return):
                out = []
                if n.value is not None:
                    val = self.visit(n.value)
                    if target is not None:
                        out.append(ast.copy_location(ast.Assign(targets=[ast.Name(id=target, ctx=ast.Store())], value=val), n))
                    else:
                        out.append(ast.copy_location(ast.Expr(value=val), n))
                elif target is not None:
                    out.append(ast.copy_location(ast.Assign(targets=[ast.Name(id=target, ctx=ast.Store())],
                                                            value=ast.Constant(value=None)), n))
                out.append(ast.copy_location(ast.Break(), n))
                return out

        new_body = []
        for s in body:
            r = T().visit(copy.deepcopy(s))
            new_body += r if isinstance(r, list) else [r]
        if has_return:
            anchor = body[0]
            tail = []
            if target is not None and not isinstance(body[-1], ast.Return):
                tail.append(ast.copy_location(ast.Assign(targets=[ast.Name(id=target, ctx=ast.Store())],
                                                         value=ast.Constant(value=None)), anchor))
            tail.append(ast.copy_location(ast.Break(), body[-1]))
            new_body = [ast.copy_location(ast.While(test=ast.Constant(value=True), body=new_body + tail, orelse=[]), anchor)]
        return [ast.fix_missing_locations(x) for x in new_body]

    def unrolled(s: ast.For) -> Optional[list]:
        if not (isinstance(s.target, ast.Name) and isinstance(s.iter, (ast.Tuple, ast.List)) and s.iter.elts and not s.orelse):
            return None
        if not all(isinstance(e, ast.Attribute) and isinstance(e.value, ast.Name) and e.value.id == "self" for e in s.iter.elts):
            return None
        if any(isinstance(n, (ast.Break, ast.Continue)) for b in s.body for n in walk_local(b)):
            return None
        out = []
        for e in s.iter.elts:
            class U(ast.NodeTransformer):
                def visit_Name(self, n: ast.Name):
                    if n.id == s.target.id and isinstance(n.ctx, ast.Load):
                        return ast.copy_location(copy.deepcopy(e), n)
                    return n
            out += [ast.fix_missing_locations(U().visit(copy.deepcopy(b))) for b in s.body]
        return out

    def rewrite(stmts: list, depth: int = 0) -> list:
        out = []
        for s in stmts:
            if isinstance(s, ast.For) and depth == 0:
                un = unrolled(s)
                if un is not None:
                    out += rewrite(un, depth)
                    continue
            if isinstance(s, ast.Expr) and isinstance(s.value, ast.Call) and depth == 0:
                b = helper_body(s.value)
                if b is not None:
                    out += rewrite(b, depth + 1)  # unroll loops inside, but do not inline a second level
                    continue
            if isinstance(s, (ast.Assign, ast.AnnAssign)) and isinstance(s.value, ast.Call) and depth == 0:
                tg = s.targets[0] if isinstance(s, ast.Assign) and len(s.targets) == 1 else getattr(s, "target", None)
                if isinstance(tg, ast.Name):
                    b = helper_body(s.value, target=tg.id)
                    if b is not None:
                        out += rewrite(b, depth + 1)
                        continue
            if not isinstance(s, (ast.FunctionDef, ast.AsyncFunctionDef, ast.ClassDef)):
                for field in ("body", "orelse", "finalbody"):
                    v = getattr(s, field, None)
                    if isinstance(v, list) and v and isinstance(v[0], ast.stmt):
                        setattr(s, field, rewrite(v, depth))
                if isinstance(s, ast.Try):
                    for hd in s.handlers:
                        hd.body = rewrite(hd.body, depth)
            out.append(s)
        return out

    fn2 = copy.deepcopy(fn)
    fn2.body = rewrite(fn2.body)
    return fn2


def _opaque_helpers(fn: ast.FunctionDef, lookup, relevant: set[str], where: str) -> None:
    """After inlining: a remaining call `self.h(...)` of a same-class helper that itself performs one of the `relevant`
    calls hides part of the analysed protocol -> Undecided (never a finding)."""
    for c in walk_local(fn):
        if isinstance(c, ast.Call) and isinstance(c.func, ast.Attribute) and isinstance(c.func.value, ast.Name) \
                and c.func.value.id == "self":
            h = lookup(c.func.attr)
            if h is None or h.name == fn.name or c.func.attr in relevant:
                continue
            inner = [x for x in walk_local(h) if isinstance(x, ast.Call) and call_name(x) in relevant]
            if inner:
                raise Undecided(f"{where}: helper self.{h.name}() performs `{call_name(inner[0])}` but could not be inlined "
                                "(returns a value / is used in an expression)")


# ------------------------------------------------------------------ R1

def _rule_compute(ctx: Ctx, mod, meths: dict) -> None:
    fn = meths.get(M_COMPUTE)
    if fn is None:
        raise AnchorError(f"{TSC}:{CLS}.{M_COMPUTE} missing")
    q = f"{CLS}.{M_COMPUTE}"
    roles = (M_ITER, M_RECOMP, M_MIN, M_MAX, M_SCHED)
    for m in roles:
        if m not in meths:
            raise AnchorError(f"{TSC}:{CLS}.{m} missing")
    fn = _inline_helpers(fn, meths.get, skip=frozenset(roles))
    _opaque_helpers(fn, meths.get, set(roles), f"{TSC}:{q}")
    g = cfgmod.build(fn)
    params = [a.arg for a in fn.args.args]
    if "recompute_solution" not in params:
        raise AnchorError(f"{TSC}:{q}: parameter recompute_solution missing")
    # alias self._recomp_sol = recompute_solution (accepted if it is the only write and dominates every test of it)
    atoms = ["recompute_solution"]
    for attr in _method_writes(fn):
        ws = _writes(g, attr)
        if len(ws) == 1 and isinstance(g.stmt[ws[0]], ast.Assign) and u(g.stmt[ws[0]].value) == "recompute_solution":
            users = [n for n, s in g.stmt.items() if n != ws[0] and any(
                _self_attr(x) == attr for r in _header_roots(s) for x in ast.walk(r))]
            if all(g.dominates(ws[0], n) for n in users):
                atoms.append(f"self.{attr}")

    def env(recomp: Optional[bool], const: Optional[bool]) -> dict:
        e = {}
        if recomp is not None:
            for a in atoms:
                e[a] = recomp
        if const is not None:
            e["self.is_constant"] = const
        return e

    A_it, A_rec = _self_calls(g, M_ITER), _self_calls(g, M_RECOMP)
    K_min, K_max, S = _self_calls(g, M_MIN), _self_calls(g, M_MAX), _self_calls(g, M_SCHED)
    for nm, nodes in ((M_ITER, A_it), (M_RECOMP, A_rec), (M_MIN, K_min), (M_MAX, K_max), (M_SCHED, S)):
        if not nodes:
            raise AnchorError(f"{TSC}:{q}: no call of self.{nm}()")
    fS = frozenset(S)
    dt_writer_methods = {m for m, f in meths.items() if "dt" in _method_writes(f)}
    writers = set(_writes(g, "dt"))
    for m in dt_writer_methods:
        writers |= set(_self_calls(g, m))
    ctx.sample({"rule": "R1", "flag_atoms": atoms, "dt_writer_methods": sorted(dt_writer_methods)})

    def txt(n: int) -> str:
        return u(g.stmt[n])[:60] if n in g.stmt else str(n)

    # (a) arm polarity
    r_true, r_false = _reach(g, env(True, False)), _reach(g, env(False, False))
    for nm, nodes, want in ((M_RECOMP, A_rec, True), (M_ITER, A_it, False)):
        for a_ in nodes:
            in_t, in_f = a_ in r_true, a_ in r_false
            ctx.check("R1", (in_t, in_f) == (want, not want), mod, q, g.stmt[a_],
                      f"{nm} must be the arm taken exactly when recompute_solution is {str(want).lower()}",
                      construct=f"self.{nm}() <-> recompute_solution={want}",
                      facts={"reachable_if_true": in_t, "reachable_if_false": in_f})
    # (b) a failed step cannot leave without the recomputation adaptation
    leak = _reach(g, env(True, False), avoid=frozenset(A_rec))
    ctx.check("R1", cfgmod.EXIT not in leak, mod, q, fn,
              "with recompute_solution=True (adaptive stepping) a normal exit is reachable without passing "
              f"{M_RECOMP}: the clock of a failed step would not be rewound (e.g. a failed last step ends the simulation)",
              construct="recompute_solution=True -> exit without recomputation adaptation",
              facts={"exit_preds": [txt(p) for p in g.g.predecessors(cfgmod.EXIT) if p in leak]})
    # (c) a converged step leaves without the iteration adaptation only by `return None`
    leak = _reach(g, env(False, False), avoid=frozenset(A_it))
    bad = [p for p in g.g.predecessors(cfgmod.EXIT) if p in leak and not (
        isinstance(g.stmt.get(p), ast.Return) and (g.stmt[p].value is None or (
            isinstance(g.stmt[p].value, ast.Constant) and g.stmt[p].value.value is None)))]
    ctx.check("R1", not bad, mod, q, fn,
              f"with recompute_solution=False only the final-time shortcut (`return None`) may bypass {M_ITER}",
              construct="recompute_solution=False -> exit without iteration adaptation",
              facts={"offending_exits": [txt(p) for p in bad]})
    # (d) constant path: dt untouched
    r_const = _reach(g, env(None, True))
    touched = sorted(w for w in writers if w in r_const)
    ctx.check("R1", not touched, mod, q, fn,
              "a writer of self.dt is reachable when is_constant is true",
              construct="is_constant -> no dt writer", facts={"writers": [txt(w) for w in touched]})
    for p in g.g.predecessors(cfgmod.EXIT):
        st = g.stmt.get(p)
        if p in r_const and isinstance(st, ast.Return) and st.value is not None and not (
                isinstance(st.value, ast.Constant) and st.value.value is None):
            attrs = {_self_attr(x) for x in ast.walk(st.value) if _self_attr(x)}
            ctx.check("R1", attrs <= {"dt_init", "dt"} and bool(attrs), mod, q, st,
                      "the constant path must return the (untouched) constant step", facts={"reads": sorted(attrs)})
    # (e) order on the adaptive path
    r_adapt = _reach(g, env(None, False))
    adaptive_exit = [p for p in g.g.predecessors(cfgmod.EXIT) if p in g.stmt and p in r_adapt
                     and any(g.reachable(a_, p) for a_ in A_it + A_rec)]
    if not adaptive_exit:
        raise Undecided(f"{TSC}:{q}: no exit after an adaptation found")
    for p in adaptive_exit:
        ctx.check("R1", not g.reachable(cfgmod.ENTRY, p, avoiding=fS) and p not in fS, mod, q, g.stmt[p],
                  "every exit after an adaptation must be preceded by the schedule correction on every path",
                  construct=f"{M_SCHED} on every path to `{txt(p)[:40]}`")
        late = [w for w in writers if w not in fS and (w == p or g.reachable(w, p, avoiding=fS))]
        ctx.check("R1", not late, mod, q, g.stmt[p],
                  "the schedule correction must be the last writer of dt before the return: a later clamp / adaptation can "
                  "move time + dt off the scheduled time",
                  construct=f"{M_SCHED} is the last dt writer before `{txt(p)[:40]}`",
                  facts={"later_writers": [txt(w) for w in late]})
    for nm, K in ((M_MIN, K_min), (M_MAX, K_max)):
        for s_ in S:
            if s_ not in r_adapt:
                continue
            ctx.check("R1", not g.reachable(cfgmod.ENTRY, s_, avoiding=frozenset(K)), mod, q, g.stmt[s_],
                      f"{nm} must run on every path before the schedule correction (a step may leave [dt_min, dt_max] only "
                      "because it was shortened to hit the schedule)", construct=f"{nm} on every path to {M_SCHED}")
        for anm, A in ((M_ITER, A_it), (M_RECOMP, A_rec)):
            for k in K:
                before = [a_ for a_ in A if g.reachable(k, a_)]
                ctx.check("R1", not before, mod, q, g.stmt[k],
                          f"{anm} must precede {nm}: an adaptation after the clamp can leave the admissible range",
                          construct=f"{anm} never after {nm}", facts={"adaptations_after_clamp": [txt(a_) for a_ in before]})


# ------------------------------------------------------------------ R2

def _cmp_norm(test: ast.expr, small: str, big: str) -> Optional[str]:
    """Relation between self.<small> and self.<big> expressed by test: '<', '<=', '>', '>=' (small REL big)."""
    if isinstance(test, ast.UnaryOp) and isinstance(test.op, ast.Not):
        inner = _cmp_norm(test.operand, small, big)
        return None if inner is None else {"<": ">=", "<=": ">", ">": "<=", ">=": "<"}[inner]
    if not (isinstance(test, ast.Compare) and len(test.ops) == 1):
        return None
    l, r = _self_attr(test.left), _self_attr(test.comparators[0])
    sym = {ast.Lt: "<", ast.LtE: "<=", ast.Gt: ">", ast.GtE: ">="}.get(type(test.ops[0]))
    if sym is None:
        return None
    if (l, r) == (small, big):
        return sym
    if (l, r) == (big, small):
        return {"<": ">", "<=": ">=", ">": "<", ">=": "<="}[sym]
    return None


def _rule_recomputation(ctx: Ctx, mod, meths: dict) -> dict:
    fn = _inline_helpers(meths[M_RECOMP], meths.get)
    q = f"{CLS}.{M_RECOMP}"
    g = cfgmod.build(fn)
    T = [n for n in _writes(g, "time") if (_delta(g.stmt[n], "time") or ("?", None))[0] == "-"]
    other_time = [n for n in _writes(g, "time") if n not in T]
    if other_time:
        raise Undecided(f"{TSC}:{q}: unrecognised write to self.time: {u(g.stmt[other_time[0]])}")
    if not T:
        ctx.check("R2", False, mod, q, fn, "no rewind of self.time (`self.time -= self.dt`) on the recomputation path: a "
                  "failed step does not return the clock to the last accepted time", construct="rewind of self.time")
        return {"g": g, "T": [], "fn": fn}
    D = _writes(g, "dt")
    if not D:
        raise AnchorError(f"{TSC}:{q}: no write to self.dt")
    for t in T:
        amount = _delta(g.stmt[t], "time")[1]
        read_at = t
        for _ in range(3):  # `old_dt = self.dt; ...; self.time -= old_dt`: the step is read where the temporary is defined
            if not isinstance(amount, ast.Name):
                break
            defs = [n for n, s_ in g.stmt.items() if isinstance(s_, (ast.Assign, ast.AnnAssign)) and any(
                isinstance(x, ast.Name) and x.id == amount.id for x in assigned_targets(s_))]
            if len(defs) != 1 or getattr(g.stmt[defs[0]], "value", None) is None or not g.dominates(defs[0], t):
                break
            read_at, amount = defs[0], g.stmt[defs[0]].value
        ctx.check("R2", u(amount) == "self.dt", mod, q, g.stmt[t],
                  "the clock must be rewound by exactly the step that was taken (self.dt)", facts={"amount": u(amount)})
        ctx.check("R2", _on_all_normal_paths(g, t), mod, q, g.stmt[t],
                  "the rewind must happen on every normally returning path of the recomputation adaptation",
                  construct="rewind on all normal paths")
        early = [d for d in D if g.reachable(d, read_at)]
        ctx.check("R2", not early, mod, q, g.stmt[t],
                  "self.dt is modified before the clock is rewound: `time -= dt` then subtracts the *new* step and the "
                  "clock does not return to the last accepted time",
                  construct="rewind reads dt before dt is shrunk", facts={"dt_writes_before": [u(g.stmt[d]) for d in early]})
    for d in D:
        dl = _delta(g.stmt[d], "dt")
        ok = dl is not None and dl[0] == "*" and _self_attr(dl[1]) == "recomp_factor"
        ctx.check("R2", ok, mod, q, g.stmt[d], "on recomputation dt must be multiplied by self.recomp_factor (< 1)",
                  facts={"op": dl[0] if dl else None})
        ctx.check("R2", _on_all_normal_paths(g, d), mod, q, g.stmt[d],
                  "dt must shrink on every normally returning path", construct="dt shrink on all normal paths")
    # time index and counter
    for attr, sign, what in (("time_index", "-", "time index must be decremented with the rewind (mirror of increase_time_index)"),
                             ("_recomp_num", "+", "the recomputation counter must be incremented on every attempt")):
        ws = [n for n in _writes(g, attr) if (_delta(g.stmt[n], attr) or ("?", None))[0] == sign and _is_int(_delta(g.stmt[n], attr)[1], 1)]
        ok = len(ws) == 1 and len(_writes(g, attr)) == 1 and _on_all_normal_paths(g, ws[0])
        ctx.check("R2", ok, mod, q, g.stmt[ws[0]] if ws else fn, what + " exactly once on every normally returning path",
                  construct=f"self.{attr} {sign}= 1 on all normal paths",
                  facts={"writes": [u(g.stmt[n]) for n in _writes(g, attr)]})
    # budget test
    tests = [(n, _cmp_norm(g.stmt[n].test, "_recomp_num", "recomp_max")) for n in g.nodes_of(lambda s: isinstance(s, ast.If))]
    tests = [(n, r) for n, r in tests if r is not None]
    if len(tests) != 1:
        raise Undecided(f"{TSC}:{q}: expected one comparison of _recomp_num with recomp_max, found {len(tests)}")
    bn, rel = tests[0]
    strict = rel in ("<", ">=")
    ctx.check("R2", strict, mod, q, g.stmt[bn].test,
              "the budget test must be the strict `_recomp_num < recomp_max` (the counter starts at 0 and counts attempts): "
              "otherwise one attempt too many / too few is allowed", facts={"relation": f"_recomp_num {rel} recomp_max"})
    if strict:
        ok_edge = rel == "<"  # edge label on which another attempt is allowed
        succ_ok = [m for m in g.g.successors(bn) if g.g.edges[bn, m].get("cond") in (ok_edge, None)]
        succ_no = [m for m in g.g.successors(bn) if g.g.edges[bn, m].get("cond") in ((not ok_edge), None)]
        exhausted_returns = any(m == cfgmod.EXIT or g.reachable(m, cfgmod.EXIT) for m in succ_no)
        exhausted_rewinds = any(m in T or any(g.reachable(m, t) for t in T) for m in succ_no)
        ctx.check("R2", g.dominates(bn, T[0]) and not exhausted_returns and not exhausted_rewinds and bool(succ_ok), mod, q,
                  g.stmt[bn].test, "when the budget is exhausted the method must raise (never return normally or rewind)",
                  construct="exhausted budget -> raise", facts={"returns": exhausted_returns, "rewinds": exhausted_rewinds})
    return {"g": g, "T": T, "fn": fn}


# ------------------------------------------------------------------ R3

def _flag_exprs(g: cfgmod.CFG) -> list[int]:
    """Nodes `self.<flag> = <non-constant test>`."""
    return [n for n in _writes(g, FLAG) if isinstance(g.stmt[n], (ast.Assign, ast.AnnAssign)) and g.stmt[n].value is not None
            and not isinstance(g.stmt[n].value, ast.Constant)]


def _flag_sets(g: cfgmod.CFG, value: bool) -> list[int]:
    return [n for n in _writes(g, FLAG) if isinstance(g.stmt[n], (ast.Assign, ast.AnnAssign)) and isinstance(
        g.stmt[n].value, ast.Constant) and g.stmt[n].value.value is value]


def _rule_cursor(ctx: Ctx, mod, meths: dict, rec: dict) -> None:
    n_inc = n_dec = 0
    flag_atom = f"self.{FLAG}"
    sched_fn = _inline_helpers(meths[M_SCHED], meths.get, skip=frozenset({M_SCHED}))
    analysed = {M_RECOMP: rec["fn"], M_SCHED: sched_fn}
    # helpers of the two methods were inlined into them; they are not analysed on their own
    inlined = {c.func.attr for m_ in (M_RECOMP, M_SCHED) for c in walk_local(meths[m_]) if isinstance(c, ast.Call)
               and isinstance(c.func, ast.Attribute) and u(c.func.value) == "self"} - {M_RECOMP, M_SCHED}
    for name, fn0 in meths.items():
        fn = analysed.get(name, fn0)
        if CURSOR not in _method_writes(fn) or (name in inlined and name not in analysed):
            continue
        q = f"{CLS}.{name}"
        g = rec["g"] if name == M_RECOMP else cfgmod.build(fn)
        pm = parent_map(fn)
        for n in _writes(g, CURSOR):
            st = g.stmt[n]
            dl = _delta(st, CURSOR)
            if dl is None:
                if name != "__init__":
                    ctx.note(f"R3: {q}: unclassified write to the schedule cursor: {u(st)}")
                continue
            if dl[0] not in "+-":
                raise Undecided(f"{TSC}:{q}: unrecognised cursor update {u(st)}")
            ctx.check("R3", _is_int(dl[1], 1), mod, q, st, "the schedule cursor moves by exactly one scheduled time",
                      construct=f"self.{CURSOR} {dl[0]}= 1", facts={"amount": u(dl[1])})
            if dl[0] == "+":
                n_inc += 1
                F = _flag_sets(g, True)
                together = any((g.dominates(f, n) and g.postdominates(n, f)) or (g.dominates(n, f) and g.postdominates(f, n))
                               for f in F)
                for x in _flag_exprs(g):
                    # `flag = <test>` form: the increment runs exactly on the paths on which the flag was set true
                    e_txt = u(g.stmt[x].value)
                    no, yes = {flag_atom: False, e_txt: False}, {flag_atom: True, e_txt: True}
                    together = together or (g.dominates(x, n) and n not in _reach(g, no, start=x)
                                            and cfgmod.EXIT not in _reach(g, yes, avoid=frozenset({n}), start=x))
                ctx.check("R3", together, mod, q, st,
                          f"the cursor is advanced without setting {FLAG} on the same paths: a failure of that step would not "
                          "step the cursor back and the scheduled time is skipped",
                          construct=f"self.{CURSOR} += 1 together with {FLAG} = True")
            else:
                n_dec += 1
                conds = _path_conds(pm, st, fn)
                vals = [(_ev(t, {flag_atom: False}) if pol else _neg(_ev(t, {flag_atom: False}))) for t, pol in conds]
                ctx.check("R3", False in vals, mod, q, st,
                          f"the cursor is stepped back although {FLAG} may be false: after a failed step that was not about "
                          "to hit the schedule the cursor points one scheduled time too early",
                          construct=f"self.{CURSOR} -= 1 guarded by {FLAG}",
                          facts={"conditions": [(u(t), pol) for t, pol in conds]})
                T = rec["T"] if name == M_RECOMP else []
                with_rewind = any(g.dominates(t, n) or g.postdominates(t, n) for t in T)
                ctx.check("R3", with_rewind, mod, q, st,
                          "the cursor may only be stepped back together with the rewind of the clock",
                          construct=f"self.{CURSOR} -= 1 together with the rewind")
    if n_inc < 1 or n_dec < 1:
        raise AnchorError(f"{TSC}:{CLS}: schedule cursor increments/decrements not found ({n_inc}/{n_dec})")

    # flag reset and the corrected step in the schedule correction
    fn = sched_fn
    q = f"{CLS}.{M_SCHED}"
    g = cfgmod.build(fn)
    Z, F, X = _flag_sets(g, False), _flag_sets(g, True), _flag_exprs(g)
    other = [n for n in _writes(g, FLAG) if n not in Z and n not in F and n not in X]
    if other or (X and (Z or F)):
        raise Undecided(f"{TSC}:{q}: {FLAG} is maintained by an unrecognised mix of assignments")
    incs = [n for n in _writes(g, CURSOR) if (_delta(g.stmt[n], CURSOR) or ("?", None))[0] == "+"]
    # `flag = <test>` on every pass is a reset and a set in one statement
    Z = Z + X
    ok = bool(Z) and any(_on_all_normal_paths(g, z) and all(g.dominates(z, f) for f in F + incs) for z in Z)
    ctx.check("R3", ok, mod, q, g.stmt[Z[0]] if Z else fn,
              f"{FLAG} must be reset to False on every pass before it can be set: a stale True makes the next failed step "
              "move the cursor back although no scheduled time was targeted",
              construct=f"{FLAG} = False on every pass, before any set / cursor move")
    # corrected dt
    C = []
    for n in _writes(g, "dt"):
        st = g.stmt[n]
        if isinstance(st, ast.Assign) and isinstance(st.value, ast.BinOp) and isinstance(st.value.op, ast.Sub):
            C.append(n)
        else:
            raise Undecided(f"{TSC}:{q}: unrecognised write to dt: {u(st)}")
    if not C:
        raise AnchorError(f"{TSC}:{q}: no corrected step `self.dt = <schedule time> - self.time`")
    reads: list[int] = []
    for cn in C:
        st = g.stmt[cn]
        left, right = st.value.left, st.value.right
        def_node = None
        src = left
        for _ in range(4):  # follow single-definition temporaries back to the read of the schedule
            if not isinstance(src, ast.Name):
                break
            defs = [n for n, s_ in g.stmt.items() if isinstance(s_, (ast.Assign, ast.AnnAssign)) and any(
                isinstance(t, ast.Name) and t.id == src.id for t in assigned_targets(s_))]
            if len(defs) != 1 or getattr(g.stmt[defs[0]], "value", None) is None:
                raise Undecided(f"{TSC}:{q}: `{src.id}` is not defined exactly once")
            def_node = defs[0]
            src = g.stmt[def_node].value
        is_sched_read = (isinstance(src, ast.Subscript) and _self_attr(src.value) == "schedule"
                         and _self_attr(src.slice) == CURSOR)
        if not is_sched_read:
            ctx.check("R3", False, mod, q, st, "the corrected step must be `schedule[cursor] - self.time`",
                      construct="corrected dt = schedule[cursor] - time", facts={"left": u(src), "right": u(right)})
            continue
        read_at = def_node if def_node is not None else cn
        reads.append(read_at)
        if def_node is None:
            # schedule[cursor] evaluated in the assignment itself: any earlier increment makes it the wrong entry
            moved = [i for i in incs if g.reachable(i, cn)]
        else:
            # exactly one increment since the (last) read: never two increments without re-reading the entry
            rd = frozenset({def_node})
            moved = [i for i in incs for j in incs
                     if g.reachable(i, j, avoiding=rd) and (j == cn or g.reachable(j, cn, avoiding=rd))]
        ok = u(right) == "self.time" and not moved and (def_node is None or g.dominates(def_node, cn))
        ctx.check("R3", ok, mod, q, st,
                  "the corrected step must be `schedule[cursor] - self.time` with the cursor read *before* it is advanced "
                  "(otherwise the step targets the scheduled time after the next one, or has the wrong sign)",
                  construct="corrected dt = schedule[cursor before increment] - time",
                  facts={"left": u(src), "right": u(right), "cursor_moved_before_read": bool(moved)})
        # the correction only happens on paths that also advance the cursor and set the flag
        flag_on = any(g.dominates(f, cn) for f in F) or any(
            g.dominates(x, cn) and cn not in _reach(g, {flag_atom: False, u(g.stmt[x].value): False}, start=x) for x in X)
        ok = any(g.dominates(i, cn) for i in incs) and flag_on
        ctx.check("R3", ok, mod, q, st,
                  "the step is shortened to a scheduled time only on paths that also advance the cursor and set the flag",
                  construct="corrected dt only together with cursor advance")


    # advance => correct or re-check: no normally returning path may advance the cursor and return with dt neither
    # assigned from the entry it advanced past nor re-evaluated against the next entry
    R = set(_self_calls(g, M_SCHED))           # recursive re-evaluation
    for i in incs:
        R |= {r for r in reads if r not in C and g.reachable(i, r)}   # loop form: the entry is read again
    stop = frozenset(set(C) | R)
    for i in incs:
        seen_, stack, leak_path = {i}, [i], None
        while stack and leak_path is None:
            n = stack.pop()
            stn = g.stmt.get(n)
            exhausted_edge = _no_next_entry_edge(stn.test) if isinstance(stn, (ast.If, ast.While)) else None
            for m in g.g.successors(n):
                cond = g.g.edges[n, m].get("cond")
                if exhausted_edge is not None and cond == exhausted_edge:
                    continue  # cursor past the last entry: nothing left to check against
                if m == cfgmod.EXIT:
                    leak_path = n
                    break
                if m in stop or m in seen_ or m == cfgmod.RAISE:
                    continue
                seen_.add(m)
                stack.append(m)
        ctx.check("R3", leak_path is None, mod, q, g.stmt[i],
                  "a normally returning path advances the schedule cursor and returns with dt neither corrected to the entry "
                  "it advanced past nor re-checked against the next entry: after a step that landed exactly on a scheduled "
                  "time the next scheduled time can be stepped over (and the following correction is negative)",
                  construct="cursor advance -> corrected dt | re-evaluation against next entry",
                  facts={"leaves_through": u(g.stmt[leak_path])[:80] if leak_path in g.stmt else None,
                         "re_evaluations": [u(g.stmt[r])[:60] for r in sorted(R)]})


def _no_next_entry_edge(test: ast.expr) -> Optional[bool]:
    """If test compares the cursor with len(self.schedule) so that one edge means `cursor >= len(schedule)` (no entry
    left), return the label of that edge; None otherwise."""
    if isinstance(test, ast.UnaryOp) and isinstance(test.op, ast.Not):
        inner = _no_next_entry_edge(test.operand)
        return None if inner is None else (not inner)
    if not (isinstance(test, ast.Compare) and len(test.ops) == 1):
        return None

    def lin(e: ast.expr) -> Optional[dict]:
        if _self_attr(e) == CURSOR:
            return {"i": 1}
        if isinstance(e, ast.Call) and call_name(e) == "len" and len(e.args) == 1 and _self_attr(e.args[0]) == "schedule":
            return {"L": 1}
        if isinstance(e, ast.Attribute) and e.attr == "size" and _self_attr(e.value) == "schedule":
            return {"L": 1}
        if isinstance(e, ast.Constant) and type(e.value) is int:
            return {1: e.value}
        if isinstance(e, ast.BinOp) and isinstance(e.op, (ast.Add, ast.Sub)):
            a, b = lin(e.left), lin(e.right)
            if a is None or b is None:
                return None
            out = dict(a)
            for k, v in b.items():
                out[k] = out.get(k, 0) + (v if isinstance(e.op, ast.Add) else -v)
            return out
        return None

    l, r = lin(test.left), lin(test.comparators[0])
    if l is None or r is None:
        return None
    d = {k: l.get(k, 0) - r.get(k, 0) for k in set(l) | set(r)}
    op = type(test.ops[0])
    if d.get("i", 0) == -1 and d.get("L", 0) == 1:
        d = {k: -v for k, v in d.items()}
        op = {ast.Gt: ast.Lt, ast.GtE: ast.LtE, ast.Lt: ast.Gt, ast.LtE: ast.GtE}.get(op, op)
    if not (d.get("i", 0) == 1 and d.get("L", 0) == -1):
        return None
    c = d.get(1, 0)  # test is  i - L + c  <op>  0 ; "in range" is i - L <= -1
    if (op is ast.Lt and c == 0) or (op is ast.LtE and c == 1):
        return False   # test true <=> in range, so the False edge is the exhausted one
    if (op is ast.GtE and c == 0) or (op is ast.Gt and c == 1):
        return True
    return None


def _neg(v: Optional[bool]) -> Optional[bool]:
    return None if v is None else (not v)


# ------------------------------------------------------------------ R4

def _rule_counters_and_loop(ctx: Ctx, mod, meths: dict, rec: dict) -> None:
    # recomputation counter reset on the converged path
    fn = meths[M_ITER]
    q = f"{CLS}.{M_ITER}"
    g = cfgmod.build(fn)
    resets = [n for n in _writes(g, "_recomp_num") if isinstance(g.stmt[n], ast.Assign) and _is_int(g.stmt[n].value, 0)]
    ctx.check("R4", bool(resets) and any(_on_all_normal_paths(g, n) for n in resets), mod, q, g.stmt[resets[0]] if resets else fn,
              "the recomputation counter must be reset to 0 on every normally returning path of the iteration adaptation "
              "(recomp_max bounds *consecutive* attempts)", construct="self._recomp_num = 0 on all normal paths")
    # mirror of the rewind
    for name, attr, want in (("increase_time", "time", "self.dt"), ("increase_time_index", "time_index", "1")):
        f = meths.get(name)
        if f is None:
            raise AnchorError(f"{TSC}:{CLS}.{name} missing")
        gg = cfgmod.build(f)
        ws = _writes(gg, attr)
        dl = _delta(gg.stmt[ws[0]], attr) if len(ws) == 1 else None
        ok = dl is not None and dl[0] == "+" and u(dl[1]) == want and _on_all_normal_paths(gg, ws[0]) \
            and _method_writes(f) == {attr}
        ctx.check("R4", ok, mod, f"{CLS}.{name}", f, f"{name} must be exactly `self.{attr} += {want}` (the recomputation "
                  "adaptation undoes exactly this)", construct=f"self.{attr} += {want}",
                  facts={"writes": sorted(_method_writes(f))})
    # time loops
    run = ctx.repo.module(RUN)
    for outer in ("run_time_dependent_model", "_run_iterative_model"):
        q = f"{outer}.time_step"
        f = run.func(q)
        gg = cfgmod.build(f)
        solves = [n for n, c in _call_nodes(gg, lambda c: call_name(c) == "solve")]
        it = [n for n, c in _call_nodes(gg, lambda c: call_name(c) == "increase_time")]
        ii = [n for n, c in _call_nodes(gg, lambda c: call_name(c) == "increase_time_index")]
        if not solves:
            raise AnchorError(f"{RUN}:{q}: no solver.solve call")
        for nm, nodes in (("increase_time", it), ("increase_time_index", ii)):
            ok = len(nodes) == 1 and all(gg.dominates(nodes[0], s) and not gg.reachable(s, nodes[0]) for s in solves)
            ctx.check("R4", ok, run, q, gg.stmt[nodes[0]] if nodes else f,
                      f"{nm} must be called exactly once before the solve of a time step (the failure hook rewinds exactly "
                      "one step)", construct=f"{nm} once, before solve", facts={"calls": len(nodes)})
        of = run.func(outer)
        loops = [w for w in walk_local(of) if isinstance(w, ast.While)]
        ok = False
        for w in loops:
            t = w.test
            neg_final = isinstance(t, ast.UnaryOp) and isinstance(t.op, ast.Not) and isinstance(t.operand, ast.Call) \
                and call_name(t.operand) == "final_time_reached"
            steps = any(isinstance(c, ast.Call) and isinstance(c.func, ast.Name) and c.func.id == "time_step"
                        for s in w.body for c in ast.walk(s))
            ok = ok or (neg_final and steps)
        ctx.check("R4", ok, run, outer, loops[0] if loops else of,
                  "the time loop must run time_step() while not final_time_reached()",
                  construct="while not final_time_reached(): time_step()")
    # hooks
    sol = ctx.repo.module(SOLSTRAT)
    smeths = methods(sol.cls("SolutionStrategy"))
    f = _inline_helpers(sol.func("SolutionStrategy.after_nonlinear_convergence"), smeths.get)
    _opaque_helpers(f, smeths.get, {"compute_time_step"}, f"{SOLSTRAT}:after_nonlinear_convergence")
    gg = cfgmod.build(f)
    calls = _call_nodes(gg, lambda c: call_name(c) == "compute_time_step")
    good = [n for n, c in calls if (kwarg(c, "iterations") is not None or c.args) and not _truthy(kwarg(c, "recompute_solution"))]
    tm_names = ["self.time_manager"] + [t.id for s_ in walk_local(f) if isinstance(s_, (ast.Assign, ast.AnnAssign))
                                        and s_.value is not None and u(s_.value) == "self.time_manager"
                                        for t in assigned_targets(s_) if isinstance(t, ast.Name)]
    leak = _reach(gg, {f"{nm}.is_constant": False for nm in tm_names}, avoid=frozenset(good))
    ctx.check("R4", bool(good) and cfgmod.EXIT not in leak, sol, "SolutionStrategy.after_nonlinear_convergence", f,
              "after a converged step with adaptive stepping compute_time_step(iterations=...) must be reached on every "
              "path: it is what shortens the next step to the next scheduled time",
              construct="converged -> compute_time_step(iterations=...)", facts={"calls": [u(c) for _, c in calls]})
    f = _inline_helpers(sol.func("SolutionStrategy.after_nonlinear_failure"), smeths.get)
    _opaque_helpers(f, smeths.get, {"compute_time_step"}, f"{SOLSTRAT}:after_nonlinear_failure")
    gg = cfgmod.build(f)
    calls = _call_nodes(gg, lambda c: call_name(c) == "compute_time_step")
    good = [n for n, c in calls if _truthy(kwarg(c, "recompute_solution")) or (len(c.args) >= 2 and _truthy(c.args[1]))]
    ctx.check("R4", bool(good) and any(_on_all_normal_paths(gg, n) for n in good), sol,
              "SolutionStrategy.after_nonlinear_failure", f,
              "a failed step must reach compute_time_step(recompute_solution=True) on every normally returning path",
              construct="failed -> compute_time_step(recompute_solution=True)", facts={"calls": [u(c) for _, c in calls]})


def _truthy(e: Optional[ast.AST]) -> bool:
    return isinstance(e, ast.Constant) and e.value is True


# ------------------------------------------------------------------ R5

def _rule_clamps(ctx: Ctx, mod, meths: dict) -> None:
    for name, idx, want in ((M_MIN, 0, "<"), (M_MAX, 1, ">")):
        fn = meths[name]
        q = f"{CLS}.{name}"
        g = cfgmod.build(fn)
        ws = _writes(g, "dt")
        if len(ws) == 1 and isinstance(g.stmt[ws[0]], ast.Assign) and isinstance(g.stmt[ws[0]].value, ast.Call) \
                and call_name(g.stmt[ws[0]].value) in ("max", "min", "maximum", "minimum") and len(g.stmt[ws[0]].value.args) == 2:
            # `self.dt = max(self.dt, dt_min)` / `self.dt = min(self.dt, dt_max)`
            c = g.stmt[ws[0]].value
            args = [u(a) for a in c.args]
            bounds = [a for a in c.args if u(a) != "self.dt"]
            fam = "max" if call_name(c).startswith("max") else "min"
            is_bound = len(bounds) == 1 and isinstance(bounds[0], ast.Subscript) and _self_attr(bounds[0].value) == "dt_min_max" \
                and _is_int(bounds[0].slice, idx)
            ok = "self.dt" in args and is_bound and fam == ("max" if want == "<" else "min") and _on_all_normal_paths(g, ws[0])
            ctx.check("R5", ok, mod, q, g.stmt[ws[0]],
                      f"{name} must clamp dt with self.dt_min_max[{idx}] ({'max' if want == '<' else 'min'} of the two)",
                      construct=f"self.dt = {u(c)}", facts={"call": u(c)})
            continue
        ifs = [s for s in walk_local(fn) if isinstance(s, ast.If) and isinstance(s.test, ast.Compare) and len(s.test.ops) == 1]
        ifs = [s for s in ifs if "self.dt" in (u(s.test.left), u(s.test.comparators[0]))]
        if len(ws) != 1 or len(ifs) != 1 or not isinstance(g.stmt[ws[0]], ast.Assign):
            raise Undecided(f"{TSC}:{q}: clamp is not of the form `if self.dt <op> B: self.dt = B`")
        test = ifs[0].test
        sym = {ast.Lt: "<", ast.LtE: "<", ast.Gt: ">", ast.GtE: ">"}.get(type(test.ops[0]))
        if u(test.left) == "self.dt":
            bound = test.comparators[0]
        else:
            bound = test.left
            sym = {"<": ">", ">": "<"}.get(sym)
        assigned = g.stmt[ws[0]].value
        in_body = any(g.stmt[ws[0]] is s for s in ifs[0].body)
        is_bound = isinstance(bound, ast.Subscript) and _self_attr(bound.value) == "dt_min_max" and _is_int(bound.slice, idx)
        ok = sym == want and is_bound and u(assigned) == u(bound) and in_body
        ctx.check("R5", ok, mod, q, ifs[0],
                  f"{name} must be `if self.dt {want} self.dt_min_max[{idx}]: self.dt = self.dt_min_max[{idx}]`",
                  construct=f"if self.dt {sym} {u(bound)}: self.dt = {u(assigned)}",
                  facts={"op": sym, "bound": u(bound), "assigned": u(assigned)})


# ------------------------------------------------------------------ entry point

def run(ctx: Ctx) -> None:
    mod = ctx.repo.module(TSC)
    meths = methods(mod.cls(CLS))
    _rule_compute(ctx, mod, meths)
    rec = _rule_recomputation(ctx, mod, meths)
    _rule_cursor(ctx, mod, meths, rec)
    _rule_counters_and_loop(ctx, mod, meths, rec)
    _rule_clamps(ctx, mod, meths)


def _m(name, file, old, new, rule, control=False, count=1):
    return dict(name=name, file=file, old=old, new=new, rule=rule, control=control, count=count)


MUTANTS = [
    _m("schedule-correction-before-clamps", TSC,
       "        self._correction_based_on_dt_min()\n        self._correction_based_on_dt_max()\n        self._correction_based_on_schedule()\n",
       "        self._correction_based_on_schedule()\n        self._correction_based_on_dt_min()\n        self._correction_based_on_dt_max()\n",
       "R1", control=True),
    _m("dt-shrunk-before-rewind", TSC,
       "            self.time -= self.dt  # (S1)\n            self.time_index -= 1  # (S2)\n            self.dt *= self.recomp_factor  # (S3)\n",
       "            self.dt *= self.recomp_factor  # (S3)\n            self.time -= self.dt  # (S1)\n            self.time_index -= 1  # (S2)\n",
       "R2", control=True),
    _m("revert-fix-exact-landing", TSC,
       "                if self._scheduled_idx < len(self.schedule):\n                    self._correction_based_on_schedule()\n                return\n",
       "                return\n", "R3", control=True),
    _m("recheck-skips-the-final-entry", TSC, "                if self._scheduled_idx < len(self.schedule):\n                    self._correction",
       "                if self._scheduled_idx < len(self.schedule) - 1:\n                    self._correction", "R3"),
    _m("unguarded-cursor-decrement", TSC,
       "            if self._is_about_to_hit_schedule:  # (S5)\n                self._scheduled_idx -= 1\n",
       "            self._scheduled_idx -= 1  # (S5)\n", "R3"),
    _m("flag-never-reset", TSC, "        self._is_about_to_hit_schedule = False\n\n        if self.time + self.dt",
       "        if self.time + self.dt", "R3"),
    _m("cursor-advanced-without-flag", TSC,
       "            self._is_about_to_hit_schedule = True\n            self._scheduled_idx += 1",
       "            self._scheduled_idx += 1", "R3"),
    _m("schedule-time-read-after-increment", TSC, "            self.dt = schedule_time - self.time  # Correcting time step.\n",
       "            self.dt = self.schedule[self._scheduled_idx] - self.time  # Correcting time step.\n", "R3"),
    _m("corrected-step-sign-flipped", TSC, "            self.dt = schedule_time - self.time  # Correcting time step.\n",
       "            self.dt = self.time - schedule_time  # Correcting time step.\n", "R3"),
    _m("cursor-decrement-in-else", TSC,
       "            if self._is_about_to_hit_schedule:  # (S5)\n                self._scheduled_idx -= 1\n",
       "            if not self._is_about_to_hit_schedule:  # (S5)\n                self._scheduled_idx -= 1\n", "R3"),
    _m("final-time-shortcut-swallows-failed-step", TSC,
       "        if not recompute_solution and self.final_time_reached():\n", "        if self.final_time_reached():\n", "R1"),
    _m("adaptation-arms-swapped", TSC, "        if not self._recomp_sol:\n            self._adaptation_based_on_iterations",
       "        if self._recomp_sol:\n            self._adaptation_based_on_iterations", "R1"),
    _m("max-clamp-after-schedule", TSC,
       "        self._correction_based_on_dt_max()\n        self._correction_based_on_schedule()\n",
       "        self._correction_based_on_schedule()\n        self._correction_based_on_dt_max()\n", "R1"),
    _m("clamp-before-adaptation", TSC,
       "        # Adapt time step\n        if not self._recomp_sol:",
       "        self._correction_based_on_dt_min()\n        if not self._recomp_sol:", "R1"),
    _m("constant-path-adapts", TSC, "            return self.dt_init\n",
       "            self._correction_based_on_schedule()\n            return self.dt_init\n", "R1"),
    _m("clock-not-rewound", TSC, "            self.time -= self.dt  # (S1)\n", "            pass  # (S1)\n", "R2"),
    _m("rewind-by-initial-step", TSC, "            self.time -= self.dt  # (S1)\n", "            self.time -= self.dt_init  # (S1)\n", "R2"),
    _m("time-index-not-rewound", TSC, "            self.time_index -= 1  # (S2)\n", "            pass  # (S2)\n", "R2"),
    _m("recomp-counter-not-incremented", TSC, "            self._recomp_num += 1  # (S4)\n", "            pass  # (S4)\n", "R2"),
    _m("budget-off-by-one", TSC, "        if self._recomp_num < self.recomp_max:\n", "        if self._recomp_num <= self.recomp_max:\n", "R2"),
    _m("dt-grows-on-recomputation", TSC, "            self.dt *= self.recomp_factor  # (S3)\n",
       "            self.dt /= self.recomp_factor  # (S3)\n", "R2"),
    _m("recomp-counter-never-reset", TSC, "        self._recomp_num = 0\n\n        # Proceed", "        # Proceed", "R4", control=True),
    _m("solve-before-clock-advance", RUN,
       "        model.time_manager.increase_time()\n        model.time_manager.increase_time_index()\n        logger.info(\n"
       "            f\"\\nTime step {model.time_manager.time_index} at time\"\n            + f\" {model.time_manager.time:.1e}\"\n",
       "        model.time_manager.increase_time_index()\n        logger.info(\n"
       "            f\"\\nTime step {model.time_manager.time_index} at time\"\n            + f\" {model.time_manager.time:.1e}\"\n",
       "R4"),
    _m("convergence-hook-skips-controller", SOLSTRAT,
       "            self.time_manager.compute_time_step(\n                iterations=self.nonlinear_solver_statistics.num_iteration\n            )\n",
       "            pass\n", "R4"),
    _m("seed-controller-skipped-for-linear-problems", SOLSTRAT,
       "        if not self.time_manager.is_constant:\n            self.time_manager.compute_time_step(\n                iterations=",
       "        if self._is_nonlinear_problem() and not self.time_manager.is_constant:\n            self.time_manager.compute_time_step(\n                iterations=", "R4"),
    _m("failure-hook-does-not-recompute", SOLSTRAT, "            self.time_manager.compute_time_step(recompute_solution=True)\n",
       "            self.time_manager.compute_time_step(iterations=self.nonlinear_solver_statistics.num_iteration)\n", "R4"),
    _m("min-clamp-uses-max-bound", TSC,
       "        if self.dt < self.dt_min_max[0]:\n            self.dt = self.dt_min_max[0]\n",
       "        if self.dt < self.dt_min_max[0]:\n            self.dt = self.dt_min_max[1]\n", "R5"),
    _m("max-clamp-direction", TSC, "        if self.dt > self.dt_min_max[1]:\n", "        if self.dt < self.dt_min_max[1]:\n", "R5"),
]
