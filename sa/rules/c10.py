"""C10 - the simulation driver keeps solution state consistent across failures.

R1  exit-path discipline of NewtonSolver.solve / LinearSolver.solve: exhaustive exploration of the
    statement CFG over the abstract state (flags returned by check_convergence, hook-call counts):
    every normal exit has called exactly one of after_nonlinear_convergence (iff True is returned)
    and after_nonlinear_failure (iff False is returned); the convergence hook is only reached after
    after_nonlinear_iteration; inside a Newton step the iterate is updated before convergence is
    checked.  D11 (verdict converged-and-diverged) is reported by this rule.
R2  hook bodies in SolutionStrategy: update_solution / after_nonlinear_iteration shift before the
    write to index 0 and write the hook's argument; after_nonlinear_convergence stores the values
    read at iterate_index=0; after_nonlinear_failure resets iterate 0 from time step 0, rewinds the
    clock and leaves the accepted history alone.
R3  override discipline: every override of these hooks under src/porepy calls super().<hook>(...)
    on every normally returning path (forwarding its arguments) or satisfies R2 itself.
"""
from __future__ import annotations

import ast
from typing import Optional

from ..core import cfg as cfgmod
from ..core.astutil import u, walk_local, call_name, arg_or_kw, kwarg, single_assign_value, assigned_targets, methods
from ..core.loader import AnchorError, Undecided
from ..core.report import Ctx
from .c08 import _indices_kind, KIND_INDICES_ATTR  # depth-expression classifier shared with C08-R4

NEWTON = "src/porepy/numerics/nonlinear/nonlinear_solvers.py"
LINEAR = "src/porepy/numerics/linear_solvers.py"
SOLSTRAT = "src/porepy/models/solution_strategy.py"
EQSYS = "src/porepy/numerics/ad/equation_system.py"
PKG = "src/porepy"

H_CONV = "after_nonlinear_convergence"
H_FAIL = "after_nonlinear_failure"
H_ITER = "after_nonlinear_iteration"
H_UPD = "update_solution"
H_LOOP = "before_nonlinear_loop"
HOOKS_WITH_BODY = (H_UPD, H_ITER, H_CONV, H_FAIL)
HOOKS = HOOKS_WITH_BODY + (H_LOOP,)

META = {
    "explanation": (
        "R1 is an exhaustive exploration (finite: CFG node x flag values x saturating hook counters) of the solver "
        "drivers over the abstract state (is_converged, is_diverged) with check_convergence as a nondeterministic "
        "writer and branch tests evaluated in three-valued logic: every normal exit must have called exactly one of "
        "after_nonlinear_convergence / after_nonlinear_failure, matching the returned value, and the convergence hook is "
        "only reachable after after_nonlinear_iteration; a verdict flag assigned in a nested function must be `nonlocal` "
        "(or returned and re-bound by the caller) whenever the driver reads it - a local shadow is a finding; each distinct (verdict, hooks called, returned value) is one "
        "obligation. The verdict (True, True) of NewtonSolver.solve reaches `return True` with no hook (D11, known "
        "finding); every other offending abstract path is a violation. R2 checks, on the statement CFG of the four "
        "SolutionStrategy hooks with arguments resolved against the real signatures of EquationSystem.set/get_variable_"
        "values: shift dominates the write to index 0 and is never reachable after it, the shift is capped by exactly "
        "len(self.<same-kind>_indices) (classifier shared with C08-R4), the written value is the hook's "
        "own parameter, additive only for the iterate update, the converged solution is read at iterate_index=0 with no "
        "intervening iterate write, the failure hook overwrites iterate 0 (non-additively) with the value read at "
        "time_step_index=0, reaches compute_time_step(recompute_solution=True) on every normal path and never touches "
        "the time-step history. R3 enumerates every class under src/porepy that defines one of the hooks (Protocol "
        "stubs and signature-incompatible namesakes excluded) and requires a forwarding super() call that post-dominates "
        "entry, or the R2 obligations on the override itself. Not decided: equality of the stored arrays for injected "
        "fault sequences; what overrides do besides calling super (e.g. the time-dependent boundary arrays, which "
        "before_nonlinear_loop shifts again on a repeated step)."),
    "rule_text": "one obligation per (abstract exit path of a solver | hook-body clause | hook override)",
    "trusted_base": ["python ast", "sa.core (loader, astutil, cfg)", "networkx dominators"],
    "assumptions": ["check_convergence may return any pair of booleans (the base implementation can return (True, True) "
                    "when nl_divergence_tol is finite)",
                    "the flags are written only by assignments visible in solve() or in a nested function it calls",
                    "hooks are invoked on the model through attribute calls named after the hook"],
    "technique": "abstract-state path exploration (model checking of the CFG over a finite domain) + CFG dominance + "
                 "class-table sweep",
}
MIN_INSTANCES = {"R1": 10, "R2": 16, "R3": 3}


# ------------------------------------------------------------------ generic helpers

def _header_roots(s: ast.AST) -> list[ast.AST]:
    if isinstance(s, (ast.If, ast.While)):
        return [s.test]
    if isinstance(s, (ast.For, ast.AsyncFor)):
        return [s.iter]
    if isinstance(s, (ast.With, ast.AsyncWith)):
        return [i.context_expr for i in s.items]
    if isinstance(s, ast.Match):
        return [s.subject]
    if isinstance(s, (ast.match_case, ast.ExceptHandler, ast.FunctionDef, ast.AsyncFunctionDef, ast.ClassDef)):
        return []
    return [s]


def _calls_at(g: cfgmod.CFG, n: int) -> list[ast.Call]:
    out = []
    for r in _header_roots(g.stmt[n]):
        out += [c for c in walk_local(r) if isinstance(c, ast.Call)]
    return out


def _call_nodes(g: cfgmod.CFG, pred) -> list[tuple[int, ast.Call]]:
    out = []
    for n in sorted(g.stmt):
        for c in _calls_at(g, n):
            if pred(c):
                out.append((n, c))
    return out


def _ev(e: ast.expr, env: dict[str, bool]) -> Optional[bool]:
    t = u(e)
    if t in env:
        return env[t]
    if isinstance(e, ast.Constant) and isinstance(e.value, bool):
        return e.value
    if isinstance(e, ast.Call) and isinstance(e.func, ast.Name) and e.func.id == "bool" and len(e.args) == 1 and not e.keywords:
        return _ev(e.args[0], env)
    if isinstance(e, ast.UnaryOp) and isinstance(e.op, ast.Not):
        v = _ev(e.operand, env)
        return None if v is None else (not v)
    if isinstance(e, ast.BoolOp):
        vals = [_ev(v, env) for v in e.values]
        if isinstance(e.op, ast.And):
            if any(v is False for v in vals):
                return False
            return True if all(v is True for v in vals) else None
        if any(v is True for v in vals):
            return True
        return False if all(v is False for v in vals) else None
    return None


def _params(fn: ast.FunctionDef, skip_self: bool = True) -> list[str]:
    ps = [a.arg for a in fn.args.posonlyargs + fn.args.args]
    return ps[1:] if skip_self and ps and ps[0] in ("self", "cls") else ps


def _is_none(e: Optional[ast.AST]) -> bool:
    return e is None or (isinstance(e, ast.Constant) and e.value is None)


def _is_zero(e: Optional[ast.AST]) -> bool:
    return isinstance(e, ast.Constant) and type(e.value) is int and e.value == 0


def _is_const(e: Optional[ast.AST], v) -> bool:
    return isinstance(e, ast.Constant) and e.value is v


def _hook_call(c: ast.Call, name: str) -> bool:
    return isinstance(c.func, ast.Attribute) and c.func.attr == name and not (
        isinstance(c.func.value, ast.Call) and call_name(c.func.value) == "super")


# ------------------------------------------------------------------ one-level inlining of private helpers

def _inline_helpers(fn: ast.FunctionDef, lookup, skip: frozenset = frozenset()) -> ast.FunctionDef:
    """Copy of fn in which (one level of) statement-level calls `self.h(...)` of a helper method h of the same class
    are replaced by h's body (parameters bound, helper locals renamed), and `for c in (self.a, self.b): c()` loops over
    a literal tuple of bound methods are unrolled.  Also `x = self.h(...)` with a plain local target.  Early / valued
    returns of the helper (outside its loops) are expressed as `while True: ...; break` so that no spurious path is
    added.  Helpers that contain nested defs, return from inside a loop or reassign a parameter are left alone.  The
    analysed structure is then the same whether or not a helper was extracted."""
    import copy

    def params_of(h: ast.FunctionDef) -> list[str]:
        ps = [a.arg for a in h.args.posonlyargs + h.args.args]
        return ps[1:] if ps and ps[0] in ("self", "cls") else ps

    def helper_body(call: ast.Call, target: Optional[str] = None) -> Optional[list]:
        f = call.func
        if not (isinstance(f, ast.Attribute) and isinstance(f.value, ast.Name) and f.value.id == "self"):
            return None
        h = lookup(f.attr)
        if h is None or h.name == fn.name or h.name in skip or h.args.vararg or h.args.kwarg:
            return None
        body = [s for s in h.body if not (isinstance(s, ast.Expr) and isinstance(s.value, ast.Constant)
                                          and isinstance(s.value.value, str))]
        if body and isinstance(body[-1], ast.Return) and body[-1].value is None:
            body = body[:-1]
        has_return = False
        for s in body:
            for n in walk_local(s):
                if isinstance(n, (ast.Yield, ast.YieldFrom, ast.FunctionDef, ast.AsyncFunctionDef, ast.Lambda,
                                  ast.Global, ast.Nonlocal, ast.ClassDef)):
                    return None
                if isinstance(n, (ast.For, ast.AsyncFor, ast.While)) and any(isinstance(x, ast.Return) for x in walk_local(n)):
                    return None  # a return inside a loop cannot be expressed as a break of the wrapper
                if isinstance(n, ast.Return):
                    has_return = True
        if target is not None and not has_return:
            return None  # `x = self.h()` of a helper that returns nothing: leave it alone
        ps = params_of(h)
        if any(isinstance(a, ast.Starred) for a in call.args) or any(k.arg is None for k in call.keywords) \
                or len(call.args) > len(ps):
            return None
        m: dict[str, ast.AST] = {p: a for p, a in zip(ps, call.args)}
        for k in call.keywords:
            if k.arg in m or k.arg not in ps + [a.arg for a in h.args.kwonlyargs]:
                return None
            m[k.arg] = k.value
        for pname, d in zip(ps[len(ps) - len(h.args.defaults):], h.args.defaults):
            m.setdefault(pname, d)
        for a, d in zip(h.args.kwonlyargs, h.args.kw_defaults):
            if d is not None:
                m.setdefault(a.arg, d)
        if set(ps) - set(m):
            return None
        stored = {t.id for s in body for n in walk_local(s) if isinstance(n, ast.stmt) for t in assigned_targets(n)
                  if isinstance(t, ast.Name)}
        if stored & set(m):
            return None
        ren = {nm: f"{nm}__{h.name}" for nm in stored}

        class T(ast.NodeTransformer):
            def visit_Name(self, n: ast.Name):
                if n.id in ren:
                    return ast.copy_location(ast.Name(id=ren[n.id], ctx=n.ctx), n)
                if n.id in m and isinstance(n.ctx, ast.Load):
                    return ast.copy_location(copy.deepcopy(m[n.id]), n)
                return n

            def visit_Return(self, n: ast.Return):
                out = []
                if n.value is not None:
                    val = self.visit(n.value)
                    if target is not None:
                        out.append(ast.copy_location(ast.Assign(targets=[ast.Name(id=target, ctx=ast.Store())], value=val), n))
                    else:
                        out.append(ast.copy_location(ast.Expr(value=val), n))
                elif target is not None:
                    out.append(ast.copy_location(ast.Assign(targets=[ast.Name(id=target, ctx=ast.Store())],
                                                            value=ast.Constant(value=None)), n))
                out.append(ast.copy_location(ast.Break(), n))
                return out

        new_body = []
        for s in body:
            r = T().visit(copy.deepcopy(s))
            new_body += r if isinstance(r, list) else [r]
        if has_return:
            anchor = body[0]
            tail = []
            if target is not None and not isinstance(body[-1], ast.Return):
                tail.append(ast.copy_location(ast.Assign(targets=[ast.Name(id=target, ctx=ast.Store())],
                                                         value=ast.Constant(value=None)), anchor))
            tail.append(ast.copy_location(ast.Break(), body[-1]))
            new_body = [ast.copy_location(ast.While(test=ast.Constant(value=True), body=new_body + tail, orelse=[]), anchor)]
        return [ast.fix_missing_locations(x) for x in new_body]

    def unrolled(s: ast.For) -> Optional[list]:
        if not (isinstance(s.target, ast.Name) and isinstance(s.iter, (ast.Tuple, ast.List)) and s.iter.elts and not s.orelse):
            return None
        if not all(isinstance(e, ast.Attribute) and isinstance(e.value, ast.Name) and e.value.id == "self" for e in s.iter.elts):
            return None
        if any(isinstance(n, (ast.Break, ast.Continue)) for b in s.body for n in walk_local(b)):
            return None
        out = []
        for e in s.iter.elts:
            class U(ast.NodeTransformer):
                def visit_Name(self, n: ast.Name):
                    if n.id == s.target.id and isinstance(n.ctx, ast.Load):
                        return ast.copy_location(copy.deepcopy(e), n)
                    return n
            out += [ast.fix_missing_locations(U().visit(copy.deepcopy(b))) for b in s.body]
        return out

    def rewrite(stmts: list, depth: int = 0) -> list:
        out = []
        for s in stmts:
            if isinstance(s, ast.For) and depth == 0:
                un = unrolled(s)
                if un is not None:
                    out += rewrite(un, depth)
                    continue
            if isinstance(s, ast.Expr) and isinstance(s.value, ast.Call) and depth == 0:
                b = helper_body(s.value)
                if b is not None:
                    out += rewrite(b, depth + 1)  # unroll loops inside, but do not inline a second level
                    continue
            if isinstance(s, (ast.Assign, ast.AnnAssign)) and isinstance(s.value, ast.Call) and depth == 0:
                tg = s.targets[0] if isinstance(s, ast.Assign) and len(s.targets) == 1 else getattr(s, "target", None)
                if isinstance(tg, ast.Name):
                    b = helper_body(s.value, target=tg.id)
                    if b is not None:
                        out += rewrite(b, depth + 1)
                        continue
            if not isinstance(s, (ast.FunctionDef, ast.AsyncFunctionDef, ast.ClassDef)):
                for field in ("body", "orelse", "finalbody"):
                    v = getattr(s, field, None)
                    if isinstance(v, list) and v and isinstance(v[0], ast.stmt):
                        setattr(s, field, rewrite(v, depth))
                if isinstance(s, ast.Try):
                    for hd in s.handlers:
                        hd.body = rewrite(hd.body, depth)
            out.append(s)
        return out

    fn2 = copy.deepcopy(fn)
    fn2.body = rewrite(fn2.body)
    return fn2


def _opaque_helpers(fn: ast.FunctionDef, lookup, relevant: set[str], where: str) -> None:
    """After inlining: a remaining call `self.h(...)` of a same-class helper that itself performs one of the `relevant`
    calls hides part of the analysed protocol -> Undecided (never a finding)."""
    for c in walk_local(fn):
        if isinstance(c, ast.Call) and isinstance(c.func, ast.Attribute) and isinstance(c.func.value, ast.Name) \
                and c.func.value.id == "self":
            h = lookup(c.func.attr)
            if h is None or h.name == fn.name or c.func.attr in relevant:
                continue
            inner = [x for x in walk_local(h) if isinstance(x, ast.Call) and call_name(x) in relevant]
            if inner:
                raise Undecided(f"{where}: helper self.{h.name}() performs `{call_name(inner[0])}` but could not be inlined "
                                "(returns a value / is used in an expression)")


# ------------------------------------------------------------------ R1: abstract exploration of a solver driver

def _is_cc_call(e: Optional[ast.AST]) -> bool:
    return isinstance(e, ast.Call) and call_name(e) == "check_convergence"


def _check_conv_targets(s: ast.stmt, cc_names: frozenset = frozenset()) -> Optional[list[Optional[str]]]:
    """Names bound to verdict components by statement s (None entries for `_` / non-names):
    `a, b = X.check_convergence(...)`, `a, b = status` and `a = status[0]` with `status = X.check_convergence(...)`.
    None if s does not write verdict components."""
    if not (isinstance(s, ast.Assign) and len(s.targets) == 1):
        return None
    t, v = s.targets[0], s.value
    from_cc = _is_cc_call(v) or (isinstance(v, ast.Name) and v.id in cc_names)
    if from_cc and isinstance(t, (ast.Tuple, ast.List)):
        return [e.id if isinstance(e, ast.Name) and e.id != "_" else None for e in t.elts]
    if isinstance(v, ast.Subscript) and (_is_cc_call(v.value) or (isinstance(v.value, ast.Name) and v.value.id in cc_names)) \
            and isinstance(t, ast.Name):
        return [t.id]
    return None


class _Driver:
    """Finite-state exploration of one solve() function."""

    def __init__(self, fn: ast.FunctionDef, where: str):
        self.fn = fn
        self.where = where
        self.g = cfgmod.build(fn)
        self.nested = {s.name: s for s in walk_local(fn) if isinstance(s, ast.FunctionDef) and s is not fn}
        self.cc_names = frozenset(t.id for scope in [fn] + list(self.nested.values()) for s in walk_local(scope)
                                  if isinstance(s, ast.Assign) and _is_cc_call(s.value) for t in s.targets if isinstance(t, ast.Name))
        flags: list[str] = []
        for scope in [fn] + list(self.nested.values()):
            for s in walk_local(scope):
                if isinstance(s, ast.stmt):
                    t = _check_conv_targets(s, self.cc_names)
                    if t:
                        flags += [x for x in t if x and x not in flags]
        if not flags:
            raise AnchorError(f"{where}: no `flags = model.check_convergence(...)` assignment")
        self.flags = flags
        # effect summaries of nested functions
        self.nested_effect: dict[str, dict] = {}
        # names the outer function itself reads (loop test, branches, return value)
        outer_reads = {n.id for n in walk_local(fn) if isinstance(n, ast.Name) and isinstance(n.ctx, ast.Load)}
        # (nested function, flag, assignment, bound to the outer variable?) - one R1 obligation each
        self.flag_bindings: list[tuple[str, str, ast.stmt, bool]] = []
        for name, f in self.nested.items():
            nonlocal_names = {n for s in walk_local(f) if isinstance(s, ast.Nonlocal) for n in s.names}
            if any(isinstance(s, ast.Global) for s in walk_local(f)):
                raise Undecided(f"{where}: nested {name} uses `global`")
            # call sites `a, b = name()` re-bind the returned values in the caller
            rebound: Optional[set] = None
            for st in walk_local(fn):
                if isinstance(st, ast.stmt):
                    for c in [x for r in _header_roots(st) for x in walk_local(r) if isinstance(x, ast.Call)
                              and isinstance(x.func, ast.Name) and x.func.id == name]:
                        tg = {t.id for t in assigned_targets(st) if isinstance(t, ast.Name)} if isinstance(st, ast.Assign) and st.value is c else set()
                        rebound = tg if rebound is None else (rebound & tg)
            writes = set()
            seen_flag = set()
            for s in walk_local(f):
                if isinstance(s, ast.stmt) and s is not f:
                    for t in assigned_targets(s):
                        if isinstance(t, ast.Name) and t.id in flags:
                            if t.id in nonlocal_names:
                                writes.add(t.id)
                                bound = True
                            else:
                                # a local shadow: the outer variable is NOT written by this assignment.  Harmless only if
                                # the outer function never reads that name or re-binds it from the call's return value.
                                bound = t.id not in outer_reads or t.id in (rebound or set())
                            if t.id not in seen_flag:
                                seen_flag.add(t.id)
                                self.flag_bindings.append((name, t.id, s, bound))
            calls = [c for c in walk_local(f) if isinstance(c, ast.Call)]
            if any(_hook_call(c, H_CONV) or _hook_call(c, H_FAIL) for c in calls):
                raise Undecided(f"{where}: nested function {name} calls a convergence/failure hook")
            self.nested_effect[name] = {"writes": writes, "iterates": any(_hook_call(c, H_ITER) for c in calls)}

    # state: (node, flag values, n_conv, n_fail, iterated, verdict)
    def explore(self):
        g = self.g
        init = (cfgmod.ENTRY, tuple([None] * len(self.flags)), 0, 0, False, "none")
        seen = {init}
        work = [init]
        exits: dict[tuple, ast.AST] = {}
        conv_without_iter: dict[int, bool] = {}
        while work:
            node, fv, nc, nf, it, verdict = work.pop()
            st = g.stmt.get(node)
            outs: list[tuple] = []  # (fv, nc, nf, it, verdict, cond-filter)
            if st is None:  # ENTRY
                outs = [(fv, nc, nf, it, verdict, None)]
            else:
                env = {f: v for f, v in zip(self.flags, fv) if v is not None}
                # hook calls evaluated at this node
                for c in _calls_at(g, node):
                    if _hook_call(c, H_ITER):
                        it = True
                    if _hook_call(c, H_CONV):
                        nc = min(nc + 1, 2)
                        conv_without_iter[node] = conv_without_iter.get(node, False) or (not it)
                    if _hook_call(c, H_FAIL):
                        nf = min(nf + 1, 2)
                    if isinstance(c.func, ast.Name) and c.func.id in self.nested_effect:
                        eff = self.nested_effect[c.func.id]
                        it = it or eff["iterates"]
                        if eff["writes"]:
                            fvs = [fv]
                            for i, f in enumerate(self.flags):
                                if f in eff["writes"]:
                                    fvs = [x[:i] + (b,) + x[i + 1:] for x in fvs for b in (False, True)]
                            outs = [(x, nc, nf, it, self._verdict(x), None) for x in fvs]
                if isinstance(st, ast.Return):
                    ret = None if st.value is None else _ev(st.value, env)
                    if st.value is not None and ret is None:
                        raise Undecided(f"{self.where}: cannot evaluate returned `{u(st.value)}` over the flags {env}")
                    exits.setdefault((verdict, nc, nf, ret), st)
                    continue
                if isinstance(st, (ast.If, ast.While)):
                    v = _ev(st.test, env)
                    outs = [(fv, nc, nf, it, verdict, v)]
                elif isinstance(st, (ast.Assign, ast.AnnAssign, ast.AugAssign)) and not outs:
                    tg = _check_conv_targets(st, self.cc_names)
                    if tg is not None:
                        fvs = [fv]
                        for pos, name in enumerate(tg):
                            if name in self.flags:
                                i = self.flags.index(name)
                                fvs = [x[:i] + (b,) + x[i + 1:] for x in fvs for b in (False, True)]
                        outs = [(x, nc, nf, it, self._verdict(x), None) for x in fvs]
                    else:
                        fvs = [fv]
                        for t in assigned_targets(st):
                            if isinstance(t, ast.Name) and t.id in self.flags:
                                i = self.flags.index(t.id)
                                val = _ev(st.value, env) if isinstance(st, (ast.Assign, ast.AnnAssign)) and st.value is not None \
                                    and len(assigned_targets(st)) == 1 else None
                                choices = (val,) if val is not None else (False, True)
                                fvs = [x[:i] + (b,) + x[i + 1:] for x in fvs for b in choices]
                        vd = verdict
                        if isinstance(st, ast.Assign) and isinstance(st.value, ast.Call) and isinstance(st.value.func, ast.Name) \
                                and st.value.func.id in self.nested and len(fvs) > 1:
                            outs = [(x, nc, nf, it, self._verdict(x), None) for x in fvs]
                        else:
                            outs = [(x, nc, nf, it, vd, None) for x in fvs]
                if not outs:
                    outs = [(fv, nc, nf, it, verdict, None)]
            for fv2, nc2, nf2, it2, vd2, filt in outs:
                for m in g.g.successors(node):
                    cond = g.g.edges[node, m].get("cond")
                    if filt is not None and cond is not None and cond != filt:
                        continue
                    if m == cfgmod.RAISE:
                        continue
                    if m == cfgmod.EXIT:
                        exits.setdefault((vd2, nc2, nf2, "falls off the end"), st if st is not None else self.fn)
                        continue
                    s2 = (m, fv2, nc2, nf2, it2, vd2)
                    if s2 not in seen:
                        seen.add(s2)
                        work.append(s2)
        return exits, conv_without_iter, len(seen)

    def _verdict(self, fv: tuple) -> str:
        return "(" + ", ".join(f"{f}={v}" for f, v in zip(self.flags, fv)) + ")"


def _rule_driver(ctx: Ctx, rel: str, qual: str) -> None:
    mod = ctx.repo.module(rel)
    where = f"{rel}:{qual}"
    lookup = methods(mod.cls(qual.split(".")[0])).get
    fn = _inline_helpers(mod.func(qual), lookup)
    _opaque_helpers(fn, lookup, {H_CONV, H_FAIL, H_ITER, "check_convergence"}, where)
    d = _Driver(fn, where)
    exits, conv_without_iter, nstates = d.explore()
    if not exits:
        raise Undecided(f"{where}: no normal exit found")
    for (verdict, nc, nf, ret), node in sorted(exits.items(), key=lambda kv: str(kv[0])):
        ok = (ret is True and nc == 1 and nf == 0) or (ret is False and nf == 1 and nc == 0)
        vtxt = "no convergence check performed" if verdict == "none" else f"check_convergence -> {verdict}"
        cons = f"{vtxt}: {H_CONV} x{nc}, {H_FAIL} x{nf}, returns {ret}"
        ctx.check("R1", ok, mod, qual, node,
                  f"exit path [{vtxt}] returns {ret} having called {H_CONV} {nc}x and {H_FAIL} {nf}x: a solve that reports "
                  "success must have stored the converged iterate (exactly one convergence hook), one that reports failure "
                  "must have reset the iterate and rewound the clock (exactly one failure hook)",
                  construct=cons, facts={"verdict": verdict, "n_convergence_hook": nc, "n_failure_hook": nf, "returns": str(ret)},
                  desc=f"exit path [{cons}] calls exactly the hook that matches the returned value")
        ctx.sample({"rule": "R1", "driver": qual, "path": cons, "ok": ok})
    for nname, flag, stmt, bound in d.flag_bindings:
        ctx.check("R1", bound, mod, f"{qual}.{nname}", stmt,
                  f"`{flag}` is assigned inside the nested function {nname}() without `nonlocal {flag}` (and is not returned "
                  f"and re-bound by the caller), but the loop / post-loop code of {qual.split('.')[-1]} reads `{flag}`: the "
                  "assignment creates a local shadow, the verdict of check_convergence never reaches the driver, so e.g. a "
                  "reported divergence is ignored and the step can be accepted later",
                  construct=f"{nname}: verdict flag `{flag}` bound to the driver's variable",
                  facts={"flag": flag, "nested": nname},
                  desc=f"verdict flag `{flag}` written in {nname}() is the driver's variable (nonlocal / re-bound)")
    for node, bad in sorted(conv_without_iter.items()):
        ctx.check("R1", not bad, mod, qual, d.g.stmt[node],
                  f"{H_CONV} is reachable before any {H_ITER}: the iterate that is stored as the new time-step solution "
                  "does not contain the computed increment", construct=f"{H_ITER} before {H_CONV}")
    ctx.note(f"R1: {qual}: {nstates} abstract states explored over flags {d.flags}; {len(exits)} distinct exit classes")
    # inside a Newton step: update the iterate, then check convergence, on the same increment
    scopes = [(f"{qual}.{name}", f) for name, f in d.nested.items()
              if d.nested_effect[name]["writes"] and d.nested_effect[name]["iterates"]]
    in_loop = [c for w in walk_local(fn) if isinstance(w, (ast.While, ast.For)) for b in w.body for c in walk_local(b)
               if isinstance(c, ast.Call) and call_name(c) == "check_convergence"]
    if in_loop:
        scopes.append((qual, fn))
    for sq, f in scopes:
        gg = cfgmod.build(f)
        its = _call_nodes(gg, lambda c: _hook_call(c, H_ITER))
        chk = _call_nodes(gg, lambda c: call_name(c) == "check_convergence")
        for cn, cc in chk:
            ok = any(gg.dominates(n, cn) and n != cn for n, _ in its)
            same = all(bool(ic.args) and bool(cc.args) and u(ic.args[0]) == u(cc.args[0]) for _, ic in its)
            ctx.check("R1", ok and same, mod, sq, cc,
                      f"within one iteration {H_ITER}(increment) must precede check_convergence(increment, ...) (the residual "
                      "and the stored iterate refer to the updated state)", construct=f"{H_ITER} dominates check_convergence",
                      facts={"increment_args": [u(ic.args[0]) if ic.args else None for _, ic in its] + [u(cc.args[0]) if cc.args else None]})


# ------------------------------------------------------------------ R2: hook bodies

class _Sig:
    def __init__(self, ctx: Ctx):
        eqs = ctx.repo.module(EQSYS)
        self.set = _params(eqs.func("EquationSystem.set_variable_values"))
        self.get = _params(eqs.func("EquationSystem.get_variable_values"))
        for p in ("values", "time_step_index", "iterate_index", "additive"):
            if p not in self.set:
                raise AnchorError(f"{EQSYS}: set_variable_values has no parameter `{p}`")
        for p in ("time_step_index", "iterate_index"):
            if p not in self.get:
                raise AnchorError(f"{EQSYS}: get_variable_values has no parameter `{p}`")
        self.shift = _params(eqs.func("EquationSystem.shift_time_step_values"))
        if self.shift != _params(eqs.func("EquationSystem.shift_iterate_values")) or "max_index" not in self.shift:
            raise AnchorError(f"{EQSYS}: shift_time_step_values / shift_iterate_values signatures differ or lack max_index")

    def sarg(self, c: ast.Call, name: str) -> Optional[ast.expr]:
        return arg_or_kw(c, self.set.index(name), name)

    def garg(self, c: ast.Call, name: str) -> Optional[ast.expr]:
        return arg_or_kw(c, self.get.index(name), name)


def _def_of(g: cfgmod.CFG, fn: ast.FunctionDef, e: ast.expr) -> tuple[ast.expr, Optional[int]]:
    """Resolve a local name to its single defining value and the CFG node of that definition."""
    node = None
    for _ in range(4):
        if not isinstance(e, ast.Name):
            break
        defs = [n for n, s in g.stmt.items() if isinstance(s, (ast.Assign, ast.AnnAssign)) and any(
            isinstance(t, ast.Name) and t.id == e.id for t in assigned_targets(s))]
        if len(defs) != 1 or getattr(g.stmt[defs[0]], "value", None) is None:
            break
        node = defs[0]
        e = g.stmt[node].value
    return e, node


def _all_paths(g: cfgmod.CFG, nodes: list[int]) -> bool:
    """Every normally returning path passes through one of `nodes`."""
    return bool(nodes) and not g.reachable(cfgmod.ENTRY, cfgmod.EXIT, avoiding=frozenset(nodes))


def _shift_then_write(g, sig, fn, kind: str, additive_required: bool):
    """Obligations shared by update_solution (time) and after_nonlinear_iteration (iterate)."""
    out = []
    idx_p, other_p = ("time_step_index", "iterate_index") if kind == "time" else ("iterate_index", "time_step_index")
    shift_name = "shift_time_step_values" if kind == "time" else "shift_iterate_values"
    ps = _params(fn)
    if not ps:
        raise Undecided(f"{fn.name}: hook has no value parameter")
    param = ps[0]
    reassigned = any(isinstance(t, ast.Name) and t.id == param for s in walk_local(fn) if isinstance(s, ast.stmt) and s is not fn
                     for t in assigned_targets(s))
    W = _call_nodes(g, lambda c: call_name(c) == "set_variable_values" and _is_zero(sig.sarg(c, idx_p)))
    S_calls = _call_nodes(g, lambda c: call_name(c) == shift_name)
    S = [n for n, _ in S_calls]
    # the shift is capped by exactly the number of stored indices of the same kind (or is unbounded)
    for sn, sc in S_calls:
        depth = arg_or_kw(sc, sig.shift.index("max_index"), "max_index")
        if _is_none(depth):
            out.append((True, sc, f"{shift_name} without a cap keeps every stored value", f"{shift_name}(max_index=None)", {}))
            continue
        k, exact, offset = _indices_kind(fn, depth)
        if k is None or (k == kind and not exact):
            raise Undecided(f"{fn.name}: depth expression `{u(depth)}` of {shift_name} is not of a recognised form")
        out.append((k == kind and offset == 0, sc,
                    f"{shift_name} must be capped by exactly len(self.{KIND_INDICES_ATTR[kind]}) (every stored index is part of "
                    f"the window: with a smaller cap the oldest slot keeps a stale value, so the {kind} history is no longer the "
                    f"sequence of accepted values); found `{u(depth)}` (kind {k}, offset {offset})",
                    f"{shift_name} capped by exactly the number of stored {kind} indices",
                    {"depth": u(depth), "kind": k, "offset": offset}))
    out.append((_all_paths(g, [n for n, _ in W]), fn, f"a write set_variable_values(..., {idx_p}=0) must be reached on every "
                "normally returning path", f"write to {idx_p}=0 on all normal paths", {}))
    for wn, wc in W:
        val = sig.sarg(wc, "values")
        add = sig.sarg(wc, "additive")
        oth = sig.sarg(wc, other_p)
        out.append((val is not None and u(val) == param and not reassigned, wc,
                    f"the value written to {idx_p}=0 must be the hook's own argument `{param}`",
                    f"values written to {idx_p}=0 is `{param}`", {"values": u(val) if val is not None else None}))
        if additive_required:
            out.append((_is_const(add, True), wc, "the nonlinear increment must be *added* to the current iterate (additive=True)",
                        "iterate update is additive", {"additive": u(add) if add is not None else None}))
        else:
            out.append((add is None or _is_const(add, False), wc, "the accepted solution must overwrite index 0 (not be added to it)",
                        "time-step store is not additive", {"additive": u(add) if add is not None else None}))
        out.append((_is_none(oth), wc, f"the write to {idx_p}=0 must not also address {other_p}",
                    f"write to {idx_p}=0 carries no {other_p}", {other_p: u(oth) if oth is not None else None}))
        dominated = bool(S) and not g.reachable(cfgmod.ENTRY, wn, avoiding=frozenset(S)) and wn not in S
        after = [s for s in S if g.reachable(wn, s)]
        out.append((dominated and not after, wc,
                    f"{shift_name} must precede the write to {idx_p}=0 on every path and never follow it: otherwise the previous "
                    "value at index 0 is overwritten before it is moved to index 1",
                    f"{shift_name} before write to {idx_p}=0", {"shift_on_every_path_to_write": dominated, "shift_after_write": bool(after)}))
    return out


PROTOCOL_CALLS = {"set_variable_values", "get_variable_values", "shift_time_step_values", "shift_iterate_values",
                  "compute_time_step"} | set(HOOKS)


def _body_obligations(hook: str, fn: ast.FunctionDef, sig: _Sig, lookup=None) -> list[tuple]:
    """[(ok, node, message, construct, facts)] for one implementation of a hook (same-class helpers inlined)."""
    if lookup is not None:
        fn = _inline_helpers(fn, lookup, skip=frozenset(HOOKS))
        _opaque_helpers(fn, lookup, PROTOCOL_CALLS, f"hook {fn.name}")
    g = cfgmod.build(fn)
    if hook == H_UPD:
        return _shift_then_write(g, sig, fn, "time", additive_required=False)
    if hook == H_ITER:
        return _shift_then_write(g, sig, fn, "iterate", additive_required=True)
    out = []
    iterate_writers = [n for n, c in _call_nodes(g, lambda c: (call_name(c) == "set_variable_values" and not _is_none(
        sig.sarg(c, "iterate_index"))) or call_name(c) == "shift_iterate_values")]
    time_writers = _call_nodes(g, lambda c: (call_name(c) == "set_variable_values" and not _is_none(
        sig.sarg(c, "time_step_index"))) or call_name(c) in ("shift_time_step_values", H_UPD))
    if hook == H_CONV:
        U = _call_nodes(g, lambda c: _hook_call(c, H_UPD))
        out.append((_all_paths(g, [n for n, _ in U]), fn, f"{H_UPD}(solution) must be reached on every normally returning path",
                    f"{H_UPD} on all normal paths", {}))
        for un, uc in U:
            if not uc.args and not uc.keywords:
                out.append((False, uc, f"{H_UPD} called without the solution", f"{H_UPD} argument", {}))
                continue
            arg = uc.args[0] if uc.args else uc.keywords[0].value
            val, dn = _def_of(g, fn, arg)
            is_get = isinstance(val, ast.Call) and call_name(val) == "get_variable_values"
            ok = is_get and _is_zero(sig.garg(val, "iterate_index")) and _is_none(sig.garg(val, "time_step_index"))
            out.append((ok, uc, "the solution stored as the new time-step value must be read with "
                        "get_variable_values(iterate_index=0) (the converged iterate)",
                        f"{H_UPD}(get_variable_values(iterate_index=0))", {"argument": u(val)}))
            if ok:
                read_at = dn if dn is not None else un
                between = [w for w in iterate_writers if w != read_at and g.reachable(read_at, w) and (w == un or g.reachable(w, un))]
                out.append((g.dominates(read_at, un) and not between, uc,
                            "no iterate write may lie between reading the converged iterate and storing it",
                            "no iterate write between read and store", {"writers_between": [u(g.stmt[w])[:60] for w in between]}))
        return out
    if hook == H_FAIL:
        R = _call_nodes(g, lambda c: call_name(c) == "set_variable_values" and _is_zero(sig.sarg(c, "iterate_index")))
        out.append((_all_paths(g, [n for n, _ in R]), fn,
                    "on every normally returning path the current iterate must be reset: set_variable_values(X, iterate_index=0)",
                    "iterate reset on all normal paths", {}))
        for rn, rc in R:
            add = sig.sarg(rc, "additive")
            out.append((add is None or _is_const(add, False), rc, "the reset must overwrite the iterate (not add to it)",
                        "iterate reset is not additive", {"additive": u(add) if add is not None else None}))
            arg = sig.sarg(rc, "values")
            val, dn = _def_of(g, fn, arg) if arg is not None else (None, None)
            is_get = isinstance(val, ast.Call) and call_name(val) == "get_variable_values"
            ok = is_get and _is_zero(sig.garg(val, "time_step_index")) and _is_none(sig.garg(val, "iterate_index"))
            out.append((ok, rc, "the iterate must be reset to the last accepted solution, get_variable_values(time_step_index=0)",
                        "iterate reset from time_step_index=0", {"values": u(val) if val is not None else None}))
        out.append((not time_writers, time_writers[0][1] if time_writers else fn,
                    "the failure hook must not modify the accepted time-step history",
                    "no time-step write in the failure hook", {"writers": [u(c)[:60] for _, c in time_writers]}))
        T = [n for n, c in _call_nodes(g, lambda c: call_name(c) == "compute_time_step" and (
            _is_const(kwarg(c, "recompute_solution"), True) or (len(c.args) >= 2 and _is_const(c.args[1], True))))]
        out.append((_all_paths(g, T), fn,
                    "on every normally returning path the clock must be rewound: compute_time_step(recompute_solution=True)",
                    "compute_time_step(recompute_solution=True) on all normal paths", {}))
        return out
    return out


def _rule_hook_bodies(ctx: Ctx, sig: _Sig) -> None:
    sol = ctx.repo.module(SOLSTRAT)
    for h in HOOKS_WITH_BODY:
        q = f"SolutionStrategy.{h}"
        fn = sol.func(q)
        obs = _body_obligations(h, fn, sig, methods(sol.cls("SolutionStrategy")).get)
        if not obs:
            raise AnchorError(f"{SOLSTRAT}:{q}: no obligations extracted")
        for ok, node, msg, cons, facts in obs:
            ctx.check("R2", ok, sol, q, node, msg, construct=cons, facts=facts)
        ctx.sample({"rule": "R2", "hook": q, "clauses": [c for _, _, _, c, _ in obs]})


# ------------------------------------------------------------------ R3: overrides

def _is_protocol(cls: ast.ClassDef) -> bool:
    return any((u(b).split(".")[-1].split("[")[0]) == "Protocol" for b in cls.bases)


def _rule_overrides(ctx: Ctx, sig: _Sig) -> None:
    sol = ctx.repo.module(SOLSTRAT)
    base = {h: sol.func(f"SolutionStrategy.{h}") for h in HOOKS}
    tokens = [f"def {h}" for h in HOOKS]
    n = 0
    for rel in ctx.repo.all_py(PKG):
        src = ctx.repo.read(rel)  # performance pre-filter only
        if not any(t in src for t in tokens):
            continue
        mod = ctx.repo.module(rel)
        for cq, cls in mod.classes():
            if rel == SOLSTRAT and cq == "SolutionStrategy":
                continue
            ms = methods(cls)
            for h in HOOKS:
                fn = ms.get(h)
                if fn is None:
                    continue
                q = f"{cq}.{h}"
                if _is_protocol(cls):
                    ctx.note(f"R3: {rel}:{q} is a typing.Protocol stub - not an override")
                    continue
                if len(_params(fn)) != len(_params(base[h])) and not fn.args.vararg:
                    ctx.note(f"R3: {rel}:{q} has a different signature than SolutionStrategy.{h} - treated as unrelated")
                    continue
                n += 1
                g = cfgmod.build(fn)
                sup = _call_nodes(g, lambda c: isinstance(c.func, ast.Attribute) and c.func.attr == h and isinstance(
                    c.func.value, ast.Call) and call_name(c.func.value) == "super")
                ps = _params(fn)
                forwarding = [sn for sn, sc in sup if [u(a) for a in sc.args] + [u(k.value) for k in sc.keywords] == ps]
                ok_super = _all_paths(g, forwarding)
                failed: list[str] = []
                ok_body = False
                if not ok_super and h in HOOKS_WITH_BODY:
                    obs = _body_obligations(h, fn, sig, ms.get)
                    failed = [cons for ok, _, _, cons, _ in obs if not ok]
                    ok_body = bool(obs) and not failed
                how = "super" if ok_super else ("re-implements" if ok_body else "neither")
                ctx.check("R3", ok_super or ok_body, rel, q, fn,
                          f"override of {h} neither calls super().{h}({', '.join(ps)}) on every normally returning path nor "
                          f"satisfies the hook's own obligations ({'; '.join(failed) if failed else 'no super call on all paths'}): "
                          "the base bookkeeping (shift / store / reset / rewind) is lost for models using this class",
                          construct=f"override {q}: {how}",
                          facts={"super_calls": len(sup), "forwarding_super_on_all_paths": ok_super, "failed_clauses": failed},
                          desc=f"override of {h} keeps the base bookkeeping ({how})")
                ctx.sample({"rule": "R3", "override": f"{rel}:{q}", "accepted_as": how})
    if n == 0:
        raise AnchorError("no hook override found under src/porepy")


# ------------------------------------------------------------------ thorough: notes on repeated-attempt hazards

def _note_progress_on_every_attempt(ctx: Ctx) -> None:
    """before_nonlinear_loop runs on *every* attempt of a time step (also after a failure).  Functions reachable
    from it (name-based call graph over `self.X()` calls, depth <= 4) that shift a time-step history therefore shift
    it once per attempt, not once per accepted step.  Reported as notes (not part of the claimed rules)."""
    sol = ctx.repo.module(SOLSTRAT)
    index: dict[str, list] = {}

    def defs(name: str) -> list:
        if name not in index:
            out = []
            tok = f"def {name}("
            for rel in ctx.repo.all_py(PKG):
                if tok in ctx.repo.read(rel):  # performance pre-filter only
                    mod = ctx.repo.module(rel)
                    out += [(rel, q, f) for q, f in mod.functions() if q.split(".")[-1] == name and "Protocol" not in q]
            index[name] = out
        return index[name]

    seen: set[tuple[str, str]] = set()
    frontier = [(SOLSTRAT, f"SolutionStrategy.{H_LOOP}", sol.func(f"SolutionStrategy.{H_LOOP}"), [H_LOOP])]
    for _ in range(4):
        nxt = []
        for rel, q, f, path in frontier:
            for c in walk_local(f):
                if not isinstance(c, ast.Call):
                    continue
                nm = call_name(c)
                shifts_time = nm in ("shift_time_step_values", "progress_values_in_time") or (
                    nm == "shift_solution_values" and any("TIME_STEP_SOLUTIONS" in u(a) for a in list(c.args) + [k.value for k in c.keywords]))
                if shifts_time:
                    ctx.note(f"time-step history shifted on every solve attempt (reached from {' -> '.join(path)}): "
                             f"{rel}:{q}: {u(c)[:70]} - after a failed step the values of the discarded attempt become "
                             "the 'previous time step' values")
                if isinstance(c.func, ast.Attribute) and isinstance(c.func.value, (ast.Name, ast.Call)) and u(c.func.value) in ("self", "super()"):
                    for d in defs(nm):
                        if (d[0], d[1]) not in seen:
                            seen.add((d[0], d[1]))
                            nxt.append((d[0], d[1], d[2], path + [nm]))
        frontier = nxt


# ------------------------------------------------------------------ entry point

def run(ctx: Ctx) -> None:
    sig = _Sig(ctx)
    _rule_driver(ctx, NEWTON, "NewtonSolver.solve")
    _rule_driver(ctx, LINEAR, "LinearSolver.solve")
    _rule_hook_bodies(ctx, sig)
    _rule_overrides(ctx, sig)
    if ctx.tier == "thorough":
        _note_progress_on_every_attempt(ctx)


def _m(name, file, old, new, rule, control=False, count=1):
    return dict(name=name, file=file, old=old, new=new, rule=rule, control=control, count=count)


CF = "src/porepy/models/compositional_flow.py"
FD = "src/porepy/models/fracture_damage.py"

MUTANTS = [
    _m("failure-hook-skipped-after-loop-exhaustion", NEWTON, "        if not is_converged:\n            # If Newton fails",
       "        if is_diverged:\n            # If Newton fails", "R1", control=True),
    _m("returns-success-unless-diverged", NEWTON, "        return is_converged\n\n    def iteration", "        return not is_diverged\n\n    def iteration", "R1"),
    _m("convergence-hook-dropped", NEWTON, "                    model.after_nonlinear_convergence()\n                    break\n",
       "                    break\n", "R1"),
    _m("convergence-hook-also-after-loop", NEWTON, "        return is_converged\n\n    def iteration",
       "        if is_converged:\n            model.after_nonlinear_convergence()\n        return is_converged\n\n    def iteration", "R1"),
    _m("convergence-checked-before-iterate-update", NEWTON,
       "            model.after_nonlinear_iteration(nonlinear_increment)\n\n            if (\n",
       "            if (\n", "R1"),
    _m("seed-nonlocal-is-diverged-dropped", NEWTON, "            nonlocal is_diverged\n", "", "R1"),
    _m("nonlocal-is-converged-dropped", NEWTON, "            nonlocal is_converged\n", "", "R1"),
    _m("failure-hook-called-twice-on-divergence", NEWTON,
       "                    # Handle nonlinear divergence outside the loop.\n                    break\n",
       "                    model.after_nonlinear_failure()\n                    break\n", "R1"),
    _m("linear-solver-no-failure-hook", LINEAR, "        else:\n            model.after_nonlinear_failure()\n        return is_converged",
       "        return is_converged", "R1"),
    _m("linear-solver-stores-without-increment", LINEAR, "            model.after_nonlinear_iteration(nonlinear_increment)\n            model.after_nonlinear_convergence()\n",
       "            model.after_nonlinear_convergence()\n", "R1"),
    _m("update-solution-writes-before-shift", SOLSTRAT,
       "        self.equation_system.shift_time_step_values(\n            max_index=len(self.time_step_indices)\n        )\n"
       "        self.equation_system.set_variable_values(\n            values=solution, time_step_index=0, additive=False\n        )\n",
       "        self.equation_system.set_variable_values(\n            values=solution, time_step_index=0, additive=False\n        )\n"
       "        self.equation_system.shift_time_step_values(\n            max_index=len(self.time_step_indices)\n        )\n", "R2", control=True),
    _m("seed-update-solution-shift-depth-minus-one", SOLSTRAT,
       "        self.equation_system.shift_time_step_values(\n            max_index=len(self.time_step_indices)\n        )",
       "        self.equation_system.shift_time_step_values(\n            max_index=len(self.time_step_indices) - 1\n        )", "R2"),
    _m("iterate-shift-capped-by-time-depth", SOLSTRAT,
       "self.equation_system.shift_iterate_values(max_index=len(self.iterate_indices))",
       "self.equation_system.shift_iterate_values(max_index=len(self.time_step_indices))", "R2"),
    _m("seed-failure-resets-from-oldest-time-step", SOLSTRAT,
       "            prev_solution = self.equation_system.get_variable_values(time_step_index=0)\n",
       "            prev_solution = self.equation_system.get_variable_values(\n                time_step_index=self.time_step_indices[-1]\n            )\n", "R2"),
    _m("seed-failure-hook-only-on-divergence-or-exhaustion", NEWTON, "        if not is_converged:\n            # If Newton fails",
       "        if is_diverged or (\n            model.nonlinear_solver_statistics.num_iteration\n            > self.params[\"max_iterations\"]\n        ):\n            # If Newton fails", "R1"),
    _m("failure-resets-from-iterate", SOLSTRAT, "            prev_solution = self.equation_system.get_variable_values(time_step_index=0)\n",
       "            prev_solution = self.equation_system.get_variable_values(iterate_index=0)\n", "R2"),
    _m("failure-reset-writes-time-step", SOLSTRAT, "            self.equation_system.set_variable_values(prev_solution, iterate_index=0)\n",
       "            self.equation_system.set_variable_values(prev_solution, time_step_index=0)\n", "R2"),
    _m("failure-reset-additive", SOLSTRAT, "            self.equation_system.set_variable_values(prev_solution, iterate_index=0)\n",
       "            self.equation_system.set_variable_values(prev_solution, iterate_index=0, additive=True)\n", "R2"),
    _m("failure-hook-does-not-rewind", SOLSTRAT, "            self.time_manager.compute_time_step(recompute_solution=True)\n",
       "            self.time_manager.compute_time_step(iterations=1)\n", "R2"),
    _m("iterate-update-not-additive", SOLSTRAT, "            values=nonlinear_increment, additive=True, iterate_index=0\n",
       "            values=nonlinear_increment, additive=False, iterate_index=0\n", "R2"),
    _m("iterate-update-into-time-step", SOLSTRAT, "            values=nonlinear_increment, additive=True, iterate_index=0\n",
       "            values=nonlinear_increment, additive=True, iterate_index=0, time_step_index=0\n", "R2"),
    _m("converged-solution-read-from-time-step", SOLSTRAT, "        solution = self.equation_system.get_variable_values(iterate_index=0)\n\n        # Update the time step magnitude",
       "        solution = self.equation_system.get_variable_values(time_step_index=0)\n\n        # Update the time step magnitude", "R2"),
    _m("convergence-hook-skips-store-when-constant-dt", SOLSTRAT,
       "                iterations=self.nonlinear_solver_statistics.num_iteration\n            )\n        self.update_solution(solution)\n",
       "                iterations=self.nonlinear_solver_statistics.num_iteration\n            )\n            self.update_solution(solution)\n", "R2"),
    _m("update-solution-stores-additively", SOLSTRAT, "            values=solution, time_step_index=0, additive=False\n",
       "            values=solution, time_step_index=0, additive=True\n", "R2"),
    _m("override-forgets-super", CF, "        super().after_nonlinear_convergence()  # type:ignore[safe-super]\n", "        pass\n", "R3"),
    _m("override-super-only-on-a-branch", CF, "        super().after_nonlinear_convergence()  # type:ignore[safe-super]\n",
       "        if self.fluid.num_phases > 1:\n            super().after_nonlinear_convergence()\n", "R3"),
    _m("reimplementation-writes-between-shifts", FD,
       "        # Then proceed as usual with the other variables.\n        self.equation_system.shift_time_step_values(\n"
       "            max_index=len(self.time_step_indices), variables=other_vars\n        )\n\n"
       "        self.equation_system.set_variable_values(\n            values=solution, time_step_index=0, additive=False\n        )\n",
       "        self.equation_system.set_variable_values(\n            values=solution, time_step_index=0, additive=False\n        )\n"
       "        # Then proceed as usual with the other variables.\n        self.equation_system.shift_time_step_values(\n"
       "            max_index=len(self.time_step_indices), variables=other_vars\n        )\n", "R3"),
    _m("loop-hook-override-forgets-super", FD, "        super().before_nonlinear_loop()\n        fractures", "        fractures", "R3", control=True),
]
