"""C42 - saturations and fraction chain rule: extracted-formula identities.

The numba kernels in compositional/utils.py are straight-line array formulas.  The formulas
are copied out of the AST and normalised as sympy terms over small symbolic arrays (n = 2, 3
components/phases; numpy object arrays of sympy symbols provide broadcasting) - a term
normaliser for expressions extracted from the source, no porepy code is imported or run, no
paths are explored, no solver is used.

R1  chain rule matrix: dxn[i, j] == d(x_i / sum(x)) / d x_j, and it is applied as
    `row_vector.dot(dxn)` to the last ncomp derivatives (dxn is not symmetric: the transposed
    application is wrong).
R2  normalize_rows: entries x_ij / sum_j x_ij (rows sum to one).
R3  two-phase saturations: the closed form satisfies (sum_k s_k rho_k) y_j - rho_j s_j = 0 for
    j = 0, 1 under y_0 + y_1 = 1, and s_0 + s_1 = 1.
R4  n-phase linear system: row j of (mat, rhs) is +/- the j-th conservation equation with s_j
    eliminated through the unity constraint; the diagonal is zeroed.
R5  wrappers: the vectorised kernels apply the scalar kernel column by column with the same
    column index on every argument and on the output.
Not decided: behaviour at the thresholds (eps), conditioning of the linear solve, numba vs
python agreement, non-negativity for concrete data.
"""
from __future__ import annotations

import ast

import numpy as np
import sympy as sp

from ..core.astutil import u, dotted, walk_local, call_name, kwarg, stmts_local, body_nodoc
from ..core.loader import AnchorError, Undecided
from ..core.report import Ctx

UTL = "src/porepy/compositional/utils.py"

META = {
    "explanation": __doc__,
    "rule_text": "one obligation per extracted formula entry / wrapper argument",
    "trusted_base": ["python ast", "sympy simplify as term normaliser", "numpy broadcasting on object arrays of sympy symbols",
                     "whitelisted numpy functions: eye, outer, ones, sum, empty, zeros_like, fill_diagonal"],
    "assumptions": ["formulas are size-generic: checked for n = 2 and n = 3"],
    "technique": "extracted-formula identity (sympy term normalisation over small symbolic arrays)",
    "level_note": "Trusted: python ast, sympy, the small numpy-expression evaluator in the rule. Decides algebraic correctness of the "
                  "kernel formulas for symbolic inputs of size 2 and 3; nothing numerical.",
}
MIN_INSTANCES = {"R1": 10, "R2": 6, "R3": 3, "R4": 4, "R5": 4}


class Ev:
    """evaluator of straight-line numpy expressions over object arrays of sympy terms"""

    def __init__(self, env: dict):
        self.env = dict(env)

    def ev(self, e: ast.expr):
        if isinstance(e, ast.Constant) and isinstance(e.value, (int, float)):
            return sp.nsimplify(e.value, rational=True)
        if isinstance(e, ast.Name):
            if e.id in self.env:
                return self.env[e.id]
            raise Undecided(f"C42 evaluator: unknown name {e.id}")
        if isinstance(e, ast.UnaryOp) and isinstance(e.op, ast.USub):
            return -self.ev(e.operand)
        if isinstance(e, ast.BinOp):
            l, r = self.ev(e.left), self.ev(e.right)
            if isinstance(e.op, ast.Add):
                return l + r
            if isinstance(e.op, ast.Sub):
                return l - r
            if isinstance(e.op, ast.Mult):
                return l * r
            if isinstance(e.op, ast.Div):
                return l / r
            if isinstance(e.op, ast.Pow):
                return l ** r
            raise Undecided(f"C42 evaluator: operator {type(e.op).__name__}")
        if isinstance(e, ast.Attribute):
            if e.attr == "T":
                return self.ev(e.value).T
            if e.attr == "shape":
                return self.ev(e.value).shape
            raise Undecided(f"C42 evaluator: attribute {u(e)}")
        if isinstance(e, ast.Subscript):
            base = self.ev(e.value)
            return base[self.index(e.slice)]
        if isinstance(e, ast.Call):
            d = dotted(e.func)
            args = [self.ev(a) for a in e.args]
            if d == "np.sum" and len(args) == 1 and not e.keywords:
                return np.sum(args[0])
            if d == "np.eye":
                return np.array(sp.eye(int(args[0])).tolist(), dtype=object)
            if d == "np.ones":
                return np.array([sp.Integer(1)] * int(args[0]), dtype=object)
            if d == "np.outer":
                return np.outer(args[0], args[1])
            if d == "np.dot" and len(args) == 2:
                return np.dot(args[0], args[1])
            if d in ("np.empty", "np.zeros") and len(args) == 1:
                shp = args[0] if isinstance(args[0], tuple) else (args[0],)
                arr = np.empty(tuple(int(k_) for k_ in shp), dtype=object)
                arr[...] = sp.Integer(0)
                return arr
            if isinstance(e.func, ast.Attribute) and e.func.attr == "dot" and len(args) == 1:
                return self.ev(e.func.value).dot(args[0])
            if isinstance(e.func, ast.Attribute) and e.func.attr == "sum":
                ax = kwarg(e, "axis")
                base = self.ev(e.func.value)
                return base.sum(axis=int(ax.value)) if ax is not None else base.sum()
            if isinstance(e.func, ast.Attribute) and e.func.attr == "copy" and not args:
                return self.ev(e.func.value).copy()
            raise Undecided(f"C42 evaluator: call {u(e)[:60]}")
        raise Undecided(f"C42 evaluator: {type(e).__name__} {u(e)[:60]}")

    def exec(self, st: ast.stmt) -> None:
        """execute one straight-line statement (assignment to a name, tuple unpacking of a shape, slice store)"""
        if isinstance(st, ast.AnnAssign):
            if st.value is None:
                return
            st = ast.Assign(targets=[st.target], value=st.value)
        if isinstance(st, (ast.Expr, ast.Pass)):
            if isinstance(st, ast.Expr) and not isinstance(st.value, ast.Constant):
                raise Undecided(f"C42 evaluator: expression statement {u(st)[:50]}")
            return
        if not isinstance(st, ast.Assign) or len(st.targets) != 1:
            raise Undecided(f"C42 evaluator: statement {u(st)[:50]}")
        tg = st.targets[0]
        val = self.ev(st.value)
        if isinstance(tg, ast.Name):
            self.env[tg.id] = val
        elif isinstance(tg, ast.Tuple) and all(isinstance(e_, ast.Name) for e_ in tg.elts):
            vals = list(val)
            if len(vals) != len(tg.elts):
                raise Undecided("C42 evaluator: tuple unpacking arity")
            for e_, v_ in zip(tg.elts, vals):
                self.env[e_.id] = sp.Integer(v_) if isinstance(v_, int) else v_
        elif isinstance(tg, ast.Subscript) and isinstance(tg.value, ast.Name):
            base = self.env.get(tg.value.id)
            if base is None:
                raise Undecided(f"C42 evaluator: store into unknown {tg.value.id}")
            base[self.index(tg.slice)] = val
        else:
            raise Undecided(f"C42 evaluator: assignment target {u(tg)[:50]}")

    def index(self, s: ast.expr):
        if isinstance(s, ast.Slice):
            lo = self.ev(s.lower) if s.lower is not None else None
            hi = self.ev(s.upper) if s.upper is not None else None
            return slice(int(lo) if lo is not None else None, int(hi) if hi is not None else None)
        if isinstance(s, ast.Tuple):
            return tuple(self.index(x) for x in s.elts)
        v = self.ev(s)
        return int(v) if isinstance(v, (sp.Integer, int)) else v


def _z(e) -> bool:
    return sp.simplify(sp.together(sp.expand(e))) == 0


def _assign_to(fn, name: str) -> ast.Assign:
    hits = [s for s in stmts_local(fn) if isinstance(s, ast.Assign) and len(s.targets) == 1 and u(s.targets[0]) == name]
    if len(hits) != 1:
        raise AnchorError(f"{fn.name}: expected one assignment to {name}, found {len(hits)}")
    return hits[0]


def _chainrule(ctx: Ctx, mod) -> None:
    fn = mod.func("_chainrule_fractional_derivatives")
    q = fn.name
    params = [p.arg for p in fn.args.args]
    if len(params) != 2:
        raise AnchorError(f"{q}: signature changed")
    g_name, x_name = params
    for n in (2, 3):
        xs = sp.symbols(f"x0:{n}", positive=True)
        extra = 2
        gs = sp.symbols(f"g0:{n + extra}")
        g_in = np.array(gs, dtype=object)
        env = {x_name: np.array(xs, dtype=object), g_name: g_in}
        ev = Ev(env)
        result = None
        for st in body_nodoc(fn):
            if isinstance(st, ast.Return):
                result = ev.ev(st.value) if st.value is not None else None
                break
            if isinstance(st, ast.If) and any(isinstance(n_, ast.Return) for n_ in ast.walk(st)):
                # the derivative of x_i / sum(x) is delta_ij / S - x_i / S**2 for EVERY x, also where sum(x) == 1
                # (there it is I - x 1^T, not I): a data-dependent shortcut that returns before the chain rule is applied
                # leaves the derivatives w.r.t. the normalised fractions in place
                if n == 2:
                    ctx.check("R1", False, mod, q, st, f"a data-dependent branch (`if {u(st.test)[:60]}`) returns before the chain rule is applied: "
                              f"the Jacobian of x/sum(x) is never the identity, also not where sum(x) == 1", construct=f"{q}: conditional return before the chain rule")
                continue
            ev.exec(st)
        if result is None or getattr(result, "shape", None) != (n + extra,):
            raise Undecided(f"{q}: the kernel does not return a vector of the size of its first argument")
        S = sum(xs)
        # the chain-rule matrix: the (n x n) operand of the dot product
        dots = [c for c in ast.walk(fn) if isinstance(c, ast.Call) and ((isinstance(c.func, ast.Attribute) and c.func.attr == "dot"))]
        mat = mat_node = None
        for c in dots:
            cands = list(c.args) + ([c.func.value] if dotted(c.func) != "np.dot" else [])
            for a_ in cands:
                try:
                    v_ = ev.ev(a_)
                except Undecided:
                    continue
                if getattr(v_, "shape", None) == (n, n):
                    mat, mat_node = v_, a_
        if mat is None:
            raise Undecided(f"{q}: no n x n chain-rule matrix found as operand of a dot product")
        for i in range(n):
            for j in range(n):
                want = sp.diff(xs[i] / S, xs[j])
                ok = _z(mat[i, j] - want)
                if n == 3 or not ok:
                    ctx.check("R1", ok, mod, q, mat_node,
                              f"chain-rule matrix entry [{i},{j}] = {sp.simplify(mat[i, j])} but d(x_{i}/sum x)/dx_{j} = {sp.simplify(want)}",
                              construct=f"{q}: d(xn_{i})/d(x_{j}) [n={n}]", facts={"entry": str(sp.simplify(mat[i, j])), "expected": str(sp.simplify(want))})
        tail = list(gs[-n:])
        ok = all(_z(result[extra + j] - sum(tail[i] * sp.diff(xs[i] / S, xs[j]) for i in range(n))) for j in range(n))
        ok = ok and all(_z(result[k] - gs[k]) for k in range(extra))
        ctx.check("R1", ok, mod, q, fn, "the last ncomp derivatives must become sum_i df/dxn_i * dxn_i/dx_j (row vector times dxn); "
                  "the leading derivatives stay unchanged", construct=f"{q}: application of the chain rule [n={n}]",
                  facts={"result": [str(sp.simplify(v)) for v in result]})
        # the input must not be modified in place
        ok_in = all(g_in[k] == gs[k] for k in range(n + extra))
        ctx.check("R1", ok_in, mod, q, fn, "the kernel must work on a copy: the derivative array passed in was modified in place",
                  construct=f"{q}: input left untouched [n={n}]")
    ctx.sample({"rule": "R1", "kernel": q})
    return


def _normalize(ctx: Ctx, mod) -> None:
    fn = mod.func("normalize_rows")
    rets = [r for r in walk_local(fn) if isinstance(r, ast.Return)]
    if len(rets) != 1:
        raise AnchorError("normalize_rows: single return expected")
    X = np.array(sp.symbols("a0:6", positive=True), dtype=object).reshape(2, 3)
    res = Ev({fn.args.args[0].arg: X}).ev(rets[0].value)
    if getattr(res, "shape", None) != (2, 3):
        ctx.check("R2", False, mod, fn.name, rets[0], f"result has shape {getattr(res, 'shape', None)}, expected the input shape", construct="normalize_rows: shape")
        return
    for i in range(2):
        for j in range(3):
            want = X[i, j] / sum(X[i, :])
            ctx.check("R2", _z(res[i, j] - want), mod, fn.name, rets[0], f"entry [{i},{j}] is {sp.simplify(res[i, j])}, expected {want} (row-wise normalisation)",
                      construct=f"normalize_rows: entry [{i},{j}]")


def _saturations(ctx: Ctx, mod) -> None:
    fn = mod.func("_compute_saturations")
    q = fn.name
    params = [p.arg for p in fn.args.args]
    yn, rn = params[0], params[1]
    # ---- two-phase closed form
    two = [i for i in walk_local(fn) if isinstance(i, ast.If) and u(i.test).replace(" ", "") in ("nphase==2", "2==nphase")]
    if len(two) != 1:
        raise AnchorError(f"{q}: `if nphase == 2` arm not found")
    sname = None
    asg = {}
    for s in [n for n in ast.walk(two[0]) if isinstance(n, ast.Assign)]:
        t = s.targets[0]
        if isinstance(t, ast.Subscript) and isinstance(t.slice, ast.Constant) and isinstance(t.slice.value, int):
            sname = u(t.value)
            asg[t.slice.value] = s
    if set(asg) != {0, 1}:
        raise Undecided(f"{q}: two-phase arm does not assign s[0] and s[1] explicitly")
    y1, r0, r1 = sp.symbols("y1 rho0 rho1", positive=True)
    yv = np.array([1 - y1, y1], dtype=object)
    rv = np.array([r0, r1], dtype=object)
    sv = np.array([sp.Integer(0), sp.Integer(0)], dtype=object)
    ev = Ev({yn: yv, rn: rv, sname: sv})
    for k in sorted(asg, key=lambda k_: asg[k_].lineno):
        sv[k] = ev.ev(asg[k].value)
    tot = sv[0] * r0 + sv[1] * r1
    for j in (0, 1):
        ok = _z(tot * yv[j] - rv[j] * sv[j])
        ctx.check("R3", ok, mod, q, asg[j], f"two-phase closed form violates (sum_k s_k rho_k) y_{j} - rho_{j} s_{j} = 0: residual "
                  f"{sp.simplify(tot * yv[j] - rv[j] * sv[j])}", construct=f"{q}: two-phase conservation j={j}",
                  facts={"s0": str(sp.simplify(sv[0])), "s1": str(sp.simplify(sv[1]))})
    ctx.check("R3", _z(sv[0] + sv[1] - 1), mod, q, asg[1], "two-phase saturations must sum to one", construct=f"{q}: two-phase unity")
    # ---- n-phase system
    solve = [c for c in ast.walk(fn) if isinstance(c, ast.Call) and dotted(c.func) == "np.linalg.solve"]
    if len(solve) != 1 or len(solve[0].args) != 2 or not all(isinstance(a_, ast.Name) for a_ in solve[0].args):
        raise Undecided(f"{q}: n-phase system is not solved by a single np.linalg.solve(<matrix name>, <rhs name>)")
    MAT, RHS = solve[0].args[0].id, solve[0].args[1].id
    rhs_a = [s for s in stmts_local(fn) if isinstance(s, ast.Assign) and u(s.targets[0]) == RHS]
    loops = [l for l in walk_local(fn) if isinstance(l, ast.For) and any(isinstance(s, ast.Assign) and isinstance(s.targets[0], ast.Subscript)
                                                                       and u(s.targets[0].value) == MAT for s in l.body)]
    if len(rhs_a) != 1 or len(loops) != 1:
        raise Undecided(f"{q}: n-phase system not of the recognised form ({RHS} = ..., for j: {MAT}[j] = ..., np.linalg.solve({MAT}, {RHS}))")
    ctx.check("R4", True, mod, q, solve[0], "the system is solved as np.linalg.solve(matrix, rhs)", construct=f"{q}: solve(mat, rhs)")
    filled = [c for c in ast.walk(fn) if isinstance(c, ast.Call) and dotted(c.func) == "np.fill_diagonal" and u(c.args[0]) == MAT]
    zero_diag = bool(filled) and isinstance(filled[0].args[1], ast.Constant) and filled[0].args[1].value == 0
    loop = loops[0]
    jn = u(loop.target)
    row_asg = [s for s in loop.body if isinstance(s, ast.Assign) and u(s.targets[0]) == f"{MAT}[{jn}]"]
    if len(row_asg) != 1:
        raise Undecided(f"{q}: row assignment {MAT}[{jn}] = ... not found")
    # names of the restricted arrays used in the formulas (y_, rho_)
    n = 3
    ys = sp.symbols(f"y0:{n}", positive=True)
    rs = sp.symbols(f"rho0:{n}", positive=True)
    ss = sp.symbols(f"s0:{n}")
    # map restricted names to full symbolic arrays: find `y_ = y[not_vanished]`-style assignments
    alias = {}
    for s in stmts_local(fn):
        if isinstance(s, ast.Assign) and isinstance(s.targets[0], ast.Name) and isinstance(s.value, ast.Subscript) and isinstance(s.value.value, ast.Name):
            if s.value.value.id in (yn, rn):
                alias[s.targets[0].id] = s.value.value.id
    env = {yn: np.array(ys, dtype=object), rn: np.array(rs, dtype=object)}
    for al, src in alias.items():
        env[al] = env[src]
    ev = Ev(env)
    rhs = ev.ev(rhs_a[0].value)
    mat = np.empty((n, n), dtype=object)
    for j in range(n):
        ev.env[jn] = sp.Integer(j)
        mat[j] = ev.ev(row_asg[0].value)
    if zero_diag:
        for j in range(n):
            mat[j, j] = sp.Integer(0)
    for j in range(n):
        lhs = sum(mat[j, k] * ss[k] for k in range(n)) - rhs[j]
        elim = {ss[j]: 1 - sum(ss[k] for k in range(n) if k != j)}
        eq = (sum(ss[k] * rs[k] for k in range(n)) * ys[j] - ss[j] * rs[j]).subs(elim)
        ok = _z(lhs - eq) or _z(lhs + eq)
        ctx.check("R4", ok, mod, q, row_asg[0], f"row {j} of the n-phase system is not (+/-) the conservation equation of phase {j} with s_{j} "
                  f"eliminated by the unity constraint: row residual {sp.expand(lhs)} vs equation {sp.expand(eq)}",
                  construct=f"{q}: n-phase row {j}", facts={"row": [str(sp.simplify(v)) for v in mat[j]], "rhs": str(rhs[j])})


def _is_col(sl: ast.expr, i: str) -> bool:
    return (isinstance(sl, ast.Tuple) and len(sl.elts) == 2 and isinstance(sl.elts[0], ast.Slice)
            and sl.elts[0].lower is None and sl.elts[0].upper is None and sl.elts[0].step is None and u(sl.elts[1]) == i)


def _wrappers(ctx: Ctx, mod) -> None:
    for wname, kernel in (("_chainrule_fractional_derivatives_parallel", "_chainrule_fractional_derivatives"),
                          ("_compute_saturations_parallel", "_compute_saturations")):
        fn = mod.func(wname)
        loops = [l for l in walk_local(fn) if isinstance(l, ast.For)]
        if len(loops) != 1:
            raise Undecided(f"{wname}: single column loop expected")
        i = u(loops[0].target)
        asg = [s for s in loops[0].body if isinstance(s, ast.Assign) and isinstance(s.value, ast.Call) and call_name(s.value) == kernel]
        if len(asg) != 1:
            raise Undecided(f"{wname}: kernel call not found in the loop")
        a = asg[0]
        arr_params = [p.arg for p in fn.args.args if p.arg not in ("eps",)]
        ok_t = isinstance(a.targets[0], ast.Subscript) and _is_col(a.targets[0].slice, i)
        ctx.check("R5", bool(ok_t), mod, wname, a, f"output column must be indexed [:, {i}]", construct=f"{wname}: output column")
        for k, arg in enumerate(a.value.args):
            if isinstance(arg, ast.Subscript):
                ok = _is_col(arg.slice, i) and u(arg.value) == arr_params[k]
                ctx.check("R5", ok, mod, wname, a, f"argument {k} of {kernel} must be column {i} of `{arr_params[k]}`; found `{u(arg)}`",
                          construct=f"{wname}: argument {k}")
        rng = loops[0].iter
        rng_txt = u(rng)
        cols_names = {u(st.targets[0].elts[1]) for st in walk_local(fn) if isinstance(st, ast.Assign) and isinstance(st.targets[0], ast.Tuple)
                      and len(st.targets[0].elts) == 2 and isinstance(st.value, ast.Attribute) and st.value.attr == "shape"}
        ok = isinstance(rng, ast.Call) and call_name(rng) in ("prange", "range") and (
            ".shape[1]" in rng_txt or any(rng_txt.endswith(f"({c_})") for c_ in cols_names))
        ctx.check("R5", ok, mod, wname, loops[0], "the loop must run over all columns (shape[1])", construct=f"{wname}: column range")
    # public dispatchers call the right kernels
    for pub, kernels in (("chainrule_fractional_derivatives", {"_chainrule_fractional_derivatives_parallel", "_chainrule_fractional_derivatives"}),
                         ("compute_saturations", {"_compute_saturations_parallel", "_compute_saturations"})):
        fn = mod.func(pub)
        called = {call_name(c) for c in ast.walk(fn) if isinstance(c, ast.Call)} & {k for _, ks in [(0, kernels)] for k in ks}
        ctx.check("R5", called == kernels, mod, pub, fn, f"{pub} must dispatch to {sorted(kernels)}; calls {sorted(called)}", construct=f"{pub}: dispatch")
        for c in [c for c in ast.walk(fn) if isinstance(c, ast.Call) and call_name(c) in kernels]:
            want = [p.arg for p in fn.args.args][: len(c.args)]
            ctx.check("R5", [u(a_) for a_ in c.args] == want, mod, pub, c, f"kernel must receive the arguments in order {want}", construct=f"{pub}: {call_name(c)} arguments")


def run(ctx: Ctx) -> None:
    mod = ctx.repo.module(UTL)
    _chainrule(ctx, mod)
    _normalize(ctx, mod)
    _saturations(ctx, mod)
    _wrappers(ctx, mod)


def _m(name, old, new, rule, control=False, count=1, accept_undecided=False):
    return dict(name=name, file=UTL, old=old, new=new, rule=rule, control=control, count=count, accept_undecided=accept_undecided)


MUTANTS = [
    _m("seed-already-normalised-shortcut", "    x_sum = np.sum(x)\n", "    x_sum = np.sum(x)\n    if np.abs(x_sum - 1.0) < 1e-14:\n        return df_dx\n", "R1"),
    _m("dxn-missing-square", "np.outer(x, np.ones(ncomp)) / (x_sum**2)", "np.outer(x, np.ones(ncomp)) / (x_sum)", "R1", control=True),
    _m("dxn-transposed-outer", "np.outer(x, np.ones(ncomp)) / (x_sum**2)", "np.outer(np.ones(ncomp), x) / (x_sum**2)", "R1"),
    _m("dxn-plus", "dxn = np.eye(ncomp) / x_sum - np.outer", "dxn = np.eye(ncomp) / x_sum + np.outer", "R1"),
    _m("dot-transposed", "df_dx[-ncomp:] = df_dx[-ncomp:].dot(dxn)", "df_dx[-ncomp:] = dxn.dot(df_dx[-ncomp:])", "R1", accept_undecided=True),
    _m("normalize-columns", "return (x.T / x.sum(axis=1)).T", "return x / x.sum(axis=0)", "R2"),
    _m("two-phase-density-ratio-inverted", "s[0] = 1.0 / (1.0 + y[1] / (1 - y[1]) * rho[0] / rho[1])", "s[0] = 1.0 / (1.0 + y[1] / (1 - y[1]) * rho[1] / rho[0])", "R3", control=True),
    _m("two-phase-s1", "                s[1] = 1.0 - s[0]", "                s[1] = s[0]", "R3"),
    _m("nphase-row-sign", "mat[j] = rho_[j] * (y_[j] - 1) - rho_ * y_[j]", "mat[j] = rho_[j] * (y_[j] - 1) + rho_ * y_[j]", "R4"),
    _m("nphase-rhs", "rhs = rho_ * (y_ - 1.0)", "rhs = rho_ * (y_ + 1.0)", "R4"),
    _m("nphase-no-zero-diagonal", "                np.fill_diagonal(mat, 0.0)\n", "", "R4"),
    _m("wrapper-wrong-column", "s[:, i] = _compute_saturations(y[:, i], rho[:, i], eps)", "s[:, i] = _compute_saturations(y[:, i], rho[:, 0], eps)", "R5"),
    _m("dispatch-swapped-args", "        s = _compute_saturations_parallel(y, rho, eps)", "        s = _compute_saturations_parallel(rho, y, eps)", "R5"),
]
