"""C43 - units: table consistency of derived units, the convert_units parser, Constants
subclasses and their SI_units tables, every literal unit string, physical constants."""
from __future__ import annotations

import ast

from ..core.astutil import u, dotted, call_name, kwarg, walk_local, parent_map, names_in, stmts_local, methods
from ..core.loader import AnchorError, Undecided
from ..core.report import Ctx
from ..core import cfg as cfgmod
from .c34 import normalise  # behaviour-preserving rewrites shared by this rule family

UNITS = "src/porepy/models/units.py"
MATERIALS = "src/porepy/compositional/materials.py"
COMMON = "src/porepy/utils/common_constants.py"

# SI definitions of derived units as exponent vectors over (kg, m, s)  [oracle: the SI brochure]
SI_DERIVED = {"Pa": {"kg": 1, "m": -1, "s": -2}, "J": {"kg": 1, "m": 2, "s": -2}, "N": {"kg": 1, "m": 1, "s": -2},
              "W": {"kg": 1, "m": 2, "s": -3}, "Hz": {"s": -1}}
# derived units whose numeric factor is the repo's own convention (excluded from the SI comparison, see DESIGN)
CONVENTION_UNITS = {"degree": "rad"}
# names in common_constants that stand for one SI base/derived unit
COMMON_UNIT_NAMES = {"SECOND": "s", "KILOGRAM": "kg", "METER": "m", "PASCAL": "Pa", "JOULE": "J", "NEWTON": "N",
                     "MOLE": "mol", "RADIAN": "rad", "KELVIN": "K", "CELSIUS": "K"}

META = {
    "explanation": (
        "Table consistency of the unit system, decided on the AST with an exact monomial normal form (exponent vectors). R1: each derived "
        "unit property of Units is the SI monomial in (kg, m, s) (Pa, J, N, W); `degree` is only required to be a "
        "multiple of rad (repo convention); every base unit attribute is read from the kwargs key of its own name and "
        "the permitted-key list equals the set of base units. Since Units forbids s != 1, a wrong exponent of s is "
        "invisible to every run - only a table check sees it. R2: the syntax tree of convert_units is INTERPRETED by a small "
        "interpreter (class UnitParser: concrete strings, symbolic units/value; nothing of porepy is imported or run) on a "
        "handful of unit strings; the recorded arithmetic must be v / U(name) ** float(power) per '*' component in order "
        "(v * ... for to_si), dimensionless markers return the value unchanged, and an ndarray argument is not updated "
        "in place. The same interpreter parses every literal unit string of the repo for R4-R6, so the grammar checked is "
        "the grammar implemented, whatever its coding. R3: every (transitive) subclass of Constants is a dataclass, annotates SI_units as ClassVar, "
        "has an SI_units entry (merged the way the code merges: dict(**Base.SI_units) + update) for every numeric field "
        "it declares or inherits, defines no __post_init__/__setattr__; Constants.__post_init__ pops exactly its own "
        "utility fields, converts with self.units.convert_units(v, <SI_units[k]>) and to_units rebuilds from "
        "constants_in_SI. R4: every literal unit string (SI_units tables, convert_units arguments, si_units tags, "
        "arguments of pass-through helpers) tokenises under the parser's own grammar to known unit names with numeric "
        "exponents. R5: a dimensional constant of common_constants used under models/ reaches only the value argument "
        "of convert_units and the unit string given there has the constant's dimension. R6: a constant name declared "
        "in two independent SI_units tables has the same dimension in both. Not decided: unit invariance of simulations."),
    "rule_text": "one obligation per derived/base unit, per parser clause, per Constants subclass clause and field, per unit string, per constant use",
    "trusted_base": ["python ast", "exact monomial arithmetic over Fractions (class Mono in this module)",
                     "SI definitions of Pa, J, N, W", "sa.core"],
    "assumptions": ["the normaliser applied to a copy of each anchored function (guard-continue -> if/else, one level of same-module helper inlining incl. early returns, c34.normalise) preserves behaviour", "unit strings that are not literals (values of variables, tags read back) are covered at the literal "
                    "sites they originate from", "f-string exponents are integers"],
    "technique": "table extraction + exact monomial normal form + abstract interpretation of the unit-string parser",
}
MIN_INSTANCES = {"R1": 11, "R2": 9, "R3": 40, "R4": 50, "R5": 4, "R6": 3}


# =====================================================================================
#  monomials
# =====================================================================================

from fractions import Fraction


class Mono:
    """coefficient * pi**pi_pow * prod(symbol**exponent); exact arithmetic (Fractions).
    A 20-line replacement for a computer-algebra monomial normal form: unit expressions in the
    repo are products/quotients/constant powers only."""

    def __init__(self, coeff=Fraction(1), pi_pow=Fraction(0), exps=None):
        self.coeff, self.pi_pow, self.exps = Fraction(coeff), Fraction(pi_pow), dict(exps or {})

    def _norm(self):
        self.exps = {k: v for k, v in self.exps.items() if v != 0}
        return self

    def __mul__(self, o):
        e = dict(self.exps)
        for k, v in o.exps.items():
            e[k] = e.get(k, Fraction(0)) + v
        return Mono(self.coeff * o.coeff, self.pi_pow + o.pi_pow, e)._norm()

    def inv(self):
        return Mono(1 / self.coeff, -self.pi_pow, {k: -v for k, v in self.exps.items()})

    def pow(self, p: Fraction):
        if p.denominator != 1 and self.coeff != 1:
            raise Undecided("fractional power of a numeric coefficient")
        c = self.coeff ** int(p) if p.denominator == 1 else Fraction(1)
        return Mono(c, self.pi_pow * p, {k: v * p for k, v in self.exps.items()})._norm()

    def is_number(self):
        return not self.exps

    def coeff_text(self) -> str:
        t = str(self.coeff)
        if self.pi_pow:
            t += f"*pi^{self.pi_pow}"
        return t


def expr_to_mono(e: ast.expr, leaf) -> Mono:
    """ast arithmetic (*, /, ** constant, unary -) over leaves -> Mono; leaf(node) returns a Mono or None."""
    if isinstance(e, ast.Constant) and isinstance(e.value, (int, float)) and not isinstance(e.value, bool):
        return Mono(Fraction(repr(e.value)))
    if isinstance(e, ast.BinOp):
        if isinstance(e.op, ast.Mult):
            return expr_to_mono(e.left, leaf) * expr_to_mono(e.right, leaf)
        if isinstance(e.op, ast.Div):
            return expr_to_mono(e.left, leaf) * expr_to_mono(e.right, leaf).inv()
        if isinstance(e.op, ast.Pow):
            p = expr_to_mono(e.right, leaf)
            if not p.is_number() or p.pi_pow:
                raise Undecided(f"exponent in `{u(e)}` is not a number")
            return expr_to_mono(e.left, leaf).pow(p.coeff)
        raise Undecided(f"operator in `{u(e)}` is not a monomial operation")
    if isinstance(e, ast.UnaryOp) and isinstance(e.op, ast.USub):
        m = expr_to_mono(e.operand, leaf)
        return Mono(-m.coeff, m.pi_pow, m.exps)
    v = leaf(e)
    if v is None:
        raise Undecided(f"cannot translate `{u(e)}`")
    return v


def _fmt_vec(vec: dict) -> dict:
    return {k: (int(v) if Fraction(v).denominator == 1 else str(v)) for k, v in sorted(vec.items())}


class UnitSystem:
    """What Units offers: base attributes and derived properties with their defining expressions."""

    def __init__(self, base: list[str], derived: dict[str, ast.expr]):
        self.base = base
        self.derived = derived
        self._cache: dict[str, Mono] = {}

    def names(self) -> set[str]:
        return set(self.base) | set(self.derived)

    def mono_of(self, name: str, depth: int = 0) -> Mono:
        if name in self.base:
            return Mono(exps={name: Fraction(1)})
        if depth > 6:
            raise Undecided(f"Units.{name}: cyclic definition")
        if name not in self._cache:
            def leaf(n):
                if isinstance(n, ast.Attribute) and isinstance(n.value, ast.Name) and n.value.id == "self" \
                        and (n.attr in self.base or n.attr in self.derived):
                    return self.mono_of(n.attr, depth + 1)
                if dotted(n) in ("np.pi", "numpy.pi", "math.pi"):
                    return Mono(pi_pow=Fraction(1))
                return None
            self._cache[name] = expr_to_mono(self.derived[name], leaf)
        return self._cache[name]

    def vector_of(self, name: str) -> dict:
        """exponent vector over base units (numeric factors dropped)."""
        return dict(self.mono_of(name).exps)

    def coefficient_of(self, name: str) -> Mono:
        m = self.mono_of(name)
        return Mono(m.coeff, m.pi_pow)


def tokenise(text: str, parser, shortcuts, known: set[str]):
    """(ok, reason, [(name, power)]) for a unit string: Units.convert_units itself is interpreted on it (see UnitParser)."""
    return parser.tokens(text)


def vector_of_string(tokens, us: UnitSystem) -> dict:
    vec: dict = {}
    for name, p in tokens:
        for b, e in us.vector_of(name).items():
            vec[b] = vec.get(b, Fraction(0)) + e * Fraction(repr(float(p)))
    return {k: v for k, v in vec.items() if v != 0}


# =====================================================================================
#  R1 / R2: Units
# =====================================================================================

def _units_system(ctx: Ctx):
    mod = ctx.repo.module(UNITS)
    cls = mod.cls("Units")
    meths = methods(cls)
    init = meths.get("__init__")
    if init is None:
        raise AnchorError("Units.__init__ missing")
    # base attributes: self.X = kwargs.get("key", default)
    base: list[str] = []
    for s in stmts_local(init):
        tgt = s.target if isinstance(s, ast.AnnAssign) else (s.targets[0] if isinstance(s, ast.Assign) and len(s.targets) == 1 else None)
        val = getattr(s, "value", None)
        if isinstance(tgt, ast.Attribute) and isinstance(tgt.value, ast.Name) and tgt.value.id == "self" \
                and isinstance(val, ast.Call) and call_name(val) == "get" and u(val.func.value) == "kwargs":
            key = val.args[0].value if val.args and isinstance(val.args[0], ast.Constant) else None
            default = val.args[1] if len(val.args) > 1 else None
            base.append(tgt.attr)
            ctx.check("R1", key == tgt.attr and isinstance(default, ast.Constant) and default.value == 1, mod, "Units.__init__", s,
                      f"base unit `{tgt.attr}` must be read from kwargs['{tgt.attr}'] with default 1; it reads kwargs[{key!r}] "
                      f"default {u(default) if default is not None else None}", construct=f"base unit {tgt.attr} <- kwargs[{key!r}]")
    for lp in [n for n in walk_local(init) if isinstance(n, ast.For) and isinstance(n.target, ast.Name)
               and isinstance(n.iter, (ast.Tuple, ast.List)) and all(isinstance(e, ast.Constant) and isinstance(e.value, str) for e in n.iter.elts)]:
        K = lp.target.id
        for c in [c for c in walk_local(lp) if isinstance(c, ast.Call) and call_name(c) == "setattr" and len(c.args) == 3
                  and u(c.args[0]) == "self"]:
            val = c.args[2]
            ok = u(c.args[1]) == K and isinstance(val, ast.Call) and call_name(val) == "get" and u(val.func.value) == "kwargs" \
                and len(val.args) == 2 and u(val.args[0]) == K and isinstance(val.args[1], ast.Constant) and val.args[1].value == 1
            for e in lp.iter.elts:
                base.append(e.value)
                ctx.check("R1", ok, mod, "Units.__init__", c,
                          f"base unit `{e.value}` must be read from kwargs['{e.value}'] with default 1 (set in a loop: `{u(c)}`)",
                          construct=f"base unit {e.value} <- kwargs[{e.value!r}]" if ok else f"base unit {e.value} <- {u(val)}")
    if len(base) < 3:
        raise AnchorError("Units.__init__: base unit assignments `self.X = kwargs.get('X', 1)` not found")
    # permitted keys
    lists = [n for n in walk_local(init) if isinstance(n, ast.Compare) and isinstance(n.ops[0], ast.NotIn)
             and isinstance(n.comparators[0], (ast.List, ast.Tuple, ast.Set))]
    if len(lists) != 1:
        raise Undecided("Units.__init__: permitted-key test not recognised")
    allowed = [e.value for e in lists[0].comparators[0].elts if isinstance(e, ast.Constant)]
    ctx.check("R1", sorted(allowed) == sorted(base), mod, "Units.__init__", lists[0],
              f"permitted keys {sorted(allowed)} must be exactly the base units {sorted(base)}",
              construct=f"permitted keys {sorted(allowed)}")
    derived: dict[str, ast.expr] = {}
    for name, fn in meths.items():
        if any(u(d) == "property" for d in fn.decorator_list):
            rets = [n for n in walk_local(fn) if isinstance(n, ast.Return)]
            if len(rets) != 1 or rets[0].value is None:
                raise Undecided(f"Units.{name}: property without a single return expression")
            derived[name] = rets[0].value
    us = UnitSystem(base, derived)
    for name in derived:
        if name in SI_DERIVED:
            vec = us.vector_of(name)
            want = SI_DERIVED[name]
            coeff = us.coefficient_of(name)
            ok = vec == {k: Fraction(v) for k, v in want.items()} and coeff.coeff == 1 and coeff.pi_pow == 0
            ctx.check("R1", ok, mod, f"Units.{name}", derived[name],
                      f"derived unit {name} must be the SI monomial {want}; the property computes {_fmt_vec(vec)} "
                      f"(factor {coeff.coeff_text()})",
                      construct=f"{name} = {_fmt_vec(vec)} * {coeff.coeff_text()}",
                      facts={"expr": u(derived[name]), "exponents": {k: str(v) for k, v in vec.items()}})
            ctx.sample({"rule": "R1", "unit": name, "expr": u(derived[name]), "exponents": {k: str(v) for k, v in vec.items()}})
        elif name in CONVENTION_UNITS:
            vec = us.vector_of(name)
            ctx.check("R1", vec == {CONVENTION_UNITS[name]: Fraction(1)}, mod, f"Units.{name}", derived[name],
                      f"{name} must be a numeric multiple of {CONVENTION_UNITS[name]} (the factor is the repo's convention and is "
                      f"not checked); exponents {_fmt_vec(vec)}", construct=f"{name} ~ {_fmt_vec(vec)}")
        else:
            raise Undecided(f"Units.{name}: derived unit without an SI definition in the checker's table")
    return mod, cls, meths, us


class _PyError(Exception):
    """The analysed code would raise this Python exception on the given input (a RESULT of the interpretation)."""

    def __init__(self, kind: str, msg: str):
        super().__init__(f"{kind}: {msg}")
        self.kind, self.msg = kind, msg


class _Unit:
    def __init__(self, name):
        self.name = name

    def __eq__(self, o):
        return isinstance(o, _Unit) and o.name == self.name

    def __repr__(self):
        return f"U({self.name})"


class _Op:
    def __init__(self, op, a, b):
        self.op, self.a, self.b = op, a, b

    def __eq__(self, o):
        return isinstance(o, _Op) and (o.op, o.a, o.b) == (self.op, self.a, self.b)

    def __repr__(self):
        return f"({self.a!r} {self.op} {self.b!r})"


class _Val:
    """the `value` argument: a scalar or an ndarray object (identity matters for in-place updates)"""

    def __init__(self, is_array: bool, original: bool = True):
        self.is_array, self.original = is_array, original
        self.ops: list[tuple[str, object]] = []
        self.mutated_original = False

    def applied(self, op, f, inplace: bool):
        if inplace and self.is_array:
            self.ops.append((op, f))
            if self.original:
                self.mutated_original = True
            return self
        v = _Val(self.is_array, original=False)
        v.ops = self.ops + [(op, f)]
        v.mutated_original = self.mutated_original
        return v

    def copy(self):
        v = _Val(self.is_array, original=False)
        v.ops = list(self.ops)
        return v


class _Return(Exception):
    def __init__(self, v):
        self.v = v


class _Continue(Exception):
    pass


class _Break(Exception):
    pass


class UnitParser:
    """Small interpreter of Units.convert_units over CONCRETE unit strings and SYMBOLIC numbers: string operations are
    evaluated as Python evaluates them, getattr(self, name) yields the symbol U(name), arithmetic on the value is recorded.
    It interprets the syntax tree of the (normalised) method; nothing of porepy is imported or run."""

    def __init__(self, mod, cls, fn: ast.FunctionDef, known: set[str]):
        self.mod, self.cls, self.fn, self.known = mod, cls, fn, known
        ps = [a.arg for a in fn.args.args]
        self.SELF, self.VAL, self.UN, self.TOSI = ps[0], ps[1], ps[2], ps[3]
        self.steps = 0

    # ---- public ----------------------------------------------------------------------
    def run(self, text: str, to_si: bool, is_array: bool = False):
        """-> (_Val result, original _Val) or raises _PyError / Undecided"""
        v0 = _Val(is_array)
        env = {self.SELF: "SELF", self.VAL: v0, self.UN: text, self.TOSI: to_si}
        self.steps = 0
        try:
            self.block(self.fn.body, env)
        except _Return as r:
            return r.v, v0
        return None, v0

    def tokens(self, text: str):
        """(ok, reason, [(unit name, exponent)]) for a unit string, as the method itself parses it"""
        try:
            res, _ = self.run(text, False)
        except _PyError as e:
            return False, f"convert_units raises {e}", []
        if not isinstance(res, _Val):
            return False, "convert_units does not return the value", []
        out = []
        for op, f in res.ops:
            if isinstance(f, _Unit):
                out.append((f.name, 1.0))
            elif isinstance(f, _Op) and f.op == "**" and isinstance(f.a, _Unit) and isinstance(f.b, (int, float)):
                out.append((f.a.name, float(f.b)))
            else:
                return False, f"component evaluates to {f!r}, not unit ** number", out
        return True, "", out

    # ---- statements --------------------------------------------------------------------
    def block(self, stmts, env):
        for s in stmts:
            self.steps += 1
            if self.steps > 2000:
                raise Undecided("Units.convert_units: interpretation does not terminate")
            self.stmt(s, env)

    def stmt(self, s, env):
        if isinstance(s, ast.Expr):
            if isinstance(s.value, ast.Constant):
                return
            self.ev(s.value, env)
            return
        if isinstance(s, ast.Assign) and len(s.targets) == 1:
            self.bind(s.targets[0], self.ev(s.value, env), env)
            return
        if isinstance(s, ast.AnnAssign):
            if s.value is not None:
                self.bind(s.target, self.ev(s.value, env), env)
            return
        if isinstance(s, ast.AugAssign) and isinstance(s.target, ast.Name):
            cur, rhs = env.get(s.target.id), self.ev(s.value, env)
            env[s.target.id] = self.arith(type(s.op), cur, rhs, inplace=True)
            return
        if isinstance(s, ast.If):
            self.block(s.body if self.truth(self.ev(s.test, env)) else s.orelse, env)
            return
        if isinstance(s, ast.For):
            seq = self.ev(s.iter, env)
            if not isinstance(seq, (list, tuple)):
                raise Undecided(f"Units.convert_units: loop over `{u(s.iter)}` (not a concrete list)")
            try:
                for item in seq:
                    self.bind(s.target, item, env)
                    try:
                        self.block(s.body, env)
                    except _Continue:
                        continue
                else:
                    self.block(s.orelse, env)
            except _Break:
                pass
            return
        if isinstance(s, ast.Return):
            raise _Return(self.ev(s.value, env) if s.value is not None else None)
        if isinstance(s, ast.Continue):
            raise _Continue()
        if isinstance(s, ast.Break):
            raise _Break()
        if isinstance(s, ast.Pass):
            return
        if isinstance(s, ast.Raise):
            raise _PyError("raise", u(s)[:80])
        raise Undecided(f"Units.convert_units: statement `{u(s)[:60]}` is outside the interpreter's fragment")

    def bind(self, tg, v, env):
        if isinstance(tg, ast.Name):
            env[tg.id] = v
        elif isinstance(tg, (ast.Tuple, ast.List)):
            if not isinstance(v, (list, tuple)):
                raise Undecided(f"Units.convert_units: unpacking of a non-sequence in `{u(tg)}`")
            if len(v) != len(tg.elts):
                raise _PyError("ValueError", f"cannot unpack {len(v)} value(s) {list(v)!r} into `{u(tg)}`")
            for t, x in zip(tg.elts, v):
                self.bind(t, x, env)
        else:
            raise Undecided(f"Units.convert_units: assignment target `{u(tg)}`")

    # ---- expressions -------------------------------------------------------------------
    def truth(self, v):
        if isinstance(v, (bool, int, float, str, list, tuple, set, frozenset)) or v is None:
            return bool(v)
        raise Undecided("Units.convert_units: truth value of a symbolic quantity")

    def arith(self, op, a, b, inplace=False):
        sym = {ast.Mult: "*", ast.Div: "/", ast.Pow: "**", ast.Add: "+", ast.Sub: "-"}.get(op)
        if sym is None:
            raise Undecided("Units.convert_units: arithmetic operator outside the fragment")
        if isinstance(a, _Val):
            if sym not in ("*", "/"):
                raise Undecided(f"Units.convert_units: value {sym} ...")
            return a.applied(sym, b, inplace)
        if isinstance(b, _Val):
            if sym == "*":
                return b.applied("*", a, False)
            raise Undecided("Units.convert_units: value on the right of a non-commutative operator")
        if isinstance(a, (int, float)) and isinstance(b, (int, float)) and not isinstance(a, bool):
            try:
                return {"*": a * b, "/": a / b, "**": a ** b, "+": a + b, "-": a - b}[sym]
            except ZeroDivisionError:
                raise _PyError("ZeroDivisionError", "")
        if isinstance(a, str) and isinstance(b, str) and sym == "+":
            return a + b
        if isinstance(a, (list, tuple)) and isinstance(b, type(a)) and sym == "+":
            return a + b
        return _Op(sym, a, b)

    def ev(self, e, env):
        if isinstance(e, ast.Constant):
            return e.value
        if isinstance(e, ast.Name):
            if e.id in env:
                return env[e.id]
            coll = _literal_collection(self.mod, self.cls, self.fn, e)
            if coll is not None:
                return self.ev(coll, env)
            raise Undecided(f"Units.convert_units: unknown name `{e.id}`")
        if isinstance(e, (ast.List, ast.Tuple, ast.Set)):
            vals = [self.ev(x, env) for x in e.elts]
            return vals if isinstance(e, ast.List) else (tuple(vals) if isinstance(e, ast.Tuple) else set(vals))
        if isinstance(e, ast.Attribute):
            d = dotted(e)
            if d in ("np.ndarray", "numpy.ndarray"):
                return "NDARRAY"
            base = self.ev(e.value, env) if not (isinstance(e.value, ast.Name) and e.value.id in ("np", "numpy")) else None
            if base == "SELF":
                coll = _literal_collection(self.mod, self.cls, self.fn, e)
                if coll is not None:
                    return self.ev(coll, env)
                return self.unit(e.attr)
            raise Undecided(f"Units.convert_units: attribute `{u(e)}`")
        if isinstance(e, ast.UnaryOp):
            v = self.ev(e.operand, env)
            if isinstance(e.op, ast.Not):
                return not self.truth(v)
            if isinstance(e.op, ast.USub) and isinstance(v, (int, float)):
                return -v
            raise Undecided(f"Units.convert_units: `{u(e)}`")
        if isinstance(e, ast.BoolOp):
            res = None
            for x in e.values:
                res = self.ev(x, env)
                t = self.truth(res)
                if isinstance(e.op, ast.And) and not t:
                    return res
                if isinstance(e.op, ast.Or) and t:
                    return res
            return res
        if isinstance(e, ast.IfExp):
            return self.ev(e.body if self.truth(self.ev(e.test, env)) else e.orelse, env)
        if isinstance(e, ast.BinOp):
            return self.arith(type(e.op), self.ev(e.left, env), self.ev(e.right, env))
        if isinstance(e, ast.Compare) and len(e.ops) == 1:
            a, b = self.ev(e.left, env), self.ev(e.comparators[0], env)
            op = e.ops[0]
            conc = (str, int, float, bool, list, tuple, set, frozenset, type(None))
            if not isinstance(a, conc) or not isinstance(b, conc):
                raise Undecided(f"Units.convert_units: comparison of symbolic quantities `{u(e)}`")
            try:
                if isinstance(op, ast.In):
                    return a in b
                if isinstance(op, ast.NotIn):
                    return a not in b
                if isinstance(op, ast.Eq):
                    return a == b
                if isinstance(op, ast.NotEq):
                    return a != b
                if isinstance(op, ast.Gt):
                    return a > b
                if isinstance(op, ast.GtE):
                    return a >= b
                if isinstance(op, ast.Lt):
                    return a < b
                if isinstance(op, ast.LtE):
                    return a <= b
                if isinstance(op, ast.Is):
                    return a is b
                if isinstance(op, ast.IsNot):
                    return a is not b
            except TypeError as ex:
                raise _PyError("TypeError", str(ex))
            raise Undecided(f"Units.convert_units: comparison `{u(e)}`")
        if isinstance(e, ast.Subscript):
            base = self.ev(e.value, env)
            if isinstance(base, (list, tuple, str)):
                if isinstance(e.slice, ast.Slice):
                    lo = self.ev(e.slice.lower, env) if e.slice.lower is not None else None
                    hi = self.ev(e.slice.upper, env) if e.slice.upper is not None else None
                    st = self.ev(e.slice.step, env) if e.slice.step is not None else None
                    return base[lo:hi:st]
                k = self.ev(e.slice, env)
                if not isinstance(k, int):
                    raise Undecided(f"Units.convert_units: index `{u(e.slice)}`")
                try:
                    return base[k]
                except IndexError:
                    raise _PyError("IndexError", f"{base!r}[{k}]")
            raise Undecided(f"Units.convert_units: subscript `{u(e)}`")
        if isinstance(e, ast.Call):
            return self.call(e, env)
        if isinstance(e, ast.JoinedStr):
            out = ""
            for v in e.values:
                x = self.ev(v.value if isinstance(v, ast.FormattedValue) else v, env)
                if not isinstance(x, (str, int, float)):
                    raise Undecided("Units.convert_units: f-string over a symbolic quantity")
                out += str(x)
            return out
        if isinstance(e, (ast.ListComp, ast.GeneratorExp)) and len(e.generators) == 1:
            g = e.generators[0]
            seq = self.ev(g.iter, env)
            if not isinstance(seq, (list, tuple, str)):
                raise Undecided(f"Units.convert_units: comprehension over `{u(g.iter)}`")
            out = []
            for item in seq:
                env2 = dict(env)
                self.bind(g.target, item, env2)
                if all(self.truth(self.ev(c, env2)) for c in g.ifs):
                    out.append(self.ev(e.elt, env2))
            return out
        raise Undecided(f"Units.convert_units: expression `{u(e)[:60]}` is outside the interpreter's fragment")

    def unit(self, name):
        if not isinstance(name, str):
            raise Undecided("Units.convert_units: getattr with a non-string name")
        if name not in self.known:
            raise _PyError("AttributeError", f"'{name}' is not a unit of Units (known: {sorted(self.known)})")
        return _Unit(name)

    def call(self, c: ast.Call, env):
        name = call_name(c)
        f = c.func
        args = [self.ev(a, env) for a in c.args]
        kw = {k.arg: self.ev(k.value, env) for k in c.keywords if k.arg}
        if isinstance(f, ast.Name):
            if name == "getattr" and len(args) == 2 and args[0] == "SELF":
                return self.unit(args[1])
            if name == "float" and len(args) == 1:
                if isinstance(args[0], (int, float)):
                    return float(args[0])
                if isinstance(args[0], str):
                    try:
                        return float(args[0])
                    except ValueError:
                        raise _PyError("ValueError", f"could not convert string to float: {args[0]!r}")
            if name == "int" and len(args) == 1 and isinstance(args[0], (str, int, float)):
                try:
                    return int(args[0])
                except ValueError:
                    raise _PyError("ValueError", f"invalid literal for int(): {args[0]!r}")
            if name == "len" and len(args) == 1 and isinstance(args[0], (list, tuple, str, set)):
                return len(args[0])
            if name == "isinstance" and len(args) == 2:
                kinds = args[1] if isinstance(args[1], tuple) else (args[1],)
                if isinstance(args[0], _Val):
                    return args[0].is_array and "NDARRAY" in kinds
                if isinstance(args[0], str):
                    return any(k == "STR" for k in kinds)
                raise Undecided(f"Units.convert_units: `{u(c)}`")
            if name in ("list", "tuple") and len(args) == 1 and isinstance(args[0], (list, tuple)):
                return list(args[0]) if name == "list" else tuple(args[0])
            if name == "str" and len(args) == 1 and isinstance(args[0], str):
                return args[0]
            if name in ("reversed",) and len(args) == 1 and isinstance(args[0], (list, tuple)):
                return list(reversed(args[0]))
            if name == "enumerate" and len(args) == 1 and isinstance(args[0], (list, tuple)):
                return [(i, x) for i, x in enumerate(args[0])]
            if name == "pow" and len(args) == 2:
                return self.arith(ast.Pow, args[0], args[1])
        if isinstance(f, ast.Attribute):
            if isinstance(f.value, ast.Name) and f.value.id in ("np", "numpy", "math"):
                if name == "copy" and len(args) == 1 and isinstance(args[0], _Val):
                    return args[0].copy()
                if name in ("array", "asarray") and len(args) == 1 and isinstance(args[0], _Val):
                    return args[0].copy() if (name == "array" and kw.get("copy", True)) else args[0]
                if name in ("power", "pow") and len(args) == 2:
                    return self.arith(ast.Pow, args[0], args[1])
                if name == "float64" and len(args) == 1 and isinstance(args[0], (int, float)):
                    return float(args[0])
                raise Undecided(f"Units.convert_units: call `{u(c)[:60]}`")
            recv = self.ev(f.value, env)
            if isinstance(recv, str):
                try:
                    if name in ("replace", "split", "rsplit", "partition", "rpartition", "strip", "lstrip", "rstrip", "lower",
                                "upper", "startswith", "endswith", "count", "find", "index", "removeprefix", "removesuffix", "isspace"):
                        r = getattr(recv, name)(*args, **kw)
                        return list(r) if isinstance(r, list) else r
                    if name == "join" and len(args) == 1 and isinstance(args[0], (list, tuple)):
                        return recv.join(args[0])
                except (TypeError, ValueError) as ex:
                    raise _PyError(type(ex).__name__, str(ex))
            if isinstance(recv, _Val) and name == "copy" and not args:
                return recv.copy()
            if isinstance(recv, list) and name in ("append", "extend", "pop") :
                return getattr(recv, name)(*args)
        raise Undecided(f"Units.convert_units: call `{u(c)[:60]}` is outside the interpreter's fragment")


def _check_convert(ctx: Ctx, mod, cls, meths, known: set[str]):
    """R2: Units.convert_units is interpreted on a handful of unit strings; the recorded arithmetic must be the definition
    of the conversion.  Returns the parser model used by R4/R5/R6 for every literal unit string of the repo."""
    q = "Units.convert_units"
    if meths.get("convert_units") is None:
        raise AnchorError(f"{q} missing")
    fn = normalise(mod, meths["convert_units"], cls=cls)
    params = [a.arg for a in fn.args.args]
    if params[:4] != ["self", "value", "units", "to_si"]:
        raise AnchorError(f"{q}: signature changed: {params}")
    P = UnitParser(mod, cls, fn, known)
    U, Pw = _Unit, lambda n, p: _Op("**", _Unit(n), float(p))

    def outcome(text, to_si, is_array=False):
        try:
            res, v0 = P.run(text, to_si, is_array)
        except _PyError as e:
            return ("raises", str(e)), None
        if not isinstance(res, _Val):
            return ("returns", repr(res)), None
        return ("ops", res.ops), (res, v0)

    def show(o):
        return " ".join(f"{op} {f!r}" for op, f in o[1]) if o[0] == "ops" else f"{o[0]} {o[1]}"
    cases = [
        ("Pa", False, [("/", U("Pa"))], "SI -> simulation units divides by the unit"),
        ("Pa", True, [("*", U("Pa"))], "to_si multiplies by the unit"),
        ("m^-2", False, [("/", Pw("m", -2))], "name^power: getattr(self, name) ** float(power), name first"),
        ("m^-2", True, [("*", Pw("m", -2))], "name^power with to_si"),
        ("kg*m^-3", False, [("/", U("kg")), ("/", Pw("m", -3))], "one application per '*' component, in order"),
        ("J*kg^-1*K^-1", True, [("*", U("J")), ("*", Pw("kg", -1)), ("*", Pw("K", -1))], "three components, to_si"),
    ]
    for text, to_si, want, why in cases:
        o, _ = outcome(text, to_si)
        ctx.check("R2", o == ("ops", want), mod, q, fn,
                  f"convert_units(v, '{text}', to_si={to_si}) must compute v {' '.join(f'{op} {f!r}' for op, f in want)} ({why}); "
                  f"the method computes v {show(o)}",
                  construct=f"convert_units('{text}', to_si={to_si}) = v {show(o)}", facts={"expected": repr(want), "got": show(o)})
    # blanks
    o_b, _ = outcome("kg * m^-3", False)
    strips = o_b == ("ops", [("/", U("kg")), ("/", Pw("m", -3))])
    ctx.sample({"rule": "R2", "blanks_stripped": strips, "with_blanks": show(o_b)})
    # dimensionless markers: literal strings the unit string is compared with
    markers: list[str] = []
    for n in walk_local(fn):
        if isinstance(n, ast.Compare) and len(n.ops) == 1 and isinstance(n.ops[0], (ast.In, ast.NotIn)) and u(n.left) == params[2]:
            coll = _literal_collection(mod, cls, fn, n.comparators[0])
            if coll is None:
                raise Undecided(f"{q}: the collection of dimensionless markers `{u(n.comparators[0])}` is not a literal list")
            markers += [e.value for e in coll.elts if isinstance(e, ast.Constant) and isinstance(e.value, str)]
        if isinstance(n, ast.Compare) and len(n.ops) == 1 and isinstance(n.ops[0], (ast.Eq, ast.NotEq)) and u(n.left) == params[2] \
                and isinstance(n.comparators[0], ast.Constant) and isinstance(n.comparators[0].value, str):
            markers.append(n.comparators[0].value)
    for mk in sorted(set(markers)):
        o, _ = outcome(mk, False)
        ctx.check("R2", o == ("ops", []), mod, q, fn,
                  f"a dimensionless value (unit string {mk!r}) must be returned unchanged; the method computes v {show(o)}",
                  construct=f"convert_units({mk!r}) = v {show(o)}")
    # aliasing: an ndarray argument must not be updated in place
    o, pair = outcome("Pa", False, is_array=True)
    if pair is None:
        raise Undecided(f"{q}: ndarray case not interpretable: {show(o)}")
    res, v0 = pair
    ctx.check("R2", not v0.mutated_original and not v0.ops, mod, q, fn,
              "an ndarray argument is updated in place (`value *= factor` without `value = value.copy()` first): the caller's "
              "array would be converted too", construct=f"ndarray argument mutated: {bool(v0.mutated_original or v0.ops)}")
    ctx.check("R2", o == ("ops", [("/", U("Pa"))]), mod, q, fn, f"ndarray input converts like a scalar; computes v {show(o)}",
              construct=f"convert_units(array, 'Pa') = v {show(o)}")
    ctx.sample({"rule": "R2", "markers": sorted(set(markers))})
    return P, sorted(set(markers))


def _is_call(e, name: str) -> bool:
    return isinstance(e, ast.Call) and call_name(e) == name


def _literal_collection(mod, cls, fn, e: ast.expr):
    """list/tuple/set literal denoted by e: the literal itself, frozenset/tuple/list/set(<literal>), or a name bound
    once to such a literal in the function, the class body or the module."""
    for _ in range(3):
        if isinstance(e, (ast.List, ast.Tuple, ast.Set)):
            return e
        if isinstance(e, ast.Call) and call_name(e) in ("frozenset", "set", "tuple", "list") and len(e.args) == 1:
            e = e.args[0]
            continue
        name = None
        if isinstance(e, ast.Name):
            name = e.id
        elif isinstance(e, ast.Attribute) and isinstance(e.value, ast.Name) and e.value.id in ("self", "cls", cls.name):
            name = e.attr
        if name is None:
            return None
        vals = []
        for scope in (list(stmts_local(fn)), cls.body, mod.tree.body):
            for st in scope:
                tg = st.target if isinstance(st, ast.AnnAssign) else (st.targets[0] if isinstance(st, ast.Assign) and len(st.targets) == 1 else None)
                if isinstance(tg, ast.Name) and tg.id == name and getattr(st, "value", None) is not None:
                    vals.append(st.value)
            if vals:
                break
        if len(vals) != 1:
            return None
        e = vals[0]
    return None


# =====================================================================================
#  R3: Constants hierarchy
# =====================================================================================

class ClsInfo:
    def __init__(self, mod, node: ast.ClassDef):
        self.mod, self.node = mod, node
        self.bases = [(dotted(b) or u(b)).split(".")[-1] for b in node.bases]
        self.is_dataclass = any((dotted(d.func) if isinstance(d, ast.Call) else dotted(d) or "").split(".")[-1] == "dataclass"
                                for d in node.decorator_list)
        self.fields: list[tuple[str, ast.AnnAssign]] = []
        self.si_ann: ast.AnnAssign | None = None
        for s in node.body:
            if isinstance(s, ast.AnnAssign) and isinstance(s.target, ast.Name):
                if s.target.id == "SI_units":
                    self.si_ann = s
                elif "ClassVar" not in u(s.annotation):
                    self.fields.append((s.target.id, s))


def _class_table(ctx: Ctx, scope: list[str]) -> dict[str, ClsInfo]:
    table: dict[str, ClsInfo] = {}
    for rel in scope:
        m = ctx.repo.module(rel)
        for n in ast.walk(m.tree):
            if isinstance(n, ast.ClassDef) and n.name not in table:
                table[n.name] = ClsInfo(m, n)
    return table


def _descendants(table: dict[str, ClsInfo], root: str) -> list[str]:
    out = []
    changed = True
    known = {root}
    while changed:
        changed = False
        for name, ci in table.items():
            if name not in known and any(b in known for b in ci.bases):
                known.add(name)
                out.append(name)
                changed = True
    return out


def _si_table(ci: ClsInfo, table: dict[str, ClsInfo], cache: dict, depth=0) -> dict[str, tuple[str, ast.AST]]:
    """SI_units of a class evaluated the way the class body builds it. key -> (unit string, node)"""
    name = ci.node.name
    if name in cache:
        return cache[name]
    if depth > 8:
        raise Undecided(f"{name}: SI_units inheritance too deep")
    cur: dict[str, tuple[str, ast.AST]] | None = None

    def from_dict(d: ast.Dict, acc: dict):
        for k, v in zip(d.keys, d.values):
            if k is None:
                acc.update(spread(v))
            else:
                if not (isinstance(k, ast.Constant) and isinstance(k.value, str) and isinstance(v, ast.Constant) and isinstance(v.value, str)):
                    raise Undecided(f"{name}.SI_units: entry `{u(k)}: {u(v)}` is not a pair of string literals")
                acc[k.value] = (v.value, v)

    def spread(v: ast.expr) -> dict:
        d = dotted(v)
        if d and d.endswith(".SI_units"):
            b = d.split(".")[-2]
            if b not in table:
                raise Undecided(f"{name}.SI_units: base table `{d}` not found")
            return dict(_si_table(table[b], table, cache, depth + 1))
        if isinstance(v, ast.Dict):
            acc: dict = {}
            from_dict(v, acc)
            return acc
        raise Undecided(f"{name}.SI_units: cannot evaluate `**{u(v)}`")

    def evaluate(v: ast.expr) -> dict:
        acc: dict = {}
        if isinstance(v, ast.Dict):
            from_dict(v, acc)
            return acc
        if isinstance(v, ast.Call) and call_name(v) == "dict":
            for a in v.args:
                if isinstance(a, ast.Dict):
                    from_dict(a, acc)
                else:
                    acc.update(spread(a))
            for kw in v.keywords:
                if kw.arg is None:
                    acc.update(spread(kw.value))
                elif isinstance(kw.value, ast.Constant) and isinstance(kw.value.value, str):
                    acc[kw.arg] = (kw.value.value, kw.value)
                else:
                    raise Undecided(f"{name}.SI_units: keyword `{kw.arg}` is not a string literal")
            return acc
        if isinstance(v, ast.BinOp) and isinstance(v.op, ast.BitOr):
            acc.update(evaluate(v.left) if not (dotted(v.left) or "").endswith(".SI_units") else spread(v.left))
            acc.update(evaluate(v.right) if not (dotted(v.right) or "").endswith(".SI_units") else spread(v.right))
            return acc
        raise Undecided(f"{name}.SI_units: initialiser `{u(v)[:80]}` not recognised")
    for s in ci.node.body:
        if s is ci.si_ann:
            if s.value is None:
                raise Undecided(f"{name}.SI_units declared without a value")
            cur = evaluate(s.value)
        elif isinstance(s, ast.Assign) and any(u(t) == "SI_units" for t in s.targets):
            cur = evaluate(s.value)
        elif isinstance(s, ast.Expr) and isinstance(s.value, ast.Call) and u(s.value.func) == "SI_units.update":
            if cur is None:
                raise Undecided(f"{name}: SI_units.update before its definition")
            for a in s.value.args:
                if isinstance(a, ast.Dict):
                    from_dict(a, cur)
                else:
                    raise Undecided(f"{name}: SI_units.update(`{u(a)[:60]}`) not a dict literal")
        elif not isinstance(s, (ast.FunctionDef, ast.AnnAssign)) and "SI_units" in names_in(s):
            raise Undecided(f"{name}: statement `{u(s)[:80]}` touches SI_units in an unknown way")
    if cur is None:
        # inherited unchanged
        for b in ci.bases:
            if b in table and (b == "Constants" or b in cache or table[b].si_ann is not None or any(
                    x in table for x in table[b].bases)):
                try:
                    cur = dict(_si_table(table[b], table, cache, depth + 1))
                    break
                except Undecided:
                    raise
        if cur is None:
            cur = {}
    cache[name] = cur
    return cur


def _all_fields(ci: ClsInfo, table: dict[str, ClsInfo], seen=None) -> dict[str, tuple[str, ast.AnnAssign]]:
    """dataclass fields visible in ci (own and inherited from dataclass bases): name -> (declaring class, node)"""
    seen = seen or set()
    out: dict = {}
    for b in reversed(ci.bases):
        if b in table and b not in seen:
            seen.add(b)
            out.update(_all_fields(table[b], table, seen))
    if ci.is_dataclass:
        for n, s in ci.fields:
            out[n] = (ci.node.name, s)
    return out


def _check_constants(ctx: Ctx, us: UnitSystem, strip_blanks, shortcuts, unit_sites: list) -> dict:
    mmod = ctx.repo.module(MATERIALS)
    scope = ctx.repo.all_py("src/porepy") if ctx.tier == "thorough" else (
        ctx.repo.all_py("src/porepy/compositional") + ctx.repo.all_py("src/porepy/models"))
    table = _class_table(ctx, [MATERIALS] + [r for r in scope if r != MATERIALS])
    if "Constants" not in table or table["Constants"].mod.rel != MATERIALS:
        raise AnchorError("class Constants not found in compositional/materials.py")
    base = table["Constants"]
    bm = methods(base.node)
    util = [n for n, _ in base.fields]
    # --- the base class machinery ---------------------------------------------------------
    post = bm.get("__post_init__")
    if post is None:
        raise AnchorError("Constants.__post_init__ missing")
    pops = [c.args[0].value for c in walk_local(post) if isinstance(c, ast.Call) and call_name(c) == "pop" and c.args
            and isinstance(c.args[0], ast.Constant)]
    for lp in [n for n in walk_local(post) if isinstance(n, ast.For) and isinstance(n.target, ast.Name)
               and isinstance(n.iter, (ast.Tuple, ast.List, ast.Set))]:
        if any(isinstance(c, ast.Call) and call_name(c) in ("pop", "__delitem__") and c.args and u(c.args[0]) == lp.target.id
               for c in walk_local(lp)) or any(isinstance(d, ast.Delete) for d in walk_local(lp)):
            pops += [e.value for e in lp.iter.elts if isinstance(e, ast.Constant)]
    for dc in [n for n in walk_local(post) if isinstance(n, ast.DictComp)]:
        for g_ in dc.generators:
            for f_ in g_.ifs:
                if isinstance(f_, ast.Compare) and isinstance(f_.ops[0], ast.NotIn) and isinstance(f_.comparators[0], (ast.Tuple, ast.List, ast.Set)):
                    pops += [e.value for e in f_.comparators[0].elts if isinstance(e, ast.Constant)]
    if not pops:
        raise Undecided("Constants.__post_init__: cannot see how the utility fields are separated from the numeric constants")
    ctx.check("R3", sorted(pops) == sorted(util), mmod, "Constants.__post_init__", post,
              f"__post_init__ must remove exactly the utility fields of Constants {sorted(util)} before treating the rest as "
              f"numeric constants; it pops {sorted(pops)}", construct=f"utility fields popped {sorted(pops)}")
    conv = [c for c in walk_local(post) if isinstance(c, ast.Call) and call_name(c) == "convert_units"]
    if len(conv) != 1:
        raise AnchorError("Constants.__post_init__: expected one convert_units call")
    c = conv[0]
    pmap = parent_map(post)
    loop = c
    while loop in pmap and not isinstance(loop, ast.For):
        loop = pmap[loop]
    ok_conv = False
    facts = {}
    if isinstance(loop, ast.For) and isinstance(loop.target, ast.Tuple) and len(loop.target.elts) == 2:
        K, V = [e.id for e in loop.target.elts]
        unit_arg = c.args[1] if len(c.args) > 1 else kwarg(c, "units")
        if isinstance(unit_arg, ast.Name):
            defs = [s.value for s in walk_local(loop) if isinstance(s, ast.Assign) and u(s.targets[0]) == unit_arg.id]
            unit_arg = defs[0] if len(defs) == 1 else unit_arg
        tosi = kwarg(c, "to_si") or (c.args[2] if len(c.args) > 2 else None)
        ok_conv = (u(c.func.value) == "self.units" and u(c.args[0]) == V and u(unit_arg) in (f"self.SI_units[{K}]", f"type(self).SI_units[{K}]")
                   and (tosi is None or (isinstance(tosi, ast.Constant) and tosi.value is False))
                   and u(loop.iter) == "self.constants_in_SI.items()")
        facts = {"call": u(c), "unit": u(unit_arg), "iter": u(loop.iter)}
        sets = [x for x in walk_local(loop) if isinstance(x, ast.Call) and u(x.func) in ("object.__setattr__", "super().__setattr__")]
        ok_conv = ok_conv and len(sets) == 1 and u(sets[0].args[-2]) == K and (
            sets[0].args[-1] is c or (isinstance(sets[0].args[-1], ast.Name) and any(
                isinstance(s, ast.Assign) and u(s.targets[0]) == sets[0].args[-1].id and s.value is c for s in walk_local(loop))))
    ctx.check("R3", ok_conv, mmod, "Constants.__post_init__", c,
              "each SI constant k is converted as self.units.convert_units(v, SI_units[k]) (SI -> simulation units) over "
              "constants_in_SI.items() and stored under the same name", construct="post-init conversion loop", facts=facts)
    upd = [x for x in walk_local(post) if isinstance(x, ast.Call) and u(x.func) == "self.constants_in_SI.update"]
    ok_upd = len(upd) == 1 and isinstance(loop, ast.For) and upd[0].lineno < loop.lineno and "constants" in names_in(upd[0])
    ctx.check("R3", ok_upd, mmod, "Constants.__post_init__", upd[0] if upd else post,
              "constants_in_SI is filled from the constructor arguments before anything is converted",
              construct="constants_in_SI filled before conversion")
    tou = bm.get("to_units")
    if tou is None:
        raise AnchorError("Constants.to_units missing")
    rets = [r for r in walk_local(tou) if isinstance(r, ast.Return)]
    if len(rets) != 1 or rets[0].value is None:
        raise Undecided("Constants.to_units: expected a single return")

    def loc(e, depth=4):
        """follow single-assignment locals (plain or annotated)"""
        while isinstance(e, ast.Name) and depth > 0:
            dv = [s_.value for s_ in walk_local(tou) if isinstance(s_, (ast.Assign, ast.AnnAssign)) and getattr(s_, "value", None) is not None
                  and u(s_.targets[0] if isinstance(s_, ast.Assign) else s_.target) == e.id]
            if len(dv) != 1:
                break
            e, depth = dv[0], depth - 1
        return e
    rc = loc(rets[0].value)
    if not isinstance(rc, ast.Call) or u(loc(rc.func)) not in ("type(self)", "self.__class__"):
        raise Undecided(f"Constants.to_units: returned object `{u(rc)[:60]}` is not a call of the instance's own class")
    stars = [loc(k.value) for k in rc.keywords if k.arg is None]
    un = kwarg(rc, "units")
    if len(stars) != 1:
        raise Undecided("Constants.to_units: constructor call without a single ** argument")
    star_txt = u(stars[0])
    if star_txt != "self.constants_in_SI" and not ("getattr(self" in star_txt or "asdict(self" in star_txt or "vars(self" in star_txt
                                                     or "self.__dict__" in star_txt):
        raise Undecided(f"Constants.to_units: ** argument `{star_txt[:60]}` not recognised")
    ok_tou = star_txt == "self.constants_in_SI" and un is not None and u(loc(un)) == tou.args.args[1].arg
    ctx.check("R3", ok_tou, mmod, "Constants.to_units", rets[0],
              "to_units must rebuild the object from the ORIGINAL SI values (**self.constants_in_SI) with the new units; passing "
              "already converted attributes converts twice", construct="to_units rebuilds from constants_in_SI")
    writers = set()
    for fname, f in bm.items():
        for n in walk_local(f):
            if isinstance(n, ast.Call) and u(n.func).startswith("self.constants_in_SI.") and call_name(n) in ("update", "pop", "clear", "setdefault"):
                writers.add(fname)
            if isinstance(n, (ast.Assign, ast.AugAssign)):
                tg = n.targets if isinstance(n, ast.Assign) else [n.target]
                if any("constants_in_SI" in u(t) for t in tg):
                    writers.add(fname)
    ctx.check("R3", writers == {"__post_init__"}, mmod, "Constants", base.node,
              f"constants_in_SI is written only by __post_init__; writers: {sorted(writers)}", construct="writers of constants_in_SI")

    # --- subclasses -------------------------------------------------------------------------
    cache: dict = {"Constants": {}}
    subs = _descendants(table, "Constants")
    if not subs:
        raise AnchorError("no subclass of Constants found")
    known = us.names()
    tables: dict[str, dict] = {}
    for name in subs:
        ci = table[name]
        q = name
        own_numeric = [n for n, _ in ci.fields]
        ctx.check("R3", ci.is_dataclass or not own_numeric, ci.mod, q, ci.node,
                  f"{name} declares constants {own_numeric} but is not decorated with @dataclass: they stay plain class "
                  f"attributes, are never converted by __post_init__ and are not carried by to_units",
                  construct=f"{name} is a dataclass")
        if ci.si_ann is not None:
            ctx.check("R3", "ClassVar" in u(ci.si_ann.annotation), ci.mod, q, ci.si_ann,
                      f"{name}.SI_units must be annotated ClassVar (otherwise dataclass turns the table into a field)",
                      construct=f"{name}.SI_units: {u(ci.si_ann.annotation)}")
        own = {s.name for s in ci.node.body if isinstance(s, ast.FunctionDef)}
        bad = sorted(own & {"__post_init__", "__setattr__"})
        ctx.check("R3", not bad, ci.mod, q, ci.node,
                  f"{name} defines {bad}: Constants.__init_subclass__ rejects that (conversion and freezing must be inherited)",
                  construct=f"{name} inherits __post_init__/__setattr__")
        si = _si_table(ci, table, cache)
        tables[name] = si
        fields = _all_fields(ci, table)
        for fname, (decl, node) in sorted(fields.items()):
            if fname in util:
                continue
            ctx.check("R3", fname in si, ci.mod, q, node if decl == name else ci.node,
                      f"constant `{fname}` (declared in {decl}) has no entry in {name}.SI_units: instantiation raises "
                      f"AttributeError / the constant cannot be converted", construct=f"{name}.{fname} has SI unit",
                      facts={"declared_in": decl})
        dead = sorted(set(si) - set(fields))
        if dead:
            ctx.note(f"{name}.SI_units has entries without a field: {dead}")
        # unit strings of own (not copied) entries are R4 sites
        for key, (text, node) in sorted(si.items()):
            if any(node is n for n in ast.walk(ci.node)):
                unit_sites.append((ci.mod, f"{name}.SI_units", node, text, f"{name}.SI_units['{key}']"))
        ctx.sample({"rule": "R3", "class": name, "fields": sorted(f for f in fields if f not in util), "table_size": len(si)})
    return {"tables": tables, "class_table": table}


# =====================================================================================
#  R4: unit strings
# =====================================================================================

def _literal_units(e: ast.expr):
    """(text, exact) for a str literal or an f-string (placeholders replaced by '1')."""
    if isinstance(e, ast.Constant) and isinstance(e.value, str):
        return e.value, True
    if isinstance(e, ast.JoinedStr):
        return "".join(v.value if isinstance(v, ast.Constant) else "1" for v in e.values), False
    return None, False


def _collect_sites(ctx: Ctx, unit_sites: list) -> tuple[int, int]:
    """convert_units(value, <lit>), {'si_units': <lit>}, calls of pass-through helpers."""
    n_calls = n_nonlit = 0
    mods = list(ctx.repo.modules("src/porepy")) if ctx.tier == "thorough" else [
        ctx.repo.module(r) for r in ctx.repo.all_py("src/porepy/models") + ctx.repo.all_py("src/porepy/compositional")
        + ctx.repo.all_py("src/porepy/viz")]
    passthrough: dict[str, int] = {}  # function name -> positional index (excluding self) of the unit parameter
    pending = []
    for m in mods:
        quals = m.qualnames()
        spans = sorted(((n.lineno, n.end_lineno, q) for q, n in quals.items() if isinstance(n, (ast.FunctionDef, ast.AsyncFunctionDef))))

        def encl(node):
            best = "<module>"
            for a, b, q in spans:
                if a <= node.lineno <= b:
                    best = q
            return best
        for n in ast.walk(m.tree):
            if isinstance(n, ast.Call) and call_name(n) == "convert_units" and isinstance(n.func, ast.Attribute):
                n_calls += 1
                arg = n.args[1] if len(n.args) > 1 else kwarg(n, "units")
                if arg is None:
                    continue
                text, exact = _literal_units(arg)
                if text is not None:
                    unit_sites.append((m, encl(n), arg, text, f"convert_units(..., {u(arg)})"))
                else:
                    n_nonlit += 1
                    ctx.unresolved_site(f"{m.rel}:{encl(n)}: convert_units unit argument `{u(arg)}` is not a literal")
                    # pass-through helper?
                    q = encl(n)
                    fn = quals.get(q)
                    if isinstance(arg, ast.Name) and isinstance(fn, ast.FunctionDef):
                        ps = [a.arg for a in fn.args.args]
                        if arg.id in ps and not any(isinstance(s, ast.Assign) and u(s.targets[0]) == arg.id for s in walk_local(fn)):
                            idx = ps.index(arg.id) - (1 if ps and ps[0] in ("self", "cls") else 0)
                            passthrough[fn.name] = (idx, arg.id)
            elif isinstance(n, ast.Dict):
                for k, v in zip(n.keys, n.values):
                    if isinstance(k, ast.Constant) and k.value == "si_units":
                        text, exact = _literal_units(v)
                        if text is not None:
                            unit_sites.append((m, encl(v), v, text, f"tags si_units={u(v)}"))
            elif isinstance(n, ast.Call):
                pending.append((m, encl, n))
    for m, encl, n in pending:
        nm = call_name(n)
        if nm in passthrough:
            idx, pname = passthrough[nm]
            arg = kwarg(n, pname) or (n.args[idx] if idx < len(n.args) else None)
            if arg is not None:
                text, exact = _literal_units(arg)
                if text is not None:
                    unit_sites.append((m, encl(n), arg, text, f"{nm}(..., {u(arg)})"))
    return n_calls, n_nonlit


# =====================================================================================
#  R5: physical constants
# =====================================================================================

def _constant_dimensions(ctx: Ctx, us: UnitSystem) -> dict[str, dict]:
    m = ctx.repo.module(COMMON)
    defs: dict[str, ast.expr] = {}
    for s in m.tree.body:
        if isinstance(s, ast.Assign) and len(s.targets) == 1 and isinstance(s.targets[0], ast.Name) and s.targets[0].id.isupper():
            defs[s.targets[0].id] = s.value
    if "GRAVITY_ACCELERATION" not in defs:
        raise AnchorError("common_constants.GRAVITY_ACCELERATION missing")
    cache: dict[str, Mono | None] = {}

    def mono_of(name: str, depth=0):
        if name in cache:
            return cache[name]
        if depth > 10 or name not in defs:
            raise Undecided(f"common_constants: cannot resolve {name}")
        if name in COMMON_UNIT_NAMES:
            unit = COMMON_UNIT_NAMES[name]
            val = Mono(exps=us.vector_of(unit) if unit in us.names() else {unit: Fraction(1)})
        else:
            def leaf(n):
                if isinstance(n, ast.Name):
                    return mono_of(n.id, depth + 1)
                return None
            try:
                val = expr_to_mono(defs[name], leaf)
            except (Undecided, TypeError):
                val = None
        cache[name] = val
        return val
    dims = {}
    for name in defs:
        v = mono_of(name)
        if v is not None and v.exps:
            dims[name] = dict(v.exps)
    return dims


def _as_value_of_conversion(pm: dict, x: ast.AST):
    """the convert_units call of which x is the VALUE argument (positional 0 or value=), else None"""
    p = pm.get(x)
    if isinstance(p, ast.keyword) and p.arg == "value":
        p = pm.get(p)
        return p if isinstance(p, ast.Call) and call_name(p) == "convert_units" else None
    if isinstance(p, ast.Call) and call_name(p) == "convert_units" and p.args and p.args[0] is x:
        return p
    return None


def _check_constants_use(ctx: Ctx, us: UnitSystem, strip_blanks, shortcuts) -> None:
    dims = _constant_dimensions(ctx, us)
    ctx.sample({"rule": "R5", "dimensional_constants": {k: _fmt_vec(v) for k, v in dims.items()}})
    known = us.names()
    rels = ctx.repo.all_py("src/porepy/models")
    other = [r for r in ctx.repo.all_py("src/porepy") if not r.startswith("src/porepy/models") and r != COMMON] \
        if ctx.tier == "thorough" else []
    for rel in rels + other:
        m = ctx.repo.module(rel)
        is_rule = rel in rels
        for qn, fn in m.functions():
            pm = None
            for n in walk_local(fn):
                if isinstance(n, ast.Attribute) and isinstance(n.value, ast.Name) and n.value.id == "pp" and n.attr in dims:
                    pm = pm or parent_map(fn)
                    # follow one single-assignment local
                    site = n
                    par = pm.get(n)
                    carrier = None
                    if isinstance(par, ast.Assign) and par.value is n and len(par.targets) == 1 and isinstance(par.targets[0], ast.Name):
                        carrier = par.targets[0].id
                    calls = []
                    if carrier is not None:
                        uses = [x for x in walk_local(fn) if isinstance(x, ast.Name) and x.id == carrier and isinstance(x.ctx, ast.Load)]
                        for x in uses:
                            calls.append(_as_value_of_conversion(pm, x))
                    else:
                        calls.append(_as_value_of_conversion(pm, n))
                    reaches = bool(calls) and all(c is not None for c in calls)
                    if not is_rule:
                        if not reaches:
                            ctx.note(f"{rel}:{qn}: pp.{n.attr} used outside convert_units (outside models/: note only)")
                        continue
                    ctx.check("R5", reaches, m, qn, n,
                              f"pp.{n.attr} has dimension {_fmt_vec(dims[n.attr])}; under models/ it must enter the simulation only through "
                              f"units.convert_units(<constant>, <unit string>)", construct=f"pp.{n.attr} reaches convert_units",
                              facts={"dimension": {k: str(v) for k, v in dims[n.attr].items()}})
                    for c in [c for c in calls if c is not None]:
                        arg = c.args[1] if len(c.args) > 1 else kwarg(c, "units")
                        text, exact = _literal_units(arg) if arg is not None else (None, False)
                        if text is None or not exact:
                            raise Undecided(f"{rel}:{qn}: unit string of the conversion of pp.{n.attr} is not a literal")
                        ok, why, toks = tokenise(text, strip_blanks, shortcuts, known)
                        vec = vector_of_string(toks, us) if ok else None
                        tosi = kwarg(c, "to_si")
                        ctx.check("R5", ok and vec == dims[n.attr] and (tosi is None or (isinstance(tosi, ast.Constant) and tosi.value is False)),
                                  m, qn, c,
                                  f"pp.{n.attr} has dimension {_fmt_vec(dims[n.attr])} and is converted with unit string '{text}' "
                                  f"= {_fmt_vec(vec) if ok else why} (must agree; SI -> simulation units, to_si off)",
                                  construct=f"pp.{n.attr} converted as '{text}'",
                                  facts={"constant_dimension": {k: str(v) for k, v in dims[n.attr].items()},
                                         "string_dimension": {k: str(v) for k, v in (vec or {}).items()}})


# =====================================================================================
def run(ctx: Ctx) -> None:
    mod, cls, meths, us = _units_system(ctx)
    strip_blanks, shortcuts = _check_convert(ctx, mod, cls, meths, us.names())
    unit_sites: list = []
    info = _check_constants(ctx, us, strip_blanks, shortcuts, unit_sites)
    n_calls, n_nonlit = _collect_sites(ctx, unit_sites)
    known = us.names()
    seen = set()
    for m, qn, node, text, what in unit_sites:
        key = (m.rel, qn, what)
        if key in seen:
            continue
        seen.add(key)
        ok, why, toks = tokenise(text, strip_blanks, shortcuts, known)
        ctx.check("R4", ok, m, qn, node,
                  f"unit string '{text}' is not accepted by Units.convert_units: {why}" if not ok else f"unit string '{text}' parses",
                  construct=what, facts={"text": text, "tokens": [(a, b) for a, b in toks]})
    ctx.note(f"{n_calls} convert_units call sites in scope, {n_nonlit} with a non-literal unit argument (listed as unresolved; "
             f"their strings originate from the literal sites checked by R4)")
    # R6 sibling agreement between independent tables
    tables = info["tables"]
    ct = info["class_table"]

    def ancestors(n, acc=None):
        acc = acc if acc is not None else set()
        for b in ct[n].bases:
            if b in ct and b not in acc:
                acc.add(b)
                ancestors(b, acc)
        return acc
    names = sorted(tables)
    by_key: dict[str, list] = {}
    for n in names:
        for k, (text, node) in tables[n].items():
            if any(node is x for x in ast.walk(ct[n].node)):
                by_key.setdefault(k, []).append((n, text, node))
    for k, lst in sorted(by_key.items()):
        for i in range(len(lst)):
            for j in range(i + 1, len(lst)):
                (n1, t1, node1), (n2, t2, node2) = lst[i], lst[j]
                if n1 in ancestors(n2) or n2 in ancestors(n1):
                    continue
                o1, _, k1 = tokenise(t1, strip_blanks, shortcuts, known)
                o2, _, k2 = tokenise(t2, strip_blanks, shortcuts, known)
                if not (o1 and o2):
                    continue
                v1, v2 = vector_of_string(k1, us), vector_of_string(k2, us)
                ctx.check("R6", v1 == v2, ct[n2].mod, f"{n2}.SI_units", node2,
                          f"constant `{k}` is declared '{t1}' in {n1} and '{t2}' in {n2}: "
                          + ("same dimension" if v1 == v2 else f"different dimensions {_fmt_vec(v1)} vs {_fmt_vec(v2)}"),
                          construct=f"{k}: {n1} '{t1}' vs {n2} '{t2}'")
    _check_constants_use(ctx, us, strip_blanks, shortcuts)


def _m(name, file, old, new, rule, control=False, count=1):
    return dict(name=name, file=file, old=old, new=new, rule=rule, control=control, count=count)


CL = "src/porepy/models/constitutive_laws.py"
FPL = "src/porepy/models/fluid_property_library.py"

MUTANTS = [
    _m("Pa-missing-second-power", UNITS, "return self.kg / (self.m * self.s**2)", "return self.kg / (self.m * self.s)", "R1", control=True),
    _m("W-as-joule", UNITS, "return self.kg * self.m**2 / self.s**3", "return self.kg * self.m**2 / self.s**2", "R1"),
    _m("J-length-power", UNITS, "return self.kg * self.m**2 / self.s**2", "return self.kg * self.m / self.s**2", "R1"),
    _m("base-unit-wrong-key", UNITS, 'self.kg: number = kwargs.get("kg", 1)', 'self.kg: number = kwargs.get("m", 1)', "R1"),
    _m("permitted-keys-miss-rad", UNITS, 'if key not in ["m", "s", "kg", "K", "mol", "rad"]:', 'if key not in ["m", "s", "kg", "K", "mol"]:', "R1"),
    _m("both-arms-multiply", UNITS, "            else:\n                value /= factor", "            else:\n                value *= factor", "R2"),
    _m("direction-flipped", UNITS, "            if to_si:\n                value *= factor", "            if not to_si:\n                value *= factor", "R2"),
    _m("no-copy-of-ndarray", UNITS, "        if isinstance(value, np.ndarray):\n            value = value.copy()\n", "", "R2"),
    _m("power-name-swapped", UNITS, 'sub_unit, power = sub_unit.split("^")', 'power, sub_unit = sub_unit.split("^")', "R2"),
    _m("power-multiplied", UNITS, "factor = getattr(self, sub_unit) ** float(power)", "factor = getattr(self, sub_unit) * float(power)", "R2"),
    _m("split-on-wrong-char", UNITS, 'for sub_unit in units.split("*"):', 'for sub_unit in units.split("/"):', "R2"),
    _m("dimensionless-scaled", UNITS, '        if units in ["", "1", "-"]:\n            return value', '        if units in ["", "1", "-"]:\n            return value * self.m', "R2"),
    _m("field-without-SI-entry", MATERIALS, "    open_state_tolerance: number = 1e-10\n",
       "    open_state_tolerance: number = 1e-10\n\n    contact_gap_tolerance: number = 1e-3\n", "R3", control=True),
    _m("SI_units-not-ClassVar", MATERIALS, '    SI_units: ClassVar[dict[str, str]] = dict(\n        {\n            "pressure": "Pa",',
       '    SI_units: dict[str, str] = dict(\n        {\n            "pressure": "Pa",', "R3"),
    _m("subclass-not-dataclass", MATERIALS, "@dataclass(kw_only=True, eq=False)\nclass NumericalConstants(Constants):", "class NumericalConstants(Constants):", "R3"),
    _m("subclass-table-not-merged", MATERIALS, "SI_units: ClassVar[dict[str, str]] = dict(**SolidConstants.SI_units)\n    SI_units.update(\n        {\n            \"initial_dilation_damage\"",
       "SI_units: ClassVar[dict[str, str]] = dict()\n    SI_units.update(\n        {\n            \"initial_dilation_damage\"", "R3"),
    _m("to_units-converts-twice", MATERIALS, "return type(self)(name=self.name, units=units, **self.constants_in_SI)",
       "return type(self)(name=self.name, units=units, **{k: getattr(self, k) for k in self.constants_in_SI})", "R3"),
    _m("post-init-converts-to-si", MATERIALS, "v_in_custom_units = self.units.convert_units(v, si_unit)",
       "v_in_custom_units = self.units.convert_units(v, si_unit, to_si=True)", "R3"),
    _m("unit-string-unknown-name", MATERIALS, '"molar_mass": "kg * mol^-1",', '"molar_mass": "kg * mmol^-1",', "R4"),
    _m("unit-string-slash", CL, 'val = self.units.convert_units(pp.GRAVITY_ACCELERATION, "m*s^-2")', 'val = self.units.convert_units(pp.GRAVITY_ACCELERATION, "m/s^2")', "R4"),
    _m("unit-string-double-caret", MATERIALS, '"compressibility": "Pa^-1",', '"compressibility": "Pa^^-1",', "R4"),
    _m("tag-unit-typo", "src/porepy/models/energy_balance.py", 'tags={"si_units": "J * kg^-1"},', 'tags={"si_units": "J * Kg^-1"},', "R4"),
    _m("gravity-wrong-time-power", FPL, 'val = self.units.convert_units(g_constant, "m*s^-2")', 'val = self.units.convert_units(g_constant, "m*s^-1")', "R5"),
    _m("gravity-unconverted", FPL, 'val = self.units.convert_units(g_constant, "m*s^-2")', "val = g_constant", "R5"),
    _m("gravity-as-pressure", CL, 'val = self.units.convert_units(pp.GRAVITY_ACCELERATION, "m*s^-2")', 'val = self.units.convert_units(pp.GRAVITY_ACCELERATION, "Pa")', "R5"),
    _m("sibling-dimension-differs", MATERIALS, '"skin_factor": "-",\n            "specific_heat_capacity": "J * kg^-1 * K^-1",',
       '"skin_factor": "-",\n            "specific_heat_capacity": "J * kg^-1",', "R6"),
]
