"""C17 - upwind selection wiring: agreement of Upwind.discretize with the row/sign/exterior
conventions of Grid.cell_faces_as_dense, one deletion index set (Neumann + Dirichlet inflow),
support of the boundary matrices, identical component expansion of all stored matrices."""
from __future__ import annotations

import ast
from typing import Optional

from ..core.astutil import u, call_name, names_in
from ..core.loader import AnchorError, Undecided
from ..core.report import Ctx
from .c14 import Fn, strip_conv

UPWIND = "src/porepy/numerics/fv/upwind.py"
GRID = "src/porepy/grids/grid.py"
Q_DISC = "Upwind.discretize"
Q_DENSE = "Grid.cell_faces_as_dense"

META = {
    "explanation": (
        "Cross-module convention agreement decided on the syntax trees. R1 (producer): Grid.cell_faces_as_dense fills "
        "a (2, num_faces) array initialised with the exterior marker -1; the row written under the mask sgn>0 (r+) "
        "and the row written under sgn<0 (r-) are extracted, with face indices as columns and cell indices as values "
        "under one and the same mask. R2 (consumer): in Upwind.discretize the mask `flux >= 0` (flux along the face "
        "normal, which points out of the sgn>0 cell) reads row r+ for the upstream cell and its complement reads "
        "row r-, each with the same mask on both sides. R3: the inflow test pairs the same masks with the same rows "
        "and its exterior comparison is true for the producer's marker and false for every valid cell index; it is "
        "restricted to bc.is_dir. R4: row, values and col of the upwind matrix are np.delete'd with one and the same "
        "index set, which is exactly Neumann faces + Dirichlet inflow faces, and col is the upstream-cell array. "
        "R5: the matrix stored under the *_neu_* key is supported on (neumann_ind, neumann_ind), the one under the "
        "*_dir_* key on (inflow_ind, inflow_ind), the upwind key holds the matrix built from the deleted arrays; "
        "assemble_matrix_rhs multiplies the matrix read from the dir key (not the neu one) by the flux. R6: all "
        "three stored matrices are kron(M, eye(num_components)) with the same num_components, and the point-grid "
        "shortcut stores the same three keys; every store is an unconditional item assignment (no setdefault / "
        "if-missing guard: a kept entry is stale after the boundary condition or flux changes); the inflow test has "
        "no conjunct besides is_dir and the direction/exterior alternatives. Not decided: conservation / maximum principle of a transport step "
        "(run-time), the sign convention of cell_faces itself (positive = normal points out of the cell)."),
    "rule_text": "one obligation per (producer store | upstream store | inflow conjunct | deleted array | stored matrix | key)",
    "trusted_base": ["python ast", "sa.core (loader, astutil, cfg)", "sa.rules.c14.Fn (reaching definitions)",
                     "sps.find(A) returns (row, col, value); cell_faces is faces x cells with +1 where the normal points out of the cell"],
    "assumptions": ["key attributes are classified by the tokens neu / dir / upwind in their names",
                    "np.sign is the only transformation between the stored flux and the compared array"],
    "technique": "cross-module convention extraction + typed dataflow (reaching definitions) on both sides",
}
MIN_INSTANCES = {"R1": 5, "R2": 7, "R3": 7, "R4": 6, "R5": 6, "R6": 8}


def _const_int(e: ast.expr) -> Optional[int]:
    try:
        v = ast.literal_eval(e)
    except Exception:
        return None
    return int(v) if isinstance(v, (int, float)) and not isinstance(v, bool) and float(v).is_integer() else None


def _cmp_zero(e: ast.expr):
    """Compare(X op c) with a literal c on one side -> (X, opname with X on the left, c)."""
    if not (isinstance(e, ast.Compare) and len(e.ops) == 1):
        return None
    l, r = e.left, e.comparators[0]
    flip = {"Gt": "Lt", "Lt": "Gt", "GtE": "LtE", "LtE": "GtE", "Eq": "Eq", "NotEq": "NotEq"}
    op = type(e.ops[0]).__name__
    if op not in flip:
        return None
    if _const_int(r) is not None:
        return l, op, _const_int(r)
    if _const_int(l) is not None:
        return r, flip[op], _const_int(l)
    return None


def _holds(op: str, a: int, c: int) -> bool:
    return {"Gt": a > c, "Lt": a < c, "GtE": a >= c, "LtE": a <= c, "Eq": a == c, "NotEq": a != c}[op]


# ------------------------------------------------------------------------------------
# producer

def producer(ctx: Ctx) -> dict:
    mod = ctx.repo.module(GRID)
    f = Fn(mod, Q_DENSE)
    find = None
    for nm, ds in f.defs.items():
        for d in ds:
            if d.kind == "tuple" and isinstance(d.value, ast.Call) and call_name(d.value) == "find" and d.arity == 3:
                find = d
    if find is None or not any(isinstance(n, ast.Attribute) and n.attr == "cell_faces" for n in ast.walk(find.value)):
        raise AnchorError(f"{GRID}:{Q_DENSE}: `fi, ci, sgn = sps.find(self.cell_faces)` not found")
    role = {}
    for nm, ds in f.defs.items():
        for d in ds:
            if d.stmt is find.stmt and d.kind == "tuple":
                role[nm] = ("face", "cell", "sign")[d.pos]
    rets = [s for s in f.stmts if isinstance(s, ast.Return) and isinstance(s.value, ast.Name)]
    if len(rets) != 1:
        raise Undecided(f"{GRID}:{Q_DENSE}: expected one `return <name>` besides the empty-grid shortcut")
    arr = rets[0].value.id  # type: ignore[union-attr]
    init = [d for d in f.defs.get(arr, []) if d.kind == "plain"]
    if len(init) != 1:
        raise Undecided(f"{GRID}:{Q_DENSE}: {arr} is not initialised once")
    iv = init[0].value
    marker = None
    if isinstance(iv, ast.UnaryOp) and isinstance(iv.op, ast.USub) and isinstance(iv.operand, ast.Call) and call_name(iv.operand) == "ones":
        marker, shp = -1, iv.operand.args[0] if iv.operand.args else None
    elif isinstance(iv, ast.Call) and call_name(iv) == "full" and len(iv.args) >= 2 and _const_int(iv.args[1]) is not None:
        marker, shp = _const_int(iv.args[1]), iv.args[0]
    elif isinstance(iv, ast.Call) and call_name(iv) in ("zeros", "ones"):
        marker, shp = (0 if call_name(iv) == "zeros" else 1), iv.args[0] if iv.args else None
    else:
        raise Undecided(f"{GRID}:{Q_DENSE}: unrecognised initial fill of {arr} [{u(iv)[:80]}]")
    ok_shape = isinstance(shp, ast.Tuple) and len(shp.elts) == 2 and _const_int(shp.elts[0]) == 2 and "num_faces" in u(shp.elts[1])
    ctx.check("R1", ok_shape and marker is not None and marker < 0, mod, Q_DENSE, init[0].stmt,
              f"the dense cell-face array must be (2, num_faces) filled with a negative exterior marker (no valid cell index); "
              f"found fill {marker}, shape {u(shp) if shp is not None else None}", construct=f"{arr} initial fill",
              facts={"marker": marker})

    def mask_sign(e: ast.expr, at: ast.stmt) -> Optional[str]:
        c = f.canon(e, at)
        cz = _cmp_zero(c)
        if cz is None or cz[2] != 0 or not isinstance(cz[0], ast.Name) or role.get(cz[0].id) != "sign":
            return None
        return {"Gt": "+", "Lt": "-"}.get(cz[1])

    rows: dict[str, int] = {}
    stores = [d for d in f.defs.get(arr, []) if d.kind == "sub" and isinstance(d.stmt, ast.Assign)]
    if not stores:
        raise AnchorError(f"{GRID}:{Q_DENSE}: no store into {arr}")
    for d in stores:
        t = d.stmt.targets[0]  # type: ignore[attr-defined]
        sl = t.slice if isinstance(t, ast.Subscript) and isinstance(t.value, ast.Name) else None
        v = d.value
        if not (isinstance(sl, ast.Tuple) and len(sl.elts) == 2 and _const_int(sl.elts[0]) is not None
                and isinstance(sl.elts[1], ast.Subscript) and isinstance(sl.elts[1].value, ast.Name)
                and isinstance(v, ast.Subscript) and isinstance(v.value, ast.Name)):
            raise Undecided(f"{GRID}:{Q_DENSE}: store into {arr} is not  {arr}[row, faces[mask]] = cells[mask] [{u(d.stmt)[:80]}]")
        row = _const_int(sl.elts[0])
        col_arr, col_mask = sl.elts[1].value.id, sl.elts[1].slice
        val_arr, val_mask = v.value.id, v.slice
        sg_c, sg_v = mask_sign(col_mask, d.stmt), mask_sign(val_mask, d.stmt)
        ok = (role.get(col_arr) == "face" and role.get(val_arr) == "cell" and u(col_mask) == u(val_mask)
              and sg_c is not None and sg_c == sg_v and row in (0, 1))
        ctx.check("R1", ok, mod, Q_DENSE, d.stmt,
                  "each store must put the cell indices (2nd output of find) of one sign class into one row at the face indices "
                  "(1st output of find) of the same class", construct=f"{arr}[{row}, ...] <- sign {sg_c}",
                  facts={"row": row, "columns": role.get(col_arr), "values": role.get(val_arr), "sign": sg_c})
        if ok:
            if sg_c in rows:
                raise Undecided(f"{GRID}:{Q_DENSE}: two stores for sign {sg_c}")
            rows[sg_c] = row  # type: ignore[assignment,index]
    ok = set(rows) == {"+", "-"} and sorted(rows.values()) == [0, 1]
    ctx.check("R1", ok, mod, Q_DENSE, rets[0], "cells of positive and of negative sign must go to the two different rows",
              construct="rows of the two sign classes", facts={"rows": rows})
    ctx.check("R1", True, mod, Q_DENSE, find.stmt, "", construct="find(self.cell_faces) unpacked as (faces, cells, signs)",
              desc="find(self.cell_faces) unpacked as (faces, cells, signs)")
    return {"r_plus": rows.get("+"), "r_minus": rows.get("-"), "marker": marker, "ok": ok}


# ------------------------------------------------------------------------------------
# consumer

class Consumer:
    def __init__(self, ctx: Ctx):
        self.ctx = ctx
        self.mod = ctx.repo.module(UPWIND)
        self.f = Fn(self.mod, Q_DISC)
        f = self.f
        cfs = [(nm, d) for nm, ds in f.defs.items() for d in ds if d.kind == "plain" and isinstance(d.value, ast.Call)
               and call_name(d.value) == "cell_faces_as_dense"]
        if len(cfs) != 1:
            raise AnchorError(f"{UPWIND}:{Q_DISC}: expected one `<name> = sd.cell_faces_as_dense()`")
        self.cf = cfs[0][0]
        bcs = {nm for nm, ds in f.defs.items() for d in ds if d.kind == "plain" and d.value is not None
               and ((isinstance(d.value, ast.Subscript) and u(d.value.slice) == "'bc'")
                    or (isinstance(d.value, ast.Call) and call_name(d.value) == "BoundaryCondition"))}
        if len(bcs) != 1:
            raise AnchorError(f"{UPWIND}:{Q_DISC}: boundary condition object not found")
        self.bc = bcs.pop()

    def und(self, msg: str, node=None) -> Undecided:
        return self.f.und(msg, node)

    # -- masks over the flux sign -----------------------------------------------------------
    def flux_mask(self, e: ast.expr, at: ast.stmt, depth: int = 5) -> Optional[str]:
        """'pos' for the mask flux >= 0 (or > 0), 'neg' for its complement; None if e is not a flux mask."""
        f = self.f
        if depth == 0:
            return None
        if isinstance(e, ast.Name):
            v = f.unique_plain(e.id, at)
            return self.flux_mask(v, f.unique_def(e.id, at).stmt, depth - 1) if v is not None else None  # type: ignore[union-attr]
        if isinstance(e, ast.UnaryOp) and isinstance(e.op, ast.Invert):
            k = self.flux_mask(e.operand, at, depth - 1)
            return {"pos": "neg", "neg": "pos"}.get(k) if k else None
        if isinstance(e, ast.Call) and call_name(e) == "logical_not" and len(e.args) == 1:
            k = self.flux_mask(e.args[0], at, depth - 1)
            return {"pos": "neg", "neg": "pos"}.get(k) if k else None
        cz = _cmp_zero(e)
        if cz is None or cz[2] != 0:
            return None
        src = f.canon(cz[0], at)
        if not any(isinstance(n, ast.Attribute) and n.attr.endswith("flux_array_key") for n in ast.walk(src)):
            return None
        for n in ast.walk(src):
            if isinstance(n, (ast.UnaryOp, ast.BinOp)) or (isinstance(n, ast.Call) and call_name(n) not in ("sign", "asarray", "array", "get")):
                raise self.und("flux is transformed by something other than np.sign before its sign is tested", cz[0])
        return {"GtE": "pos", "Gt": "pos", "Lt": "neg", "LtE": "neg"}.get(cz[1], "bad:" + cz[1])

    # -- boolean structure ---------------------------------------------------------------------
    def bool_parse(self, e: ast.expr, at: ast.stmt):
        if isinstance(e, ast.Call) and call_name(e) in ("logical_and", "logical_or") and len(e.args) == 2:
            return ("and" if call_name(e) == "logical_and" else "or", [self.bool_parse(a, at) for a in e.args])
        if isinstance(e, ast.BinOp) and isinstance(e.op, (ast.BitAnd, ast.BitOr)):
            return ("and" if isinstance(e.op, ast.BitAnd) else "or", [self.bool_parse(e.left, at), self.bool_parse(e.right, at)])
        if isinstance(e, ast.Name) and self.flux_mask(e, at) is None:
            v = self.f.unique_plain(e.id, at)
            if v is not None and (isinstance(v, ast.Compare) or (isinstance(v, ast.Call) and call_name(v) in ("logical_and", "logical_or"))
                                  or isinstance(v, ast.BinOp)):
                return self.bool_parse(v, self.f.unique_def(e.id, at).stmt)  # type: ignore[union-attr]
        return ("atom", e, at)

    def flat(self, node, op: str) -> list:
        if node[0] == op:
            out = []
            for c in node[1]:
                out += self.flat(c, op)
            return out
        return [node]

    # -- index sets -------------------------------------------------------------------------------
    def where_arg(self, e: ast.expr) -> Optional[ast.expr]:
        if isinstance(e, ast.Subscript) and isinstance(e.value, ast.Call) and call_name(e.value) in ("where", "nonzero") \
                and u(e.slice) == "0" and len(e.value.args) == 1:
            return e.value.args[0]
        if isinstance(e, ast.Call) and call_name(e) == "flatnonzero" and len(e.args) == 1:
            return e.args[0]
        return None

    def index_class(self, e: ast.expr, at: ast.stmt) -> tuple[str, Optional[ast.expr], ast.stmt]:
        """'neu' | 'inflow' | 'other' for an index-array expression, with the mask it is the support of."""
        f = self.f
        st = at
        if isinstance(e, ast.Name):
            d = f.unique_def(e.id, at)
            if d is None or d.kind != "plain":
                return "other", None, at
            e, st = d.value, d.stmt  # type: ignore[assignment]
        w = self.where_arg(e)
        if w is None:
            return "other", None, st
        if isinstance(w, ast.Attribute) and isinstance(w.value, ast.Name) and w.value.id == self.bc:
            return ({"is_neu": "neu"}.get(w.attr, "other"), w, st)
        top = self.flat(self.bool_parse(w, st), "and")
        atoms = [x for x in top if x[0] == "atom"]
        if any(isinstance(x[1], ast.Attribute) and isinstance(x[1].value, ast.Name) and x[1].value.id == self.bc for x in atoms):
            return "inflow", w, st
        return "other", w, st


def _cf_row(c: Consumer, e: ast.expr, at: ast.stmt) -> Optional[tuple[int, Optional[ast.expr]]]:
    """cf[r] | cf[r, :] | cf[r, mask] | cf[r][mask], also through temporaries holding a row -> (r, mask or None)."""
    f = c.f

    def rooted(x: ast.expr, depth: int = 4) -> Optional[ast.expr]:
        """x rewritten so that it is a subscript chain on the dense array itself, or None"""
        if isinstance(x, ast.Name):
            if x.id == c.cf:
                return x
            v = f.unique_plain(x.id, at) if depth > 0 else None
            return rooted(v, depth - 1) if isinstance(v, (ast.Subscript, ast.Name)) else None
        if isinstance(x, ast.Subscript):
            b = rooted(x.value, depth)
            return ast.Subscript(value=b, slice=x.slice, ctx=ast.Load()) if b is not None else None
        return None

    r = rooted(e)
    if r is None or isinstance(r, ast.Name):
        return None
    idx: list[ast.expr] = []
    x = r
    chain = []
    while isinstance(x, ast.Subscript):
        chain.append(x.slice)
        x = x.value
    for sl in reversed(chain):
        idx += list(sl.elts) if isinstance(sl, ast.Tuple) else [sl]
    if not idx or _const_int(idx[0]) is None or len(idx) > 2:
        return None
    if len(idx) == 1:
        return _const_int(idx[0]), None  # type: ignore[return-value]
    second = idx[1]
    if isinstance(second, ast.Slice) and second.lower is None and second.upper is None and second.step is None:
        return _const_int(idx[0]), None  # type: ignore[return-value]
    return _const_int(idx[0]), second  # type: ignore[return-value]


def check_consumer(ctx: Ctx, P: dict) -> None:
    c = Consumer(ctx)
    f, mod = c.f, c.mod
    want_row = {"pos": P["r_plus"], "neg": P["r_minus"]}
    side = {"pos": "flux >= 0 flows along the normal, i.e. out of the sign>0 cell",
            "neg": "flux < 0 flows against the normal, i.e. out of the sign<0 cell"}

    # ---------------- R2: upstream cell ------------------------------------------------------------
    ups: dict[str, list] = {}
    for nm, ds in f.defs.items():
        for d in ds:
            if d.kind == "sub" and isinstance(d.stmt, ast.Assign) and d.value is not None and _cf_row(c, d.value, d.stmt) is not None:
                ups.setdefault(nm, []).append(d)
    if len(ups) != 1:
        raise AnchorError(f"{UPWIND}:{Q_DISC}: expected one array filled from rows of {c.cf}, found {sorted(ups)}")
    up_name = next(iter(ups))
    seen = set()
    for d in ups[up_name]:
        t = d.stmt.targets[0]  # type: ignore[attr-defined]
        row, rmask = _cf_row(c, d.value, d.stmt)  # type: ignore[misc]
        if not (isinstance(t, ast.Subscript) and isinstance(t.value, ast.Name)) or rmask is None:
            raise c.und("upstream store is not  up[mask] = cf[row, mask]", d.stmt)
        k = c.flux_mask(t.slice, d.stmt)
        if k is None:
            raise c.und("mask of an upstream store is not a test on the sign of the flux", d.stmt)
        ctx.check("R2", k in ("pos", "neg"), mod, Q_DISC, d.stmt,
                  f"the flux masks must be flux>=0 and its complement; found comparison {k}", construct=f"upstream store: mask polarity ({u(t.slice)})")
        if k not in ("pos", "neg"):
            continue
        seen.add(k)
        ctx.check("R2", u(t.slice) == u(rmask), mod, Q_DISC, d.stmt,
                  f"faces written ({u(t.slice)}) and faces read ({u(rmask)}) differ", construct=f"upstream store {k}: same mask on both sides")
        ctx.check("R2", row == want_row[k], mod, Q_DISC, d.stmt,
                  f"{side[k]}, which Grid.cell_faces_as_dense puts in row {want_row[k]}; row {row} is read",
                  construct=f"upstream store {k}: row of {c.cf}", facts={"row": row, "producer_row": want_row[k]})
    ctx.check("R2", seen == {"pos", "neg"}, mod, Q_DISC, ups[up_name][0].stmt,
              "the upstream cell must be set for both flux directions", construct="upstream stores cover both directions",
              facts={"covered": sorted(seen)})

    # ---------------- the upwind matrix and its three deleted arrays (R4) ---------------------------------
    stores = []  # (key attr, stmt, value)
    dim0 = []
    weak = []  # stores that do not overwrite unconditionally

    def is_matdict(e: ast.expr, at: ast.stmt) -> bool:
        return isinstance(e, ast.Name) and any(isinstance(n, ast.Attribute) and n.attr == "DISCRETIZATION_MATRICES"
                                                for n in ast.walk(f.canon(e, at)))

    for s in f.stmts:
        attr = val = None
        how = "item assignment"
        if isinstance(s, ast.Assign) and len(s.targets) == 1 and isinstance(s.targets[0], ast.Subscript):
            t = s.targets[0]
            if isinstance(t.slice, ast.Attribute) and t.slice.attr.endswith("_key") and is_matdict(t.value, s):
                attr, val = t.slice.attr, s.value
        elif isinstance(s, ast.Expr) and isinstance(s.value, ast.Call) and isinstance(s.value.func, ast.Attribute) \
                and is_matdict(s.value.func.value, s):
            meth = s.value.func.attr
            if meth == "setdefault" and len(s.value.args) == 2 and isinstance(s.value.args[0], ast.Attribute):
                attr, val, how = s.value.args[0].attr, s.value.args[1], "setdefault (keeps an existing entry)"
            elif meth in ("update", "pop", "clear", "__setitem__"):
                raise c.und("matrix dictionary modified through an unrecognised method", s)
        if attr is None:
            continue
        iff, arm = f.arm_of(s)
        if iff is not None:
            body = iff.body if arm == "body" else iff.orelse
            if body and isinstance(body[-1], ast.Return):
                dim0.append((attr, s, val))
                continue
            how = "store under a condition"
        stores.append((attr, s, val))
        if how != "item assignment":
            weak.append((attr, s, how))
    if len(stores) != 3:
        raise AnchorError(f"{UPWIND}:{Q_DISC}: expected three stores into the matrix dictionary on the main path, found {len(stores)}")

    def key_class(attr: str) -> str:
        toks = attr.split("_")
        hits = [k for k in ("neu", "dir", "upwind") if k in toks]
        if len(hits) != 1:
            raise c.und(f"cannot classify dictionary key attribute {attr}")
        return hits[0]

    def coo_of(e: ast.expr, at: ast.stmt):
        """kron(M, eye(n)).tocsr() -> (M-expr, kron-call or None); then M -> coo_matrix((V, (I, J)), ...)"""
        if isinstance(e, ast.Name):  # a temporary holding the expanded matrix
            d0 = f.unique_def(e.id, at)
            if d0 is not None and d0.kind == "plain" and d0.value is not None:
                e, at = d0.value, d0.stmt
        k = strip_conv(e)
        kr = k if isinstance(k, ast.Call) and call_name(k) == "kron" and len(k.args) == 2 else None
        mexpr = kr.args[0] if kr is not None else k
        if kr is not None and isinstance(kr.args[0], ast.Call) and call_name(kr.args[0]) in ("eye", "identity"):
            mexpr = kr.args[1]
        st = at
        coo = strip_conv(mexpr)
        for _ in range(4):  # temporaries and format conversions between the constructor and the store
            if not isinstance(coo, ast.Name):
                break
            d = f.unique_def(coo.id, st)
            if d is None or d.kind != "plain" or d.value is None:
                raise c.und("stored matrix has no unique definition", e)
            coo, st = strip_conv(d.value), d.stmt
        if not (isinstance(coo, ast.Call) and call_name(coo) in ("coo_matrix", "csr_matrix", "csc_matrix", "coo_array") and coo.args
                and isinstance(coo.args[0], ast.Tuple) and len(coo.args[0].elts) == 2 and isinstance(coo.args[0].elts[1], ast.Tuple)
                and len(coo.args[0].elts[1].elts) == 2):
            raise c.und("stored matrix is not built as coo_matrix((values, (rows, cols)), shape)", mexpr)
        V = coo.args[0].elts[0]
        I, J = coo.args[0].elts[1].elts
        return kr, V, I, J, st

    built = {}
    for attr, s, v in stores:
        built[key_class(attr)] = (attr, s, v) + coo_of(v, s)
    if set(built) != {"neu", "dir", "upwind"}:
        raise AnchorError(f"{UPWIND}:{Q_DISC}: stores for the upwind / dir / neu keys not all found ({sorted(built)})")

    attr, s, v, kr, V, I, J, st = built["upwind"]
    idx_txt = {}
    srcs = {}
    for role, e in (("values", V), ("row", I), ("col", J)):
        d = f.unique_def(e.id, st) if isinstance(e, ast.Name) else None
        call = d.value if d is not None and d.kind == "plain" else None
        if not (isinstance(call, ast.Call) and call_name(call) == "delete" and len(call.args) == 2):
            raise c.und(f"{role} of the upwind matrix is not the result of np.delete(array, indices)", e)
        idx_txt[role] = (call.args[1], d.stmt)
        srcs[role] = (call.args[0], d.stmt)
    ref = u(f.canon(idx_txt["col"][0], idx_txt["col"][1]))
    for role in ("values", "row", "col"):
        e, at = idx_txt[role]
        ctx.check("R4", u(f.canon(e, at)) == u(f.canon(idx_txt["row"][0], idx_txt["row"][1])) == ref, mod, Q_DISC, at,
                  f"row, values and col of the upwind matrix must lose the same faces; {role} is deleted with {u(e)}",
                  construct=f"np.delete for {role}: index set", facts={r: u(x[0]) for r, x in idx_txt.items()})
    ce, cat = srcs["col"]
    ctx.check("R4", isinstance(ce, ast.Name) and ce.id == up_name, mod, Q_DISC, cat,
              f"the column indices of the upwind matrix must be the upstream cells ({up_name}); found {u(ce)}",
              construct="col = delete(<upstream cells>, .)")
    re_, rat = srcs["row"]
    rsrc = f.canon(re_, rat)
    ctx.check("R4", isinstance(rsrc, ast.Call) and call_name(rsrc) == "arange" and "num_faces" in u(rsrc), mod, Q_DISC, rat,
              "the row indices of the upwind matrix must be all faces (arange(num_faces)) before deletion",
              construct="row = delete(arange(num_faces), .)")
    # the index set = neumann + dirichlet inflow
    de, dat = idx_txt["col"]
    dset = f.canon(de, dat, depth=1) if isinstance(de, ast.Name) else de
    dstmt = f.unique_def(de.id, dat).stmt if isinstance(de, ast.Name) and f.unique_def(de.id, dat) else dat  # type: ignore[union-attr]
    while isinstance(dset, ast.Call) and call_name(dset) in ("sort", "unique") and len(dset.args) == 1:
        dset = dset.args[0]
    if isinstance(dset, ast.Subscript) and isinstance(dset.value, ast.Attribute) and dset.value.attr == "r_":
        comps = list(dset.slice.elts) if isinstance(dset.slice, ast.Tuple) else [dset.slice]
    elif isinstance(dset, ast.Call) and call_name(dset) in ("concatenate", "hstack") and len(dset.args) == 1 \
            and isinstance(dset.args[0], (ast.Tuple, ast.List)):
        comps = list(dset.args[0].elts)
    elif isinstance(dset, ast.Call) and call_name(dset) == "union1d" and len(dset.args) == 2:
        comps = list(dset.args)
    else:
        comps = [dset]
    classes = [c.index_class(x, dstmt) for x in comps]
    kinds = sorted(k for k, _, _ in classes)
    ctx.check("R4", kinds == ["inflow", "neu"], mod, Q_DISC, dstmt,
              f"the faces removed from the upwind matrix must be exactly Neumann faces + Dirichlet inflow faces; found components "
              f"{[u(x) for x in comps]} classified {kinds}", construct="deleted faces = neumann + dirichlet inflow",
              facts={"components": [u(x) for x in comps], "classes": kinds})

    # ---------------- R3: the inflow test ---------------------------------------------------------------------
    inflow = [(x, k) for x, k in zip(comps, classes) if k[0] == "inflow"]
    dir_attr = built["dir"]
    _, _, _, _, Vd, Id, Jd, std = dir_attr
    if not inflow:
        k = c.index_class(Id, std)
        if k[0] != "inflow":
            raise c.und("no Dirichlet-inflow index set found")
        inflow = [(Id, k)]
    (inflow_expr, (_, w, wst)) = inflow[0]
    top = c.flat(c.bool_parse(w, wst), "and")  # type: ignore[arg-type]
    bc_atoms = [x for x in top if x[0] == "atom" and isinstance(x[1], ast.Attribute) and isinstance(x[1].value, ast.Name) and x[1].value.id == c.bc]
    rest = [x for x in top if x not in bc_atoms]
    ctx.check("R3", [x[1].attr for x in bc_atoms] == ["is_dir"], mod, Q_DISC, wst,
              f"the inflow faces treated by boundary data are Dirichlet faces: the test must be restricted by {c.bc}.is_dir",
              construct="inflow test: restricted to Dirichlet faces", facts={"bc_flags": [x[1].attr for x in bc_atoms]})
    ors = [x for x in rest if x[0] == "or"]
    extras = [x for x in rest if x[0] != "or"]
    if len(ors) != 1:
        raise c.und("inflow test is not  is_dir and (A or B)", w)
    ctx.check("R3", not extras, mod, Q_DISC, wst,
              "the faces handled as Dirichlet inflow must be all faces with is_dir and inflow: further restrictions move Dirichlet "
              f"faces out of the boundary treatment; extra conjuncts: {[u(x[1]) for x in extras if x[0] == 'atom']}",
              construct="inflow test: no further restriction")
    covered = set()
    for alt in c.flat(ors[0], "or"):
        parts = c.flat(alt, "and")
        if len(parts) != 2 or any(p[0] != "atom" for p in parts):
            raise c.und("alternative of the inflow test is not  <flux mask> and <exterior test>", w)
        masks = [(p, c.flux_mask(p[1], p[2])) for p in parts]
        mk = [k for _, k in masks if k is not None]
        ext = [p for p, k in masks if k is None]
        if len(mk) != 1 or len(ext) != 1 or mk[0] not in ("pos", "neg"):
            raise c.und("alternative of the inflow test is not  <flux mask> and <exterior test>", w)
        cz = _cmp_zero(ext[0][1])
        cr = _cf_row(c, cz[0], ext[0][2]) if cz is not None else None
        if cz is None or cr is None or cr[1] is not None:
            raise c.und("exterior test is not a comparison of a whole row of the dense cell-face array with a literal", ext[0][1])
        k = mk[0]
        covered.add(k)
        ctx.check("R3", cr[0] == want_row[k], mod, Q_DISC, wst,
                  f"{side[k]}: the flow enters the domain iff row {want_row[k]} holds the exterior marker; row {cr[0]} is tested",
                  construct=f"inflow test {k}: row of {c.cf}", facts={"row": cr[0], "producer_row": want_row[k]})
        m_ = P["marker"]
        ok = m_ is not None and _holds(cz[1], m_, cz[2]) and not _holds(cz[1], 0, cz[2]) and not _holds(cz[1], 7, cz[2])
        ctx.check("R3", ok, mod, Q_DISC, wst,
                  f"the exterior test `{u(ext[0][1])}` must hold for the producer's exterior marker ({m_}) and for no valid cell index",
                  construct=f"inflow test {k}: exterior comparison", facts={"marker": m_, "test": u(ext[0][1])})
    ctx.check("R3", covered == {"pos", "neg"}, mod, Q_DISC, wst, "the inflow test must cover both flux directions",
              construct="inflow test covers both directions", facts={"covered": sorted(covered)})

    # ---------------- R5: supports of the boundary matrices -----------------------------------------------------
    for kc, want in (("neu", "neu"), ("dir", "inflow")):
        attr, s, v, kr, V, I, J, st = built[kc]
        ki, kj = c.index_class(I, st)[0], c.index_class(J, st)[0]
        ctx.check("R5", ki == kj == want and u(I) == u(J), mod, Q_DISC, st,
                  f"the matrix stored under {attr} must be diagonal on the {'Neumann' if kc == 'neu' else 'Dirichlet inflow'} faces; "
                  f"its rows are {u(I)} ({ki}) and its columns {u(J)} ({kj})", construct=f"{attr}: support",
                  facts={"rows": u(I), "cols": u(J)})
        vn = {n for n in names_in(V)}
        idx_names = names_in(I)
        ctx.check("R5", bool(idx_names) and idx_names <= vn, mod, Q_DISC, st,
                  f"the values of the matrix stored under {attr} must be taken on the same faces as its support ({u(I)}); found {u(V)}",
                  construct=f"{attr}: values on the support")
    # reader: assemble_matrix_rhs multiplies the dir matrix by the flux
    g = Fn(mod, "Upwind.assemble_matrix_rhs")
    reads = {}
    for nm, ds in g.defs.items():
        for d in ds:
            if d.kind == "plain" and isinstance(d.value, ast.Subscript) and isinstance(d.value.slice, ast.Attribute) \
                    and d.value.slice.attr.endswith("_matrix_key"):
                reads[nm] = key_class(d.value.slice.attr)
    flux_mats = {nm for nm, ds in g.defs.items() for d in ds if d.kind == "plain" and d.value is not None
                 and any(isinstance(n, ast.Attribute) and n.attr.endswith("flux_array_key") for n in ast.walk(g.canon(d.value, d.stmt)))
                 and isinstance(d.value, ast.Call)}
    prods = [n for s in g.stmts for n in ast.walk(s) if isinstance(n, ast.BinOp) and isinstance(n.op, (ast.MatMult, ast.Mult))
             and isinstance(n.left, ast.Name) and isinstance(n.right, ast.Name) and n.right.id in flux_mats and n.left.id in reads]
    if not prods:
        raise Undecided(f"{UPWIND}:Upwind.assemble_matrix_rhs: no product <stored matrix> @ <flux matrix> found")
    for p in prods:
        want = "dir" if any(isinstance(s, ast.Assign) and g.contains(s, p) and "bc_values" in names_in(s.value) for s in g.stmts) else "upwind"
        ctx.check("R5", reads[p.left.id] == want, mod, "Upwind.assemble_matrix_rhs", g.stmt_of(p),  # type: ignore[union-attr]
                  f"the matrix scaled by the flux in this expression must be the one read from the {want} key; found {reads[p.left.id]}",  # type: ignore[union-attr]
                  construct=f"{u(p)}: key of the flux-scaled matrix")
    init = Fn(mod, "Upwind.__init__")
    vals = {}
    for s in init.stmts:
        if isinstance(s, ast.Assign) and len(s.targets) == 1 and isinstance(s.targets[0], ast.Attribute) and isinstance(s.value, ast.Constant):
            vals[s.targets[0].attr] = s.value.value
    ks = [built[k][0] for k in ("upwind", "dir", "neu")]
    ctx.check("R5", all(k in vals for k in ks) and len({vals.get(k) for k in ks}) == 3, mod, "Upwind.__init__", init.fn,
              "the three matrix keys must be distinct strings (else the stores overwrite each other)",
              construct="matrix keys are distinct", facts={k: vals.get(k) for k in ks})

    # ---------------- R6: component expansion --------------------------------------------------------------------
    for attr, s, v in stores:
        bad = [h for a_, s_, h in weak if s_ is s]
        ctx.check("R6", not bad, mod, Q_DISC, s,
                  f"discretize must overwrite matrix_dictionary[{attr}] unconditionally: all three matrices depend on the boundary "
                  f"condition / flux of *this* call and a kept entry is stale after a change; found {bad[0] if bad else 'item assignment'}",
                  construct=f"{attr}: unconditional store")
    ncs = set()
    for kc in ("upwind", "neu", "dir"):
        attr, s, v, kr, *_ = built[kc]
        ok = (kr is not None and isinstance(kr.args[1], ast.Call) and call_name(kr.args[1]) in ("eye", "identity")
              and len(kr.args[1].args) == 1)
        if ok:
            ncs.add(u(f.canon(kr.args[1].args[0], s)))
        ctx.check("R6", ok, mod, Q_DISC, s,
                  f"every stored matrix must be expanded as kron(M, eye(num_components)) (face-major, component-minor); "
                  f"found {u(strip_conv(v))[:90]}", construct=f"{attr}: kron(M, eye(n))")
    ctx.check("R6", len(ncs) == 1 and "num_components" in next(iter(ncs), ""), mod, Q_DISC, stores[0][1],
              f"all stored matrices must be expanded with the same num_components parameter; found {sorted(ncs)}",
              construct="same num_components for all stored matrices", facts={"n": sorted(ncs)})
    ctx.check("R6", sorted(a for a, _, _ in dim0) == sorted(a for a, _, _ in stores), mod, Q_DISC, dim0[0][1] if dim0 else f.fn,
              "the point-grid shortcut must store the same three keys as the main path", construct="point-grid shortcut keys",
              facts={"shortcut": sorted(a for a, _, _ in dim0)})
    ctx.sample({"producer": P, "consumer": {"cf": c.cf, "upstream": up_name, "deleted_with": ref, "components": kinds}})


def run(ctx: Ctx) -> None:
    P = producer(ctx)
    if P["r_plus"] is None or P["r_minus"] is None:
        # the producer itself is inconsistent (reported under R1): the consumer cannot be compared with it
        ctx.note("producer rows undetermined; consumer agreement rules skipped")
        return
    check_consumer(ctx, P)
    if ctx.tier == "thorough":
        for mod in ctx.repo.modules("src/porepy"):
            for n in ast.walk(mod.tree):
                if isinstance(n, ast.Call) and call_name(n) == "cell_faces_as_dense" and mod.rel not in (UPWIND,):
                    ctx.note(f"other consumer of cell_faces_as_dense (row convention not checked here): {mod.rel}:{n.lineno}")


def _m(name, old, new, rule, file=UPWIND, control=False, count=1):
    return dict(name=name, file=file, old=old, new=new, rule=rule, control=control, count=count)


MUTANTS = [
    _m("upstream-rows-swapped",
       "upstream_cell_ind[pos_flux] = cf_dense[0, pos_flux]\n        upstream_cell_ind[neg_flux] = cf_dense[1, neg_flux]",
       "upstream_cell_ind[pos_flux] = cf_dense[1, pos_flux]\n        upstream_cell_ind[neg_flux] = cf_dense[0, neg_flux]", "R2", control=True),
    _m("upstream-mask-mismatch", "upstream_cell_ind[neg_flux] = cf_dense[1, neg_flux]", "upstream_cell_ind[neg_flux] = cf_dense[1, pos_flux]", "R2"),
    _m("flux-mask-polarity", "pos_flux = darcy_flux >= 0", "pos_flux = darcy_flux <= 0", "R2"),
    _m("producer-rows-swapped", "        cf_dense[0, fi[pos]] = ci[pos]\n        cf_dense[1, fi[neg]] = ci[neg]",
       "        cf_dense[1, fi[pos]] = ci[pos]\n        cf_dense[0, fi[neg]] = ci[neg]", "R2", file=GRID),
    _m("producer-sign-masks-swapped", "        pos = sgn > 0\n        neg = sgn < 0", "        pos = sgn < 0\n        neg = sgn > 0", "R2", file=GRID),
    _m("producer-mask-mismatch", "cf_dense[1, fi[neg]] = ci[neg]", "cf_dense[1, fi[neg]] = ci[pos]", "R1", file=GRID),
    _m("producer-exterior-marker-zero", "cf_dense = -np.ones((2, self.num_faces), dtype=int)", "cf_dense = np.zeros((2, self.num_faces), dtype=int)", "R1", file=GRID),
    _m("inflow-rows-swapped", "                    np.logical_and(pos_flux, cf_dense[0] < 0),\n                    np.logical_and(neg_flux, cf_dense[1] < 0),",
       "                    np.logical_and(pos_flux, cf_dense[1] < 0),\n                    np.logical_and(neg_flux, cf_dense[0] < 0),", "R3"),
    _m("inflow-exterior-test-includes-cell-zero", "np.logical_and(neg_flux, cf_dense[1] < 0)", "np.logical_and(neg_flux, cf_dense[1] <= 0)", "R3"),
    _m("inflow-on-neumann-flag", "                bc.is_dir,\n                np.logical_or(", "                bc.is_neu,\n                np.logical_or(", "R3"),
    _m("col-deleted-with-other-set", "col = np.delete(upstream_cell_ind, delete_ind)", "col = np.delete(upstream_cell_ind, neumann_ind)", "R4", control=True),
    _m("values-deleted-with-other-set", "values = np.delete(values, delete_ind)", "values = np.delete(values, inflow_ind)", "R4"),
    _m("deleted-set-without-inflow", "delete_ind = np.sort(np.r_[neumann_ind, inflow_ind])", "delete_ind = np.sort(np.r_[neumann_ind])", "R4"),
    _m("col-not-upstream", "col = np.delete(upstream_cell_ind, delete_ind)", "col = np.delete(cf_dense[0], delete_ind)", "R4"),
    _m("neu-matrix-on-inflow-columns", "(sgn_div[neumann_ind], (neumann_ind, neumann_ind))", "(sgn_div[neumann_ind], (neumann_ind, inflow_ind))", "R5"),
    _m("dir-key-holds-neumann-matrix", "matrix_dictionary[self.bound_transport_dir_matrix_key] = sps.kron(\n            bc_discr_dir,",
       "matrix_dictionary[self.bound_transport_dir_matrix_key] = sps.kron(\n            bc_discr_neu,", "R5"),
    _m("reader-scales-neumann-matrix", "rhs = div @ (bc_discr_neu + bc_discr_dir @ flux_mat) @ bc_values",
       "rhs = div @ (bc_discr_dir + bc_discr_neu @ flux_mat) @ bc_values", "R5"),
    _m("kron-order-differs-on-one", "sps.kron(\n            bc_discr_dir, sps.eye(num_components)\n        )",
       "sps.kron(\n            sps.eye(num_components), bc_discr_dir\n        )", "R6"),
    # --- seeded by independent fault-seeding agents (all pass the repo's tests)
    _m("seed-kron-eye-first-on-upwind", "sps.kron(\n            upstream_mat, sps.eye(num_components)\n        )",
       "sps.kron(\n            sps.eye(num_components), upstream_mat\n        )", "R6", control=True),
    dict(name="seed-internal-faces-forced-neumann", rule="R4", control=False, file=UPWIND, old="", new="", edits=[
        dict(file=UPWIND, old="        neumann_ind = np.where(bc.is_neu)[0]\n",
             new="        is_dir = np.logical_and(bc.is_dir, np.logical_not(bc.is_internal))\n"
                 "        neumann_ind = np.where(np.logical_or(bc.is_neu, bc.is_internal))[0]\n", count=1),
        dict(file=UPWIND, old="                bc.is_dir,\n                np.logical_or(", new="                is_dir,\n                np.logical_or(", count=1)]),
    _m("seed-neumann-matrix-setdefault",
       "        matrix_dictionary[self.bound_transport_neu_matrix_key] = sps.kron(\n            bc_discr_neu, sps.eye(num_components)\n        ).tocsr()\n",
       "        matrix_dictionary.setdefault(\n            self.bound_transport_neu_matrix_key,\n            sps.kron(bc_discr_neu, sps.eye(num_components)).tocsr(),\n        )\n",
       "R6", control=True),
    _m("dir-matrix-stored-only-if-missing",
       "        matrix_dictionary[self.bound_transport_dir_matrix_key] = sps.kron(\n            bc_discr_dir, sps.eye(num_components)\n        ).tocsr()\n",
       "        if self.bound_transport_dir_matrix_key not in matrix_dictionary:\n            matrix_dictionary[self.bound_transport_dir_matrix_key] = sps.kron(\n                bc_discr_dir, sps.eye(num_components)\n            ).tocsr()\n",
       "R6"),
    _m("inflow-restricted-further", "                bc.is_dir,\n                np.logical_or(",
       "                np.logical_and(bc.is_dir, np.logical_not(bc.is_internal)),\n                np.logical_or(", "R3"),
    _m("kron-dropped-on-one", "matrix_dictionary[self.bound_transport_neu_matrix_key] = sps.kron(\n            bc_discr_neu, sps.eye(num_components)\n        ).tocsr()",
       "matrix_dictionary[self.bound_transport_neu_matrix_key] = bc_discr_neu.tocsr()", "R6"),
]
