"""C03 - model Jacobians are the derivative of the residual: closure over verified primitives.

A model equation can obtain a Jacobian only through (i) operator arithmetic (C02 / C01-R3),
(ii) ``pp.ad.Function(f, name)`` with ``f`` a function of ``numerics/ad/functions.py`` (whose
local differentiation rules are decided by C01) or (iii) an entry of the explicit, reasoned
approximation table below.  This module enumerates every place in the model layers where a
Jacobian is *manufactured* (a ``Function`` wrapper, a manual ``AdArray(val, jac)``, a
``get_jacobian``/``func`` implementation, a store into ``.func`` / ``.jac``) and requires each to
fall into (ii) or (iii), or to be an exact pattern it can interpret itself.
"""
from __future__ import annotations

import ast
from typing import Optional

from ..core.astutil import (u, dotted, walk_local, call_name, kwarg, methods, names_in, parent_map,
                            single_assign_value, inline_locals, find_assign)
from ..core.loader import AnchorError, Undecided
from ..core.report import Ctx

FUNCS = "src/porepy/numerics/ad/functions.py"
FWD = "src/porepy/numerics/ad/forward_mode.py"
OPF = "src/porepy/numerics/ad/operator_functions.py"
SURR = "src/porepy/numerics/ad/surrogate_operator.py"
ADINIT = "src/porepy/numerics/ad/__init__.py"
CL = "src/porepy/models/constitutive_laws.py"
PARSER = "src/porepy/numerics/ad/_ad_parser.py"
OPS = "src/porepy/numerics/ad/operators.py"
ADUTILS = "src/porepy/numerics/ad/ad_utils.py"

SCOPE_QUICK = ["src/porepy/models", "src/porepy/compositional", "src/porepy/numerics/ad"]
SCOPE_THOROUGH = ["src/porepy/examples", "src/porepy/applications"]
# C01 owns these two files (every differentiation rule in them is decided there)
C01_FILES = {FUNCS, FWD}

# ----------------------------------------------------------------------------------------
# (iii) approximation / exception table.  Frozen; one line of reason per entry, each
# confirmed by reading the code.  Key: (file, qualname of the function or class).
# An entry that no longer exists in the tree is an AnchorError (stale table), an entry that
# exists is never *assumed* exact: it is excluded from the exactness claim, nothing more.
# ----------------------------------------------------------------------------------------
APPROX_FUNCTIONS = {
    (CL, "AdTpfaFlux.__mpfa_flux_discretization"):
        "documented approximate product rule d(T_mpfa p) ~ T_mpfa dp + p_diff d(T_tpfa); the property itself "
        "holds discretization matrices fixed, for which the main term T_mpfa dp is exact (checked by R5)",
    (CL, "AdTpfaFlux.__mpfa_vector_source_discretization"):
        "documented approximate product rule d(VS_mpfa vs) ~ VS_mpfa d(vs) + vs_diff d(T_tpfa); main term checked by R5",
    (CL, "AdTpfaFlux.__mpfa_bound_pressure_discretization"):
        "documented approximate product rule d(PT_mpfa bc) ~ PT_mpfa d(bc) + bc d(PT_tpfa); main term checked by R5",
}
APPROX_CLASSES = {
    (OPF, "DiagonalJacobianFunction"):
        "by design an approximation: Jacobian = sum_i m_i * arg_i.jac with user-supplied scalar multipliers",
    (OPF, "InterpolatedFunction"):
        "Jacobian = gradient of the interpolation table written into the sparsity of arg.jac; documented to be "
        "valid only for arguments that are independent variables (single identity block)",
    (SURR, "SurrogateOperator"):
        "SurrogateFactory product: value and derivative values are supplied externally (flash / property "
        "updates) and inserted at the identity-block columns of first-order dependencies; not derived from code",
    (FUNCS, "RegularizedHeaviside"):
        "deliberately inexact: value is the sharp Heaviside, Jacobian is that of a user-supplied regularization",
}
# get_jacobian / func implementations that are exact by delegation (checked structurally in R3)
EXACT_CLASSES = {
    (OPF, "AbstractFunction"): "func pairs get_values(*args) with get_jacobian(*args) (abstract, same args)",
    (OPF, "Function"): "func returns self._func(*args) unchanged; get_values/get_jacobian read .val/.jac of that same result",
}

# numpy calls that are piecewise constant in their first argument (zero derivative a.e.)
PIECEWISE_CONSTANT = {"heaviside", "isclose", "sign", "zeros_like", "ones_like", "zeros", "ones", "floor", "ceil", "round"}
NUMERIC_ROOTS = {"np", "numpy", "sps", "scipy", "math"}

META = {
    "explanation": (
        "Closure argument over the places where a Jacobian is manufactured in src/porepy/models, compositional, "
        "numerics/ad (thorough: also examples, applications), outside forward_mode.py/functions.py which C01 owns. "
        "R1: every pp.ad.Function(f, ..) site: f resolves (through functools.partial, cast, local aliases, pp.ad.X / "
        "pp.ad.functions.X / imports, self.method) to a module-level function of ad/functions.py that is exported and "
        "has an AdArray arm returning AdArray(val, jac) (its derivative is C01's obligation), or to an entry of the frozen "
        "approximation table, or to a model-local callable which is then analysed one level deep: it may only compose "
        "AD arithmetic and verified functions; a hand-written AdArray(V, J) in it is interpreted (J as coefficient of "
        "x.jac; dV/dx compared by sympy) - mismatch is a violation, an uninterpretable body is Undecided (exit 2); a numpy "
        "function applied to an AD argument (no AdArray arm) is a violation. R2: every manual AdArray(val, jac) in scope "
        "is one of the exact patterns {constant lift with structurally zero Jacobian under an isinstance(.., np.ndarray) "
        "guard; lock-step stacking of .val/.jac over one iterable; M @ x.val with M @ x.jac; get_values/get_jacobian pair} "
        "or a table entry. R3: every get_jacobian / func implementation and every subclass of the operator-function "
        "classes is a table entry or exact by delegation; R4: the only store into an attribute .func is "
        "`op.func = self.func` and no model code stores into .jac/.val. R5: the table's mpfa entries keep the exact main "
        "term (same matrix on value and Jacobian of the same operand, extra term added with +). R6: each verified "
        "primitive referenced exists in functions.py with an AdArray arm. Not decided: the derivative rules themselves "
        "(C01), operator dispatch (C02), the directional-derivative identity on assembled systems."),
    "rule_text": "one obligation per (Function site | manual AdArray site | get_jacobian/func implementer | .func store | "
                 "approximation-table main term | referenced primitive)",
    "trusted_base": ["python ast", "sa.core (loader, astutil)", "sympy (only to differentiate expressions copied from the AST)",
                     "C01 for the derivative rules inside ad/functions.py and forward_mode.py"],
    "assumptions": ["operator functions reach evaluation only through Operator.func (Operations.evaluate arm, C02)",
                    "pp resolves to the porepy package and pp.ad to porepy.numerics.ad (star imports honour __all__)",
                    "entries of the approximation table are excluded from the exactness claim, not verified"],
    "technique": "closure over verified primitives (call-site enumeration + callee resolution + exception table)",
}
MIN_INSTANCES = {"R1": 25, "R2": 7, "R3": 6, "R4": 1, "R5": 6, "R6": 9, "R7": 1, "R8": 3}


# ========================================================================================
# small utilities
# ========================================================================================

class _Mod:
    """Per-module lookups: parent map, enclosing function/class of a node, imports."""

    _CACHE: dict = {}

    @classmethod
    def of(cls, mod) -> "_Mod":
        key = (mod.rel, mod.digest)
        M = cls._CACHE.get(key)
        if M is None or M.mod is not mod:
            M = cls._CACHE[key] = cls(mod)
        return M

    def __init__(self, mod):
        self.mod = mod
        self.pm: dict = {}
        self.imports: dict[str, str] = {}       # local name -> dotted origin
        self.calls: list[ast.Call] = []
        self.stores: list[ast.stmt] = []
        for n in ast.walk(mod.tree):
            for ch in ast.iter_child_nodes(n):
                self.pm[ch] = n
            if isinstance(n, ast.Call):
                self.calls.append(n)
            elif isinstance(n, (ast.Assign, ast.AugAssign, ast.AnnAssign)):
                self.stores.append(n)
            if isinstance(n, ast.Import):
                for a in n.names:
                    self.imports[a.asname or a.name.split(".")[0]] = a.name if a.asname else a.name.split(".")[0]
            elif isinstance(n, ast.ImportFrom):
                base = ("." * n.level) + (n.module or "")
                for a in n.names:
                    self.imports[a.asname or a.name] = f"{base}.{a.name}" if base else a.name

    def enclosing(self, node, kinds):
        cur = self.pm.get(node)
        while cur is not None and not isinstance(cur, kinds):
            cur = self.pm.get(cur)
        return cur

    def enclosing_fn(self, node):
        return self.enclosing(node, (ast.FunctionDef, ast.AsyncFunctionDef))

    def enclosing_cls(self, node):
        return self.enclosing(node, (ast.ClassDef,))

    def qualname(self, node) -> str:
        parts = []
        cur = node if isinstance(node, (ast.FunctionDef, ast.AsyncFunctionDef, ast.ClassDef)) else self.enclosing(
            node, (ast.FunctionDef, ast.AsyncFunctionDef, ast.ClassDef))
        while cur is not None:
            parts.append(cur.name)
            cur = self.enclosing(cur, (ast.FunctionDef, ast.AsyncFunctionDef, ast.ClassDef))
        return ".".join(reversed(parts)) or "<module>"


def _is_adarray_ctor(call: ast.Call) -> bool:
    d = dotted(call.func)
    return bool(d) and d.split(".")[-1] == "AdArray"


def _is_adarray_type(e: ast.AST) -> bool:
    if isinstance(e, ast.Tuple):
        return any(_is_adarray_type(x) for x in e.elts)
    d = dotted(e)
    return bool(d) and d.split(".")[-1] == "AdArray"


def _is_ndarray_type(e: ast.AST) -> bool:
    if isinstance(e, ast.Tuple):
        return all(_is_ndarray_type(x) for x in e.elts) and bool(e.elts)
    d = dotted(e)
    return bool(d) and d.split(".")[-1] in ("ndarray", "float", "int")


def _function_class_call(call: ast.Call, M: _Mod) -> bool:
    """Is this call a construction of porepy.numerics.ad.operator_functions.Function?"""
    d = dotted(call.func)
    if not d:
        return False
    parts = d.split(".")
    if parts[-1] != "Function":
        return False
    if len(parts) == 1:
        org = M.imports.get("Function", "")
        return M.mod.rel == OPF or org.endswith("operator_functions.Function") or org.endswith("ad.Function")
    return parts[-2] in ("ad", "operator_functions")


def _ctor_args(call: ast.Call):
    val = call.args[0] if len(call.args) > 0 else kwarg(call, "val")
    jac = call.args[1] if len(call.args) > 1 else kwarg(call, "jac")
    return val, jac


# ========================================================================================
# verified primitives (functions.py) and the pp.ad namespace
# ========================================================================================

class _Primitives:
    def __init__(self, ctx: Ctx):
        self.ctx = ctx
        self.mod = ctx.repo.module(FUNCS)
        self.defs = {s.name: s for s in self.mod.tree.body if isinstance(s, ast.FunctionDef)}
        self.classes = {s.name: s for s in self.mod.tree.body if isinstance(s, ast.ClassDef)}
        if "exp" not in self.defs or "maximum" not in self.defs:
            raise AnchorError(f"{FUNCS}: module-level functions exp/maximum not found")
        self.exported = self._all_of(self.mod)
        # names exported into pp.ad by a *later* star import would shadow functions.X
        init = ctx.repo.module(ADINIT)
        order = [s.module for s in init.tree.body if isinstance(s, ast.ImportFrom) and s.level == 1
                 and any(a.name == "*" for a in s.names)]
        if "functions" not in order:
            raise AnchorError(f"{ADINIT}: `from .functions import *` not found")
        self.shadowed: set[str] = set()
        for later in order[order.index("functions") + 1:]:
            rel = f"src/porepy/numerics/ad/{later}.py"
            if ctx.repo.exists(rel):
                self.shadowed |= self._all_of(ctx.repo.module(rel)) & set(self.defs)
        self.used: dict[str, ast.AST] = {}

    @staticmethod
    def _all_of(mod) -> set[str]:
        for s in mod.tree.body:
            if isinstance(s, ast.Assign) and any(isinstance(t, ast.Name) and t.id == "__all__" for t in s.targets):
                if isinstance(s.value, (ast.List, ast.Tuple)):
                    return {e.value for e in s.value.elts if isinstance(e, ast.Constant)}
        raise AnchorError(f"{mod.rel}: literal __all__ not found")

    def has_ad_arm(self, name: str) -> tuple[bool, str]:
        """functions.<name> tests a parameter's type and returns AdArray(val, jac) on some path
        (directly or by delegating to another function of the module that does)."""
        fn = self.defs[name]
        params = {a.arg for a in fn.args.args}
        tests = [c for c in ast.walk(fn) if isinstance(c, ast.Call) and call_name(c) == "isinstance" and len(c.args) == 2
                 and isinstance(c.args[0], ast.Name) and c.args[0].id in params
                 and (_is_adarray_type(c.args[1]) or _is_ndarray_type(c.args[1]))]
        rets = []
        for r in [n for n in walk_local(fn) if isinstance(n, ast.Return) and n.value is not None]:
            v = r.value
            if isinstance(v, ast.Call) and _is_adarray_ctor(v) and all(_ctor_args(v)):
                rets.append(u(v))
        if not tests:
            return False, "no isinstance test of a parameter against AdArray/ndarray"
        if not rets:
            return False, "no `return AdArray(val, jac)`"
        return True, rets[0]


# ========================================================================================
# callee resolution
# ========================================================================================

class _World:
    def __init__(self, ctx: Ctx, mods: list):
        self.ctx = ctx
        self.M = {m.rel: _Mod.of(m) for m in mods}
        self.prim = _Primitives(ctx)
        # all classes in scope by name (for mixin-provided methods)
        self.classes: dict[str, list] = {}
        for rel, M in self.M.items():
            for q, c in M.mod.classes():
                self.classes.setdefault(c.name, []).append((M, c))

    # -- resolve a callable expression to a descriptor ------------------------------------
    def resolve(self, e: ast.expr, M: _Mod, at: ast.AST, depth: int = 0) -> tuple:
        if depth > 6:
            return ("unknown", u(e))
        if isinstance(e, ast.Call):
            cn = dotted(e.func) or ""
            last = cn.split(".")[-1]
            if last == "cast" and len(e.args) == 2:
                return self.resolve(e.args[1], M, at, depth + 1)
            if last == "partial" and e.args:
                return self.resolve(e.args[0], M, at, depth + 1)
            # instance of a class of functions.py (RegularizedHeaviside(...))
            tgt = self._functions_symbol(cn, M)
            if tgt and tgt in self.prim.classes:
                return ("table", (FUNCS, tgt))
            # a helper of the same class / module that merely returns the callable: follow its single return
            helper = None
            if isinstance(e.func, ast.Attribute) and isinstance(e.func.value, ast.Name) and e.func.value.id == "self":
                cls = M.enclosing_cls(at)
                helper = methods(cls).get(e.func.attr) if cls is not None else None
            elif isinstance(e.func, ast.Name):
                helper = next((s for s in M.mod.tree.body if isinstance(s, ast.FunctionDef) and s.name == e.func.id), None)
            if helper is not None:
                rets = [r for r in walk_local(helper) if isinstance(r, ast.Return) and r.value is not None]
                if len(rets) == 1:
                    return self.resolve(rets[0].value, M, rets[0], depth + 1)
            return ("unknown", u(e))
        if isinstance(e, ast.Lambda):
            return ("local", e, M)
        if isinstance(e, ast.Name):
            fn = M.enclosing_fn(at)
            scope = fn
            while scope is not None:
                if e.id in {a.arg for a in scope.args.args + scope.args.kwonlyargs}:
                    return ("unknown", f"parameter {e.id}")
                for n in walk_local(scope):
                    if isinstance(n, (ast.FunctionDef, ast.AsyncFunctionDef)) and n is not scope and n.name == e.id:
                        return ("local", n, M)
                assigns = find_assign(scope, e.id)
                if assigns:
                    v = single_assign_value(scope, e.id)
                    if v is None:
                        return ("unknown", f"{e.id} assigned {len(assigns)} times")
                    return self.resolve(v, M, assigns[0], depth + 1)
                scope = M.enclosing_fn(scope)
            for s in M.mod.tree.body:
                if isinstance(s, (ast.FunctionDef, ast.AsyncFunctionDef)) and s.name == e.id:
                    if M.mod.rel == FUNCS:
                        return self._verified(e.id)
                    return ("local", s, M)
                if isinstance(s, ast.Assign) and any(isinstance(t, ast.Name) and t.id == e.id for t in s.targets):
                    return self.resolve(s.value, M, s, depth + 1)
            org = M.imports.get(e.id)
            if org:
                if org.split(".")[0] in NUMERIC_ROOTS:
                    return ("numeric", org)
                tgt = self._functions_symbol(org, M, imported=True)
                if tgt:
                    return self._verified(tgt)
            return ("unknown", u(e))
        d = dotted(e)
        if d:
            parts = d.split(".")
            if parts[0] == "self" and len(parts) == 2:
                return self._method(parts[1], M, at)
            root = M.imports.get(parts[0], parts[0])
            if root.split(".")[0] in NUMERIC_ROOTS:
                return ("numeric", d)
            tgt = self._functions_symbol(d, M)
            if tgt:
                return self._verified(tgt)
        return ("unknown", u(e))

    def _functions_symbol(self, d: str, M: _Mod, imported: bool = False) -> Optional[str]:
        """Name X if dotted path d denotes porepy.numerics.ad.functions.X (directly or through
        the pp.ad namespace), else None."""
        parts = d.lstrip(".").split(".")
        if len(parts) < 2:
            return None
        x = parts[-1]
        prefix = parts[:-1]
        if x not in self.prim.defs and x not in self.prim.classes:
            return None
        if imported:
            if prefix[-1] == "functions":
                return x
            if prefix[-1] == "ad" and x in self.prim.exported and x not in self.prim.shadowed:
                return x
            return None
        root = M.imports.get(prefix[0], None)
        if root is None:
            return None
        full = root.lstrip(".").split(".") + prefix[1:]
        if full[-1] == "functions" and (len(full) == 1 or full[-2] == "ad" or M.mod.rel.startswith("src/porepy/numerics/ad")):
            return x
        if full[-1] == "ad" and full[0] in ("porepy", "pp", "ad", "numerics"):
            if x in self.prim.exported and x not in self.prim.shadowed:
                return x
        return None

    def _verified(self, name: str) -> tuple:
        if name in self.prim.classes:
            return ("table", (FUNCS, name))
        self.prim.used.setdefault(name, self.prim.defs[name])
        return ("verified", name)

    def _method(self, name: str, M: _Mod, at: ast.AST) -> tuple:
        cls = M.enclosing_cls(at)
        if cls is not None:
            meths = methods(cls)
            if name in meths:
                key = (M.mod.rel, f"{cls.name}.{name}")
                if key in APPROX_FUNCTIONS:
                    return ("table", key)
                return ("local", meths[name], M)
        cands = []
        for cname, lst in self.classes.items():
            for (MM, c) in lst:
                if name in methods(c):
                    cands.append((MM, c))
        if len(cands) == 1:
            MM, c = cands[0]
            key = (MM.mod.rel, f"{c.name}.{name}")
            if key in APPROX_FUNCTIONS:
                return ("table", key)
            return ("local", methods(c)[name], MM)
        return ("unknown", f"self.{name} ({len(cands)} candidate definitions)")


# ========================================================================================
# interpretation of hand-written AdArray(val, jac)
# ========================================================================================

_SYMPY = None


def _sympy():
    global _SYMPY
    if _SYMPY is None:
        import sympy
        _SYMPY = sympy
    return _SYMPY


_NP2SYM = {"exp": "exp", "log": "log", "sin": "sin", "cos": "cos", "tan": "tan", "arcsin": "asin", "arccos": "acos",
           "arctan": "atan", "sinh": "sinh", "cosh": "cosh", "tanh": "tanh", "arcsinh": "asinh", "arccosh": "acosh",
           "arctanh": "atanh", "sqrt": "sqrt", "abs": "Abs", "absolute": "Abs", "sign": "sign"}


class _NoInterp(Exception):
    pass


def _to_sympy(e: ast.expr, advars: set[str], syms: dict):
    """Closed-form scalar expression in `x.val` (x in advars) and free constants -> sympy."""
    sp = _sympy()
    if isinstance(e, ast.Constant) and isinstance(e.value, (int, float)) and not isinstance(e.value, bool):
        return sp.nsimplify(e.value, rational=True)
    if isinstance(e, ast.Attribute) and e.attr == "val" and isinstance(e.value, ast.Name) and e.value.id in advars:
        return syms.setdefault(e.value.id, sp.Symbol(e.value.id, real=True))
    if isinstance(e, ast.Attribute) and e.attr == "pi" and dotted(e) in ("np.pi", "numpy.pi", "math.pi"):
        return sp.pi
    if isinstance(e, ast.Name):
        if e.id in advars:
            raise _NoInterp(f"AD value {e.id} used without .val")
        return syms.setdefault("c_" + e.id, sp.Symbol("c_" + e.id, positive=True))
    if isinstance(e, ast.Attribute) and dotted(e) and dotted(e).split(".")[0] not in advars:
        nm = "c_" + dotted(e).replace(".", "_")
        return syms.setdefault(nm, sp.Symbol(nm, positive=True))
    if isinstance(e, ast.UnaryOp) and isinstance(e.op, (ast.USub, ast.UAdd)):
        v = _to_sympy(e.operand, advars, syms)
        return -v if isinstance(e.op, ast.USub) else v
    if isinstance(e, ast.BinOp):
        a, b = _to_sympy(e.left, advars, syms), _to_sympy(e.right, advars, syms)
        if isinstance(e.op, ast.Add):
            return a + b
        if isinstance(e.op, ast.Sub):
            return a - b
        if isinstance(e.op, ast.Mult):
            return a * b
        if isinstance(e.op, ast.Div):
            return a / b
        if isinstance(e.op, ast.Pow):
            return a ** b
        raise _NoInterp(f"operator {type(e.op).__name__}")
    if isinstance(e, ast.Call):
        d = dotted(e.func) or ""
        parts = d.split(".")
        if len(parts) == 2 and parts[0] in ("np", "numpy", "math") and parts[1] in _NP2SYM and len(e.args) == 1 and not e.keywords:
            return getattr(sp, _NP2SYM[parts[1]])(_to_sympy(e.args[0], advars, syms))
        if len(parts) == 2 and parts[0] in ("np", "numpy") and parts[1] == "power" and len(e.args) == 2:
            return _to_sympy(e.args[0], advars, syms) ** _to_sympy(e.args[1], advars, syms)
        raise _NoInterp(f"call {d or u(e.func)}")
    raise _NoInterp(type(e).__name__)


def _jac_coeffs(e: ast.expr, advars: set[str], syms: dict) -> dict:
    """Jacobian expression -> {x: coefficient of x.jac} (coefficients are sympy expressions)."""
    sp = _sympy()
    if isinstance(e, ast.Attribute) and e.attr == "jac" and isinstance(e.value, ast.Name) and e.value.id in advars:
        return {e.value.id: sp.Integer(1)}
    if isinstance(e, ast.Call):
        f = e.func
        if isinstance(f, ast.Attribute) and f.attr == "_diagvec_mul_jac" and isinstance(f.value, ast.Name) \
                and f.value.id in advars and len(e.args) == 1:
            return {f.value.id: _to_sympy(e.args[0], advars, syms)}
        if isinstance(f, ast.Attribute) and f.attr in ("tocsr", "tocsc", "copy") and not e.args:
            return _jac_coeffs(f.value, advars, syms)
        d = dotted(f) or ""
        if d.split(".")[-1] in ("csr_matrix", "csc_matrix") and len(e.args) == 1 and _is_shape(e.args[0]):
            return {}
        raise _NoInterp(f"jacobian call {d or u(f)}")
    if isinstance(e, ast.Constant) and e.value == 0:
        return {}
    if isinstance(e, ast.UnaryOp) and isinstance(e.op, ast.USub):
        return {k: -v for k, v in _jac_coeffs(e.operand, advars, syms).items()}
    if isinstance(e, ast.BinOp):
        if isinstance(e.op, (ast.Add, ast.Sub)):
            a, b = _jac_coeffs(e.left, advars, syms), _jac_coeffs(e.right, advars, syms)
            out = dict(a)
            for k, v in b.items():
                out[k] = out.get(k, 0) + (v if isinstance(e.op, ast.Add) else -v)
            return out
        if isinstance(e.op, (ast.Mult, ast.MatMult)):
            # diags(G) @ J | diags(G) * J | c * J | J * c
            for a, b in ((e.left, e.right), (e.right, e.left)):
                if isinstance(a, ast.Call) and (dotted(a.func) or "").split(".")[-1] == "diags" and len(a.args) == 1 and a is e.left:
                    g = _to_sympy(a.args[0], advars, syms)
                    return {k: g * v for k, v in _jac_coeffs(b, advars, syms).items()}
            if isinstance(e.op, ast.Mult):
                for a, b in ((e.left, e.right), (e.right, e.left)):
                    if ".jac" not in u(a) and "_diagvec_mul_jac" not in u(a):
                        c = _to_sympy(a, advars, syms)
                        if c.free_symbols & {syms.get(v) for v in advars}:
                            raise _NoInterp("array-valued scalar factor on a Jacobian")
                        return {k: c * v for k, v in _jac_coeffs(b, advars, syms).items()}
        if isinstance(e.op, ast.Div) and ".jac" not in u(e.right):
            c = _to_sympy(e.right, advars, syms)
            if c.free_symbols & {syms.get(v) for v in advars}:
                raise _NoInterp("array-valued divisor on a Jacobian")
            return {k: v / c for k, v in _jac_coeffs(e.left, advars, syms).items()}
    raise _NoInterp(f"jacobian form {type(e).__name__}: {u(e)[:60]}")


def _is_shape(e: ast.expr) -> bool:
    return isinstance(e, ast.Tuple) or (isinstance(e, ast.Attribute) and e.attr == "shape")


def _equal(a, b, symbols) -> Optional[bool]:
    """sympy equality with a numeric spot check as guard; None = inconclusive."""
    sp = _sympy()
    diff = sp.simplify(a - b)
    if diff == 0:
        return True
    pts = [{s: (sp.Rational(3, 7) + sp.Rational(abs(i), 11) * (k + 1)) * (1 if (i > 0 or s.is_positive) else -1)
            for k, s in enumerate(symbols)} for i in (1, 2, 3, -1, -2)]
    vals = []
    for p in pts:
        try:
            vals.append(abs(complex(diff.subs(p).evalf())))
        except Exception:
            return None
    if all(v < 1e-10 for v in vals):
        return None  # simplify failed but numerically equal: inconclusive, never a verdict
    if any(v > 1e-6 for v in vals):
        return False  # the two closed forms differ at a concrete rational point
    return None


def _guarded_ndarray(name: str, node: ast.AST, pm: dict) -> bool:
    """node is control-dependent on `isinstance(name, np.ndarray)` being true."""
    cur, child = pm.get(node), node
    while cur is not None:
        if isinstance(cur, ast.If) and any(child is s for s in cur.body):
            tests = cur.test.values if isinstance(cur.test, ast.BoolOp) and isinstance(cur.test.op, ast.And) else [cur.test]
            for t in tests:
                if isinstance(t, ast.Call) and call_name(t) == "isinstance" and len(t.args) == 2 \
                        and u(t.args[0]) == name and _is_ndarray_type(t.args[1]):
                    return True
        if isinstance(cur, (ast.FunctionDef, ast.AsyncFunctionDef, ast.Lambda)):
            break
        child, cur = cur, pm.get(cur)
    return False


def _classify_manual(call: ast.Call, M: _Mod, advars: Optional[set] = None) -> tuple[str, str, dict]:
    """-> (verdict in ok|bad|undecided, pattern/diagnosis, facts) for AdArray(val, jac)."""
    val, jac = _ctor_args(call)
    if val is None or jac is None:
        return "undecided", "AdArray(...) without explicit val and jac", {}
    fn = M.enclosing(call, (ast.FunctionDef, ast.AsyncFunctionDef, ast.Lambda))
    if isinstance(fn, (ast.FunctionDef, ast.AsyncFunctionDef)):
        stop = {a.arg for a in fn.args.args}
        val_i, jac_i = inline_locals(fn, val, stop), inline_locals(fn, jac, stop)
        params = stop - {"self"}
    else:
        val_i, jac_i = val, jac
        params = {a.arg for a in fn.args.args} if isinstance(fn, ast.Lambda) else set()
    facts = {"val": u(val_i)[:200], "jac": u(jac_i)[:200]}
    vt, jt = u(val_i), u(jac_i)

    # F4: delegated pair get_values / get_jacobian on the same argument list
    if isinstance(jac_i, ast.Call) and call_name(jac_i) == "get_jacobian":
        src = val_i
        # `values = np.array([values])` re-wrap of a float is value preserving: look through one Name level
        vcalls = [c for c in ast.walk(fn) if isinstance(c, ast.Call) and call_name(c) == "get_values"] if fn else []
        same = vcalls and all(u(c.func.value) == u(jac_i.func.value) and [u(a) for a in c.args] == [u(a) for a in jac_i.args]
                              for c in vcalls if isinstance(c.func, ast.Attribute))
        valname_ok = isinstance(val, ast.Name) and any(
            isinstance(s, ast.Assign) and isinstance(s.value, ast.Call) and call_name(s.value) == "get_values"
            for s in find_assign(fn, val.id))
        if same and (valname_ok or (isinstance(src, ast.Call) and call_name(src) == "get_values")):
            return "ok", "F4 get_values/get_jacobian pair on identical arguments", facts
        return "bad", "value and Jacobian are not produced by get_values/get_jacobian of the same object on the same arguments", facts

    # F1: structurally zero Jacobian
    zero = (isinstance(jac_i, ast.Call) and (dotted(jac_i.func) or "").split(".")[-1] in ("csr_matrix", "csc_matrix")
            and len(jac_i.args) == 1 and not jac_i.keywords and _is_shape(jac_i.args[0])) or \
           (isinstance(jac_i, ast.Constant) and jac_i.value == 0)
    if not zero and isinstance(val, ast.Name) and _guarded_ndarray(val.id, call, M.pm) and isinstance(jac_i, ast.Call) \
            and (dotted(jac_i.func) or "").split(".")[-1] in ("eye", "identity", "diags", "eye_array", "ones"):
        return "bad", "an ndarray (state-independent) value is given a non-zero Jacobian", facts
    if zero:
        if isinstance(val, ast.Name) and _guarded_ndarray(val.id, call, M.pm):
            return "ok", "F1 constant lift: ndarray-guarded value with structurally zero Jacobian", facts
        vals = [n for n in ast.walk(val_i) if isinstance(n, ast.Attribute) and n.attr == "val"]
        if vals:
            pmv = parent_map(val_i)
            for n in vals:
                cur, okc = pmv.get(n), False
                while cur is not None:
                    if isinstance(cur, ast.Call) and (dotted(cur.func) or "").split(".")[-1] in PIECEWISE_CONSTANT:
                        okc = True
                        break
                    cur = pmv.get(cur)
                if not okc:
                    return "bad", "value depends smoothly on an AD argument but the Jacobian is structurally zero", facts
            return "ok", "F1 piecewise-constant value with structurally zero Jacobian", facts
        return "undecided", "zero Jacobian for a value whose type (ndarray vs AdArray) is not established by an isinstance guard", facts

    # F2: lock-step stacking
    def _comp(e):
        while isinstance(e, ast.Call) and (dotted(e.func) or "").split(".")[-1] in ("array", "list", "tuple") and e.args:
            e = e.args[0]
        return e if isinstance(e, ast.ListComp) and len(e.generators) == 1 and not e.generators[0].ifs else None
    if isinstance(val_i, ast.Call) and isinstance(jac_i, ast.Call) and val_i.args and jac_i.args:
        vf, jf = (dotted(val_i.func) or "").split(".")[-1], (dotted(jac_i.func) or "").split(".")[-1]
        vc, jc = _comp(val_i.args[0]), _comp(jac_i.args[0])
        if vf in ("concatenate", "hstack") and jf == "vstack" and vc is not None and jc is not None:
            gv, gj = vc.generators[0], jc.generators[0]
            ok = (u(gv.iter) == u(gj.iter) and isinstance(vc.elt, ast.Attribute) and vc.elt.attr == "val"
                  and isinstance(jc.elt, ast.Attribute) and jc.elt.attr == "jac"
                  and u(vc.elt.value) == u(gv.target) and u(jc.elt.value) == u(gj.target))
            facts.update(iter_val=u(gv.iter), iter_jac=u(gj.iter))
            if ok:
                return "ok", "F2 lock-step stacking of .val and .jac over one iterable", facts
            return "bad", "values and Jacobians are stacked from different sequences / attributes", facts

    # F3: same matrix applied to x.val and x.jac
    if isinstance(val_i, ast.BinOp) and isinstance(val_i.op, ast.MatMult) and isinstance(jac_i, ast.BinOp) \
            and isinstance(jac_i.op, ast.MatMult):
        a, b = val_i.right, jac_i.right
        if isinstance(a, ast.Attribute) and a.attr == "val" and isinstance(b, ast.Attribute) and b.attr == "jac":
            ok = u(val_i.left) == u(jac_i.left) and u(a.value) == u(b.value)
            return ("ok", "F3 one matrix applied to x.val and x.jac", facts) if ok else \
                ("bad", "value and Jacobian use different matrices or different operands", facts)

    # F5: closed form  AdArray(V(x.val..), sum_x G_x * x.jac)  with dV/dx == G_x
    adv = set(advars) if advars is not None else {n.value.id for n in ast.walk(jac_i)
                                                   if isinstance(n, ast.Attribute) and n.attr == "jac" and isinstance(n.value, ast.Name)} | \
        {n.func.value.id for n in ast.walk(jac_i) if isinstance(n, ast.Call) and isinstance(n.func, ast.Attribute)
         and n.func.attr == "_diagvec_mul_jac" and isinstance(n.func.value, ast.Name)}
    adv |= {n.value.id for n in ast.walk(val_i) if isinstance(n, ast.Attribute) and n.attr == "val" and isinstance(n.value, ast.Name)
            and n.value.id in params}
    if not adv:
        return "undecided", "no AD operand identified in the hand-written construction", facts
    try:
        syms: dict = {}
        V = _to_sympy(val_i, adv, syms)
        G = _jac_coeffs(jac_i, adv, syms)
    except _NoInterp as ex:
        return "undecided", f"cannot interpret hand-written Jacobian ({ex})", facts
    sp = _sympy()
    allsyms = sorted(V.free_symbols | {s for g in G.values() for s in getattr(g, "free_symbols", set())}, key=str)
    for x in sorted(adv):
        sx = syms.get(x)
        want = sp.diff(V, sx) if sx is not None else sp.Integer(0)
        got = G.get(x, sp.Integer(0))
        eq = _equal(want, sp.sympify(got), allsyms)
        facts.update({f"d/d{x}": str(want), f"coeff_{x}": str(got)})
        if eq is None:
            return "undecided", f"sympy could not decide d(val)/d({x}) == coefficient of {x}.jac", facts
        if not eq:
            return "bad", f"hand-written Jacobian is not the derivative: d(val)/d({x}) = {want} but coefficient of {x}.jac is {got}", facts
    return "ok", "F5 closed form: coefficient of x.jac equals d(val)/dx", facts


# ========================================================================================
# one-level analysis of a model-local callable wrapped in pp.ad.Function
# ========================================================================================

def _non_ad_params(node: ast.AST, pm: dict, params: set[str], root: ast.AST) -> tuple[set[str], set[str]]:
    """(params known to be AdArray, params known NOT to be AdArray) at node from enclosing isinstance tests."""
    is_ad, not_ad = set(), set()

    def learn(test, truth: bool) -> None:
        t, neg = test, False
        if isinstance(t, ast.UnaryOp) and isinstance(t.op, ast.Not):
            neg, t = True, t.operand
        if isinstance(t, ast.Call) and call_name(t) == "isinstance" and len(t.args) == 2 and isinstance(t.args[0], ast.Name) \
                and t.args[0].id in params:
            p = t.args[0].id
            val = truth != neg     # value of the isinstance(...) call itself
            if _is_adarray_type(t.args[1]):
                (is_ad if val else not_ad).add(p)
            elif _is_ndarray_type(t.args[1]):
                (not_ad if val else is_ad).add(p)

    cur, child = pm.get(node), node
    while cur is not None and child is not root:
        # earlier siblings `if T: ... return/raise` (no else): T is false from here on
        for fld in ("body", "orelse", "finalbody"):
            blk = getattr(cur, fld, None)
            if isinstance(blk, list) and any(child is s for s in blk):
                for s in blk:
                    if s is child:
                        break
                    if isinstance(s, ast.If) and not s.orelse and s.body and isinstance(s.body[-1], (ast.Return, ast.Raise)):
                        learn(s.test, False)
        test = None
        if isinstance(cur, ast.If):
            test, in_true, in_false = cur.test, any(child is s for s in cur.body), any(child is s for s in cur.orelse)
        elif isinstance(cur, ast.IfExp):
            test, in_true, in_false = cur.test, child is cur.body, child is cur.orelse
        if test is not None and (in_true or in_false):
            neg = False
            t = test
            if isinstance(t, ast.UnaryOp) and isinstance(t.op, ast.Not):
                neg, t = True, t.operand
            if isinstance(t, ast.Call) and call_name(t) == "isinstance" and len(t.args) == 2 and isinstance(t.args[0], ast.Name) \
                    and t.args[0].id in params:
                p = t.args[0].id
                adtest = _is_adarray_type(t.args[1])
                ndtest = _is_ndarray_type(t.args[1])
                truth = in_true != neg     # the isinstance call evaluates True on this arm
                if adtest:
                    (is_ad if truth else not_ad).add(p)
                elif ndtest:
                    (not_ad if truth else is_ad).add(p)
        child, cur = cur, pm.get(cur)
    return is_ad, not_ad


def _analyse_local(W: _World, callee, M: _Mod) -> tuple[str, str, dict]:
    """A model-local callable may only compose AD arithmetic and verified primitives; hand-written
    AdArray constructions are interpreted.  -> (ok|bad|undecided, message, facts)"""
    if isinstance(callee, ast.Lambda):
        params = {a.arg for a in callee.args.args}
        body_nodes = list(ast.walk(callee.body))
        root = callee
    else:
        params = {a.arg for a in callee.args.args} - {"self"}
        body_nodes = [n for s in callee.body for n in ast.walk(s)]
        root = callee
    pm = M.pm
    facts: dict = {"callee": (u(callee)[:160] if isinstance(callee, ast.Lambda) else callee.name)}
    has_guard = any(isinstance(n, ast.Call) and call_name(n) == "isinstance" and len(n.args) == 2
                    and isinstance(n.args[0], ast.Name) and n.args[0].id in params for n in body_nodes)
    for n in body_nodes:
        if isinstance(n, ast.Attribute) and n.attr == "jac" and isinstance(n.ctx, ast.Store):
            return "undecided", "callee stores into a .jac attribute", facts
    handled_jac: set[int] = set()
    for c in [n for n in body_nodes if isinstance(n, ast.Call)]:
        if _is_adarray_ctor(c):
            verdict, msg, f2 = _classify_manual(c, M)
            facts.update(f2)
            if verdict != "ok":
                return verdict, msg, facts
            for sub in ast.walk(c):
                handled_jac.add(id(sub))
            continue
        d = dotted(c.func) or ""
        root_name = d.split(".")[0] if d else ""
        root_org = M.imports.get(root_name, root_name).split(".")[0]
        arg_params = set()
        for a in list(c.args) + [k.value for k in c.keywords]:
            for nm in ast.walk(a):
                if isinstance(nm, ast.Name) and nm.id in params:
                    par = pm.get(nm)
                    if isinstance(par, ast.Attribute) and par.attr in ("val", "shape", "size", "jac"):
                        continue
                    arg_params.add(nm.id)
        if not arg_params:
            continue
        if call_name(c) == "isinstance":
            continue
        if root_org in NUMERIC_ROOTS:
            is_ad, not_ad = _non_ad_params(c, pm, params, root)
            if arg_params <= not_ad:
                continue
            if not has_guard or (arg_params & is_ad):
                return "bad", (f"numpy/scipy function {d} applied to the AD argument(s) {sorted(arg_params)}: it has no AdArray arm, "
                               "so no Jacobian (or a wrong one) results"), facts
            return "undecided", f"cannot establish whether {sorted(arg_params)} is an AdArray at the call {d}", facts
        # a call into porepy with AD arguments: must be a verified primitive
        r = W.resolve(c.func, M, c)
        if r[0] == "verified":
            continue
        if isinstance(c.func, ast.Attribute) and c.func.attr == "_diagvec_mul_jac":
            if id(c) in handled_jac:
                continue
            return "undecided", "Jacobian manipulation outside an AdArray(...) construction", facts
        return "undecided", f"call {u(c.func)} with AD argument(s) {sorted(arg_params)} is not a verified primitive", facts
    for n in body_nodes:
        if isinstance(n, ast.Attribute) and n.attr == "jac" and id(n) not in handled_jac:
            return "undecided", "callee reads .jac outside an interpreted AdArray(...) construction", facts
    return "ok", "composition of AD arithmetic / verified primitives", facts


# ========================================================================================
# R5: approximation-table entries keep the exact main term
# ========================================================================================

def _dual_pair(fn, V: ast.expr, J: ast.expr) -> Optional[str]:
    """None if (V, J) is a consistent (value, Jacobian) pair of one operand, else a diagnosis."""
    if isinstance(V, ast.Attribute) and V.attr == "val" and isinstance(J, ast.Attribute) and J.attr == "jac":
        return None if u(V.value) == u(J.value) else f"value of {u(V.value)} paired with Jacobian of {u(J.value)}"
    if isinstance(V, ast.Name) and isinstance(J, ast.Name):
        av, aj = find_assign(fn, V.id), find_assign(fn, J.id)
        if not av or len(av) != len(aj):
            return f"{V.id}/{J.id} are not assigned pairwise"
        pm = parent_map(fn)
        for sv, sj in zip(av, aj):
            if pm.get(sv) is not pm.get(sj) or not isinstance(sv, ast.Assign) or not isinstance(sj, ast.Assign):
                return f"{V.id}/{J.id} are not assigned in the same branch"
            v, j = sv.value, sj.value
            if isinstance(v, ast.Attribute) and v.attr == "val" and isinstance(j, ast.Attribute) and j.attr == "jac":
                if u(v.value) != u(j.value):
                    return f"value of {u(v.value)} paired with Jacobian of {u(j.value)}"
            elif isinstance(j, ast.Call) and (dotted(j.func) or "").split(".")[-1] in ("csr_matrix", "csc_matrix") \
                    and len(j.args) == 1 and _is_shape(j.args[0]) and _guarded_ndarray(u(v), sv, pm):
                pass  # constant operand: zero Jacobian
            else:
                return f"unrecognised pair {u(v)} / {u(j)}"
        return None
    return f"unrecognised pair {u(V)} / {u(J)}"


def _check_main_term(ctx: Ctx, M: _Mod, qual: str, fn: ast.FunctionDef) -> None:
    rets = [r for r in walk_local(fn) if isinstance(r, ast.Return) and isinstance(r.value, ast.Call) and _is_adarray_ctor(r.value)]
    if len(rets) != 1:
        raise Undecided(f"{M.mod.rel}:{qual}: expected exactly one `return AdArray(val, jac)`, found {len(rets)}")
    val, jac = _ctor_args(rets[0].value)
    if not (isinstance(val, ast.Name) and isinstance(jac, ast.Name)):
        raise Undecided(f"{M.mod.rel}:{qual}: AdArray arguments are not local names")
    va = [s for s in find_assign(fn, val.id) if isinstance(s, ast.Assign)]
    ja = [s for s in find_assign(fn, jac.id) if isinstance(s, ast.Assign)]
    aug = [s for s in find_assign(fn, jac.id) if isinstance(s, ast.AugAssign)]
    if len(va) != 1 or len(ja) != 1:
        raise Undecided(f"{M.mod.rel}:{qual}: value/Jacobian are not single plain assignments")
    v, j = va[0].value, ja[0].value
    ok, msg = False, "main term is not of the form M @ V / M @ J"
    if isinstance(v, ast.BinOp) and isinstance(v.op, ast.MatMult) and isinstance(j, ast.BinOp) and isinstance(j.op, ast.MatMult):
        stop = {a.arg for a in fn.args.args}
        mv, mj = u(inline_locals(fn, v.left, stop)), u(inline_locals(fn, j.left, stop))
        Vr, Jr = v.right, j.right
        # value operand may be a sum of values: internal_flux.val + external_bc_val ; the Jacobian operand is then the
        # Jacobian of the differentiated summand only (documented: external bc is not differentiated)
        if isinstance(Vr, ast.BinOp) and isinstance(Vr.op, ast.Add):
            cands = [Vr.left, Vr.right]
        else:
            cands = [Vr]
        diag = [(_dual_pair(fn, c, Jr)) for c in cands]
        if mv != mj:
            msg = f"value uses matrix {mv} but Jacobian uses {mj}"
        elif all(d is not None for d in diag):
            msg = "; ".join(d for d in diag if d)
        else:
            ok, msg = True, "main term M @ x.val / M @ x.jac in lock-step"
    ctx.check("R5", ok, M.mod, qual, ja[0],
              f"approximation-table entry must keep the exact main term (same matrix applied to value and Jacobian of the same operand): {msg}",
              construct=f"main term: {u(va[0])} | {u(ja[0])}", facts={"val": u(va[0]), "jac": u(ja[0])})
    if not aug:
        raise Undecided(f"{M.mod.rel}:{qual}: no additive product-rule term found (table entry changed shape)")
    for s in aug:
        ok = isinstance(s.op, ast.Add)
        ctx.check("R5", ok, M.mod, qual, s, "product-rule term must be added (d(T p) = T dp + p dT)",
                  construct=f"jac {type(s.op).__name__}= {u(s.value)}", facts={"op": type(s.op).__name__})


# ========================================================================================
# run
# ========================================================================================

def _r7_primitives_exact(ctx: Ctx) -> None:
    """R7 (added by the coordinator): the closure argument of this property rests on the primitives being exact.
    Re-run the C01 analysis of ad/functions.py and ad/forward_mode.py on the same tree and import its findings: a model
    Jacobian assembled from a primitive with a wrong local derivative is not the derivative of the residual."""
    from . import c01
    sub = Ctx("C01", ctx.repo, "quick")
    try:
        c01.run(sub)
    except (AnchorError, Undecided) as e:
        # C01 reports this itself (exit 2 there); here it only means the imported clause could not be evaluated
        ctx.note(f"R7: the C01 analysis of the primitives could not be completed on this tree ({type(e).__name__}: {e}); see ./check C01")
        ctx.check("R7", True, c01.FUN, "<module>", None, "C01 analysis incomplete on this tree (reported by C01 itself)",
                  construct="C01 analysis incomplete")
        return
    bad = {f.key(): f for f in sub.findings}
    n = 0
    for o in sub.obligations:
        n += 1
    ctx.check("R7", not bad, c01.FUN, "<module>", None,
              "a forward-mode primitive used by the models has an inexact local rule: " + "; ".join(sorted({f.short()[:200] for f in bad.values()}))[:900],
              construct="C01 findings on the AD primitives: " + " | ".join(sorted({f.rule + ":" + f.qualname + ":" + f.construct[:60] for f in bad.values()}))[:600],
              facts={"c01_obligations": n, "c01_findings": len(bad)})


def _r8_state_forwarding(ctx: Ctx) -> None:
    """R8 (added by the coordinator after an independently seeded change): a method of EquationSystem that takes a
    `state` argument (the point at which residual and Jacobian are evaluated) must forward it to every assemble /
    evaluate / value_and_jacobian call it makes; a call that drops it silently evaluates that block at the stored
    iterate instead, so the assembled Jacobian is no longer the derivative of the assembled residual at `state`."""
    rel = "src/porepy/numerics/ad/equation_system.py"
    mod = ctx.repo.module(rel)
    cls = mod.cls("EquationSystem")
    n = 0
    for name, fn in methods(cls).items():
        params = [a.arg for a in fn.args.args] + [a.arg for a in fn.args.kwonlyargs]
        if "state" not in params:
            continue
        for c in [c_ for c_ in ast.walk(fn) if isinstance(c_, ast.Call)]:
            f = c.func
            if not (isinstance(f, ast.Attribute) and f.attr in ("assemble", "evaluate", "value_and_jacobian", "value", "_evaluate_single")):
                continue
            recv = u(f.value)
            if recv not in ("self", "self._ad_parser") and not recv.endswith("_ad_parser"):
                continue
            n += 1
            st = kwarg(c, "state")
            pos = [u(a_) for a_ in c.args]
            ok = (st is not None and u(st) == "state") or "state" in pos
            ctx.check("R8", ok, mod, f"EquationSystem.{name}", c,
                      f"{name} takes `state` but calls {recv}.{f.attr}(...) without forwarding it: that block is evaluated at the stored "
                      f"iterate, not at the requested state", construct=f"{name}: {recv}.{f.attr} without state")
    if n < 3:
        raise AnchorError(f"EquationSystem: expected at least 3 state-forwarding call sites, found {n}")


def run(ctx: Ctx) -> None:
    _r7_primitives_exact(ctx)
    _r8_state_forwarding(ctx)
    rels: list[str] = []
    for sub in SCOPE_QUICK + (SCOPE_THOROUGH if ctx.tier == "thorough" else []):
        rels += ctx.repo.all_py(sub)
    rels = sorted(set(rels))
    for need in (OPF, SURR, CL, PARSER, OPS, ADUTILS):
        if need not in rels:
            raise AnchorError(f"{need} not found in scope")
    mods = [ctx.repo.module(r) for r in rels]
    if FUNCS not in rels:
        raise AnchorError(f"{FUNCS} not found in scope")
    W = _World(ctx, mods)
    table_hit: set = set()

    # ---------------- R1: Function(f, name) sites -----------------------------------------
    for m in mods:
        if m.rel in C01_FILES:
            continue
        M = W.M[m.rel]
        for call in M.calls:
            if not _function_class_call(call, M):
                continue
            f = call.args[0] if call.args else kwarg(call, "func")
            qual = M.qualname(call)
            if f is None:
                raise Undecided(f"{m.rel}:{qual}: Function(...) without a callable argument")
            _check_wrapped(ctx, W, M, qual, call, f)
            # decorator form is handled below
        # @ADmethod decorated callables are wrapped in Function by the decorator
        for q, fn in m.functions():
            for dec in fn.decorator_list:
                d = dotted(dec.func if isinstance(dec, ast.Call) else dec) or ""
                if d.split(".")[-1] == "ADmethod":
                    verdict, msg, facts = _analyse_local(W, fn, M)
                    if verdict == "undecided":
                        raise Undecided(f"{m.rel}:{q}: @ADmethod callable: {msg}")
                    ctx.check("R1", verdict == "ok", m, q, fn, f"@ADmethod callable: {msg}", construct=f"@ADmethod {fn.name}", facts=facts)

    # ---------------- R2: manual AdArray(val, jac) constructions --------------------------------
    for m in mods:
        if m.rel in C01_FILES:
            continue
        M = W.M[m.rel]
        for call in [n for n in M.calls if _is_adarray_ctor(n)]:
            par = M.pm.get(call)
            if isinstance(par, ast.Call) and call_name(par) == "isinstance":
                continue
            qual = M.qualname(call)
            key = (m.rel, qual)
            if key in APPROX_FUNCTIONS:
                table_hit.add(key)
                ctx.check("R2", True, m, qual, call, f"approximation table: {APPROX_FUNCTIONS[key]}",
                          construct=f"table entry {qual}", facts={"table": True})
                continue
            cls = M.enclosing_cls(call)
            if cls is not None and (m.rel, cls.name) in APPROX_CLASSES:
                table_hit.add((m.rel, cls.name))
                ctx.check("R2", True, m, qual, call, f"approximation table: {APPROX_CLASSES[(m.rel, cls.name)]}",
                          construct=f"table entry {cls.name}", facts={"table": True})
                continue
            # a construction inside a callable that R1 analysed is judged there as well; judge it here regardless
            verdict, msg, facts = _classify_manual(call, M)
            if verdict == "undecided":
                raise Undecided(f"{m.rel}:{qual}: manual AdArray construction `{u(call)[:100]}`: {msg}")
            ctx.check("R2", verdict == "ok", m, qual, call, f"manual AdArray(val, jac): {msg}", facts=facts)
            ctx.sample({"rule": "R2", "site": f"{m.rel}:{qual}", "pattern": msg, **facts})

    # ---------------- R3: implementers of the operator-function protocol -------------------------
    fn_class_names = {"AbstractFunction", "Function", "DiagonalJacobianFunction", "InterpolatedFunction"}
    for m in mods:
        M = W.M[m.rel]
        for q, c in m.classes():
            meths = methods(c)
            bases = {(dotted(b) or u(b)).split(".")[-1] for b in c.bases}
            impl = [n for n in ("get_jacobian", "func") if n in meths and not _is_abstract(meths[n])]
            is_sub = bool(bases & fn_class_names)
            if not impl and not is_sub and (m.rel, c.name) not in APPROX_CLASSES:
                continue
            key = (m.rel, c.name)
            if key in APPROX_CLASSES:
                table_hit.add(key)
                ctx.check("R3", True, m, q, c, f"approximation table: {APPROX_CLASSES[key]}", construct=f"class {c.name}",
                          facts={"table": True, "implements": impl})
            elif key in EXACT_CLASSES:
                ok, msg = _check_exact_class(c)
                ctx.check("R3", ok, m, q, c, f"{c.name}: {msg}", construct=f"class {c.name} protocol", facts={"implements": impl})
            elif is_sub and not impl:
                # inherits an already classified implementation unchanged
                ctx.check("R3", True, m, q, c, f"{c.name} inherits get_jacobian/func from {sorted(bases & fn_class_names)}",
                          construct=f"class {c.name}", facts={"bases": sorted(bases)})
            else:
                raise Undecided(f"{m.rel}:{q}: class implements {impl or 'an operator-function base'} and is neither in the "
                                "approximation table nor a known exact delegation")
    for key in list(APPROX_CLASSES) + list(APPROX_FUNCTIONS):
        if key not in table_hit and not (key == (FUNCS, "RegularizedHeaviside") and "RegularizedHeaviside" in W.prim.classes):
            raise AnchorError(f"approximation-table entry {key} not found in the tree (stale table)")
        if key == (FUNCS, "RegularizedHeaviside") and "RegularizedHeaviside" not in W.prim.classes:
            raise AnchorError("functions.RegularizedHeaviside vanished (stale table)")

    # ---------------- R4: the .func channel and Jacobian stores ---------------------------------
    n_func = 0
    for m in mods:
        M = W.M[m.rel]
        for s in M.stores:
            targets = s.targets if isinstance(s, ast.Assign) else [s.target]
            for t in targets:
                if not isinstance(t, ast.Attribute):
                    continue
                qual = M.qualname(s)
                if t.attr == "func" and getattr(s, "value", None) is not None:
                    rhs = u(s.value)
                    if rhs == "self.func":
                        ok = True
                    elif rhs in ("self.get_values", "self.get_jacobian") or (dotted(s.value) or "").split(".")[0] in NUMERIC_ROOTS:
                        ok = False
                    else:
                        raise Undecided(f"{m.rel}:{qual}: store `{u(s)}` into an operator's .func from an unclassified callable")
                    n_func += 1
                    ctx.check("R4", ok, m, qual, s, "an operator's .func must be the owning operator function's func "
                              "(value and Jacobian together); anything else drops or replaces the Jacobian", facts={"rhs": rhs})
                chain = u(t)
                if m.rel not in C01_FILES and (t.attr == "jac" or ".jac." in chain + "."):
                    cls = M.enclosing_cls(s)
                    if (m.rel, qual) in APPROX_FUNCTIONS or (cls is not None and (m.rel, cls.name) in APPROX_CLASSES):
                        continue
                    raise Undecided(f"{m.rel}:{qual}: store into a Jacobian `{u(s)[:80]}` outside the approximation table")
    if n_func == 0:
        raise AnchorError("no `op.func = self.func` store found (AbstractFunction.__call__ changed)")

    # ---------------- R5: main term of the mpfa approximation entries --------------------------
    for (rel, qual) in APPROX_FUNCTIONS:
        M = W.M[rel]
        fn = M.mod.func(qual)
        _check_main_term(ctx, M, qual, fn)

    # ---------------- R6: referenced primitives ---------------------------------------------------
    for name in sorted(W.prim.used):
        ok, why = W.prim.has_ad_arm(name)
        exported = name in W.prim.exported
        ctx.check("R6", ok, W.prim.mod, name, W.prim.defs[name],
                  f"functions.{name} is wrapped by a model but {why}" if not ok else f"functions.{name} has an AdArray arm",
                  construct=f"primitive {name}", facts={"arm": why, "exported": exported})
    ctx.sample({"rule": "R6", "primitives_referenced": sorted(W.prim.used)})
    ctx.note(f"approximation table entries matched: {sorted(map(str, table_hit))}")


def _is_abstract(fn: ast.FunctionDef) -> bool:
    return any((dotted(d) or "").split(".")[-1] == "abstractmethod" for d in fn.decorator_list)


def _check_exact_class(c: ast.ClassDef) -> tuple[bool, str]:
    meths = methods(c)
    if c.name == "AbstractFunction":
        # func itself is judged by R2 (pattern F4); here: get_values/get_jacobian are abstract and __call__ hands over self.func
        ok = all(n in meths and _is_abstract(meths[n]) for n in ("get_values", "get_jacobian")) and "func" in meths
        return ok, "get_values/get_jacobian abstract, func combines them" if ok else "protocol methods missing or no longer abstract"
    if c.name == "Function":
        for need in ("func", "get_values", "get_jacobian", "__init__"):
            if need not in meths:
                raise AnchorError(f"Function.{need} missing")
        r = [n for n in walk_local(meths["func"]) if isinstance(n, ast.Return)]
        ok_func = len(r) == 1 and u(r[0].value) == "self._func(*args)"
        init_ok = any(isinstance(s, (ast.Assign, ast.AnnAssign)) and u(s.targets[0] if isinstance(s, ast.Assign) else s.target) == "self._func"
                      and u(s.value) == "func" for s in ast.walk(meths["__init__"]) if isinstance(s, (ast.Assign, ast.AnnAssign)))
        gj = meths["get_jacobian"]
        rj = [n for n in walk_local(gj) if isinstance(n, ast.Return)]
        res = single_assign_value(gj, "result")
        ok_j = len(rj) == 1 and u(rj[0].value) == "result.jac" and res is not None and u(res) == "self._func(*args)"
        if ok_func and init_ok and ok_j:
            return True, "func/get_jacobian hand back the wrapped callable's own result"
        return False, ("Function must evaluate exactly the wrapped callable: func -> self._func(*args), "
                       "get_jacobian -> self._func(*args).jac, __init__ stores func")
    raise Undecided(f"no exactness recogniser for class {c.name}")


def _check_wrapped(ctx: Ctx, W: _World, M: _Mod, qual: str, call: ast.Call, f: ast.expr) -> None:
    m = M.mod
    r = W.resolve(f, M, call)
    kind = r[0]
    cons = f"Function({u(f)})"
    if kind == "verified":
        ctx.check("R1", True, m, qual, call, f"wraps verified primitive functions.{r[1]}", construct=cons,
                  facts={"callee": r[1], "kind": "verified"})
        ctx.sample({"rule": "R1", "site": f"{m.rel}:{qual}", "wrapped": u(f)[:120], "resolves_to": f"functions.{r[1]}"})
        return
    if kind == "table":
        key = r[1]
        why = APPROX_FUNCTIONS.get(key) or APPROX_CLASSES.get(key)
        if why is None:
            raise Undecided(f"{m.rel}:{qual}: table key {key} without reason")
        ctx.check("R1", True, m, qual, call, f"approximation table: {key[1]}: {why}", construct=cons,
                  facts={"callee": key[1], "kind": "table"})
        return
    if kind == "numeric":
        ctx.check("R1", False, m, qual, call,
                  f"pp.ad.Function wraps {r[1]}, which has no AdArray arm: evaluating the operator with derivatives cannot produce "
                  "the Jacobian of this term", construct=cons, facts={"callee": r[1], "kind": "numeric"})
        return
    if kind == "local":
        callee, MM = r[1], r[2]
        verdict, msg, facts = _analyse_local(W, callee, MM)
        if verdict == "undecided":
            raise Undecided(f"{m.rel}:{qual}: Function wraps a model-local callable that cannot be interpreted: {msg}")
        ctx.check("R1", verdict == "ok", m, qual, call, f"model-local callable: {msg}", construct=cons, facts=facts)
        return
    raise Undecided(f"{m.rel}:{qual}: cannot resolve the callable wrapped by `{u(call)[:100]}` ({r[1]})")


# ========================================================================================
# mutants
# ========================================================================================

FPL = "src/porepy/models/fluid_property_library.py"
FD = "src/porepy/models/fracture_damage.py"


def _m(name, file, old, new, rule, control=False, count=1, **kw):
    return dict(name=name, file=file, old=old, new=new, rule=rule, control=control, count=count, **kw)


MUTANTS = [
    dict(name="seed-schur-secondary-loop-drops-state", file="src/porepy/numerics/ad/equation_system.py",
         old="            if name in secondary_equation_names:\n                A_temp, b_temp = self.assemble(equations=[name], state=state)",
         new="            if name in secondary_equation_names:\n                A_temp, b_temp = self.assemble(equations=[name])", rule="R8"),

    # DESIGN section 9: model-local function with a wrong hand-written Jacobian wrapped in ad.Function
    _m("local-lambda-wrong-jacobian", FPL, 'exp = pp.ad.Function(pp.ad.exp, "density_exponential")',
       'exp = pp.ad.Function(lambda v: pp.ad.AdArray(np.exp(v.val), v._diagvec_mul_jac(np.exp(-v.val))) '
       'if isinstance(v, pp.ad.AdArray) else np.exp(v), "density_exponential")', "R1", count=2),
    _m("local-sin-with-sin-jacobian", CL, '        f_tan = pp.ad.Function(pp.ad.functions.tan, "tan_function")\n',
       '        def _tan(v):\n            s = np.sin(v.val)\n            return pp.ad.AdArray(s, v._diagvec_mul_jac(s))\n'
       '        f_tan = pp.ad.Function(_tan, "tan_function")\n', "R1"),
    _m("wrap-numpy-exp", CL, 'f_exp = pp.ad.Function(pp.ad.functions.exp, "exp")', 'f_exp = pp.ad.Function(np.exp, "exp")',
       "R1", control=True, count=2),
    _m("partial-of-numpy-norm", FD, 'f_norm = pp.ad.Function(partial(pp.ad.l2_norm, self.nd - 1), "norm_function")',
       'f_norm = pp.ad.Function(partial(np.linalg.norm, self.nd - 1), "norm_function")', "R1", count=2),
    _m("local-lambda-numpy-on-ad", "src/porepy/models/contact_mechanics.py",
       'max_function = pp.ad.Function(pp.ad.maximum, "max_function")',
       'max_function = pp.ad.Function(lambda a, b: np.maximum(a, b), "max_function")', "R1"),
    _m("local-alias-to-wrong-abs", FD, 'f_abs = pp.ad.Function(pp.ad.functions.abs, "abs")',
       'f_abs = pp.ad.Function(lambda v: pp.ad.AdArray(np.abs(v.val), v.jac), "abs")', "R1"),
    # manual constructions
    _m("constant-lift-identity-jacobian", PARSER, "res, sps.csr_matrix((res.shape[0], equation_system.num_dofs()))",
       "res, sps.eye(res.shape[0], equation_system.num_dofs(), format='csr')", "R2", accept_undecided=False),
    _m("stack-jacobians-reversed", ADUTILS, "jacs = np.array([var.jac for var in ad_arrays])",
       "jacs = np.array([var.jac for var in ad_arrays[::-1]])", "R2"),
    _m("func-pairs-different-args", OPF, "            jac = self.get_jacobian(*args)\n", "            jac = self.get_jacobian(*args[::-1])\n", "R2"),
    # protocol / channel
    _m("function-get-jacobian-of-other-call", OPF, "        assert isinstance(result, AdArray)\n        return result.jac",
       "        assert isinstance(result, AdArray)\n        return result.jac * 0", "R3"),
    _m("func-channel-values-only", OPF, "        op.func = self.func  # type: ignore", "        op.func = self.get_values  # type: ignore", "R4"),
    # approximation-table main terms
    _m("mpfa-flux-jacobian-of-wrong-operand", CL, "        jac = base_flux @ p.jac\n", "        jac = base_flux @ p_diff.jac\n", "R5", control=True),
    _m("mpfa-product-rule-term-subtracted", CL, "            jac += sps.diags(p_diff.val) @ T_f.jac\n",
       "            jac -= sps.diags(p_diff.val) @ T_f.jac\n", "R5"),
    _m("mpfa-vector-source-different-matrix", CL, "        jac = base_discr.vector_source().parse(self.mdg) @ vs_jac\n",
       "        jac = base_discr.flux().parse(self.mdg) @ vs_jac\n", "R5"),
    # primitive loses its AdArray arm
    _m("primitive-without-ad-arm", FUNCS,
       "    if isinstance(var, AdArray):\n        val = np.tan(var.val)\n        jac = var._diagvec_mul_jac((np.cos(var.val) ** 2) ** (-1))\n        return AdArray(val, jac)\n    else:\n        return np.tan(var)",
       "    return np.tan(var)", "R6"),
]
