"""C46 - SparseNdArray behaves like a dictionary of coordinates: index-space analysis.

Every index array produced by ``np.unique(..., return_index, return_inverse)`` and by
``intersect_sets`` is given an abstract *index-space type*; every gather/scatter/bincount in
``SparseNdArray.add`` / ``get`` must then be well typed.  No statistics, no execution: a use
that needs an array to live in two different spaces is a contradiction (Engler style).
"""
from __future__ import annotations

import ast

from ..core.astutil import u, dotted, call_name, kwarg, parent_map, walk_local
from ..core.loader import AnchorError, Undecided
from ..core.report import Ctx
from ..core import cfg as cfgmod
from .c34 import normalise  # behaviour-preserving rewrites (guard-continue folding, one-level helper inlining)

FILE = "src/porepy/utils/array_operations.py"

META = {
    "explanation": (
        "Abstract interpretation of SparseNdArray.add/get over the domain 'index space of the last axis'. "
        "np.unique(X, return_index, return_inverse, return_counts) yields U (unique space), i: U->A, j: A->U, "
        "counts on U; intersect_sets(a, b) yields (sorted set of a-positions, sorted set of b-positions, mask over a, "
        "per-a list of b-positions).  R1: each B[..., m], bincount(m, weights=w), where(j == k) and store is typed: the "
        "array indexed must live on the co-domain of the map (or the domain of the mask) - the reverted D5 "
        "`values[:, all_2_unique]` indexes an A-array with the A->U map.  R2: a read-modify-write of stored entries "
        "pairs two selections element by element; both must be the same ordered selection (a sorted set of storage "
        "positions paired with a mask-selection of the unique space is ordered differently).  R3: overwrite mode "
        "takes the LAST occurrence of a duplicate (first-occurrence map only under a no-duplicates guard); _coords and "
        "_values are appended in lock-step with the complement of the membership mask; the returned permutation uses "
        "the same selection.  R4: get raises on any non-member before reading and returns values in request order. "
        "R5 (content): every value that reaches storage - the update of already stored entries in both arms and the "
        "appended columns - is a column selection of the duplicate-consolidated array (the bincount sum / last occurrence), "
        "never of the raw batch (index spaces would agree, but repetitions inside the batch would be dropped). "
        "Decides these typing/ordering clauses; it does not execute any history of add/get calls."),
    "rule_text": "one obligation per typed gather/scatter/bincount/compare site, per consolidation arm, per append, per guard",
    "trusted_base": ["python ast", "sa.core (loader, astutil, cfg)",
                     "numpy semantics of unique/bincount/where/fancy indexing (table in this module)"],
    "assumptions": ["the normaliser applied to a copy of each anchored function (guard-continue -> if/else, one level of same-module helper inlining incl. early returns, c34.normalise) preserves behaviour", "parameters `coords` and `values` of add are parallel (values[..., k] belongs to coords[k])",
                    "intersect_sets returns (unique ia, unique ib, a_in_b mask, per-a list of b indices) - its return "
                    "statement is re-checked for that shape on every run",
                    "the last axis of 2-d arrays is the indexed one"],
    "technique": "index-space type inference with contradiction detection (abstract interpretation over AST)",
}
MIN_INSTANCES = {"R1": 12, "R2": 2, "R3": 9, "R4": 3, "R5": 3}

PRESERVING_METHODS = {"ravel", "flatten", "copy", "astype", "squeeze", "reshape"}
PRESERVING_FUNCS = {"atleast_2d", "atleast_1d", "asarray", "ascontiguousarray", "ravel", "squeeze"}


def same(a, b) -> bool:
    return a == b


def fmt(t) -> str:
    if t is None:
        return "?"
    if isinstance(t, tuple):
        return t[0] + "(" + ", ".join(fmt(x) if isinstance(x, tuple) else str(x) for x in t[1:]) + ")"
    return str(t)


class Interp:
    """Flow-ordered abstract interpreter for one function body."""

    def __init__(self, fn: ast.FunctionDef, report, attr_types=None):
        self.fn = fn
        self.env: dict[str, tuple | None] = {}
        self.attr_types = dict(attr_types or {})
        self.report = report  # report(kind, ok, node, message, facts)
        self.assign_types: dict[str, list] = {}
        self.returns: list = []
        self.stores: list = []
        self.nuniq = 0
        self.unique_sites: list = []
        self._seen_nodes: set[int] = set()
        self.last_gathers: dict[int, bool] = {}

    # ---------------------------------------------------------------- constraints
    def need(self, kind: str, ok: bool, node: ast.AST, msg: str, **facts) -> None:
        # one obligation per syntactic site (comprehensions may be visited more than once)
        key = (id(node), kind, msg)
        if key in self._seen_nodes:
            return
        self._seen_nodes.add(key)
        self.report(kind, ok, node, msg, facts)

    # ---------------------------------------------------------------- expressions
    def size_space(self, e: ast.expr):
        """space named by a size expression: X.size, len(X), X.shape[1|-1]"""
        if isinstance(e, ast.Attribute) and e.attr == "size":
            t = self.ev(e.value)
            return self.space_of(t)
        if isinstance(e, ast.Call) and call_name(e) == "len" and e.args:
            return self.space_of(self.ev(e.args[0]))
        if isinstance(e, ast.Subscript) and isinstance(e.value, ast.Attribute) and e.value.attr == "shape":
            k = e.slice
            if isinstance(k, ast.UnaryOp) and isinstance(k.op, ast.USub) and isinstance(k.operand, ast.Constant):
                kv = -k.operand.value
            elif isinstance(k, ast.Constant):
                kv = k.value
            else:
                return None
            t = self.ev(e.value.value)
            if t and t[0] == "arr" and kv in (1, -1):
                return t[1]
            if t and t[0] in ("map", "mask") and kv in (0, -1):
                return t[1]
            if t and t[0] == "arr" and kv == 0:
                return ("rows",)
        return None

    @staticmethod
    def space_of(t):
        if t is None:
            return None
        if t[0] == "arr":
            return t[1]
        if t[0] in ("map", "mask", "lmap"):
            return t[1]
        return None

    def ev(self, e: ast.AST):
        if isinstance(e, ast.Name):
            return self.env.get(e.id)
        if isinstance(e, ast.Attribute):
            d = dotted(e)
            if d in self.attr_types:
                return self.attr_types[d]
            return None
        if isinstance(e, ast.UnaryOp) and isinstance(e.op, (ast.Invert, ast.Not)):
            t = self.ev(e.operand)
            if t and t[0] == "mask":
                return ("mask", t[1], t[2], not t[3], t[4])
            if t and t[0] == "bool":
                return ("bool", t[1], not t[2])
            return None
        if isinstance(e, ast.Compare) and len(e.ops) == 1:
            return self.ev_compare(e)
        if isinstance(e, ast.Call):
            return self.ev_call(e)
        if isinstance(e, ast.Subscript):
            return self.ev_subscript(e)
        if isinstance(e, ast.BinOp):
            lt, rt = self.ev(e.left), self.ev(e.right)
            if lt and lt[0] == "cum" and isinstance(e.op, ast.Sub) and isinstance(e.right, ast.Constant) and e.right.value == 1:
                return ("groupend", lt[1])  # position of the last member of each group in a grouped (sorted) sequence
            # arithmetic keeps the space of an array operand (offsets, scalings)
            for t in (lt, rt):
                if t and t[0] == "arr":
                    return t
            return None
        return None

    def ev_compare(self, e: ast.Compare):
        lt, rt = self.ev(e.left), self.ev(e.comparators[0])
        if not isinstance(e.ops[0], (ast.Eq, ast.NotEq, ast.Lt, ast.Gt, ast.LtE, ast.GtE)):
            return None
        if lt and lt[0] == "map" and rt and rt[0] == "pos":
            # values of the map are positions of its co-domain: compare only with such a position
            self.need("R1", same(lt[2], rt[1]), e,
                      f"`{u(e)}` compares the entries of a map into {fmt(lt[2])} with a position of {fmt(rt[1])}",
                      left=fmt(lt), right=fmt(rt))
            if isinstance(e.ops[0], ast.Eq):
                return ("mask", lt[1], u(e), True, (rt[1], rt[3]))
            return None
        if lt and lt[0] in ("arr", "map") and (rt is None):
            sp = lt[1]
            return ("mask", sp, u(e), True, None)
        return None

    def ev_call(self, c: ast.Call):
        name = call_name(c)
        f = c.func
        # methods on typed receivers
        if isinstance(f, ast.Attribute):
            recv = self.ev(f.value)
            if recv is not None and name in PRESERVING_METHODS:
                return recv
            if recv is not None and name in ("any", "all") and recv[0] == "mask":
                return ("bool", (name, recv[1], recv[2], recv[3]), True)
        if name in PRESERVING_FUNCS and c.args:
            t = self.ev(c.args[0])
            if name == "ravel" and t and t[0] == "lmap":
                return ("map", t[1], t[2])
            return t
        if name in ("sort", "unique") and len(c.args) == 1 and not any(
                k.arg and k.arg.startswith("return_") for k in c.keywords):
            t = self.ev(c.args[0])
            if t and t[0] == "map":
                return ("set", t[2], u(c))  # sorted positions: the association with the domain is lost
            if t and t[0] == "set":
                return t
            return None
        if name == "argsort" and (c.args or isinstance(f, ast.Attribute)):
            base = c.args[0] if c.args and not (isinstance(f, ast.Attribute) and not isinstance(f.value, ast.Name)) else f.value
            if isinstance(f, ast.Attribute) and isinstance(f.value, ast.Name) and f.value.id not in ("np", "numpy") and not c.args:
                base = f.value
            t = self.ev(base)
            if t and t[0] == "map":
                k = kwarg(c, "kind")
                stable = isinstance(k, ast.Constant) and k.value in ("stable", "mergesort")
                return ("sortperm", t[1], t[2], stable)   # positions of dom ordered by their class in cod
            return None
        if name == "cumsum" and c.args:
            t = self.ev(c.args[0])
            if t and t[0] == "arr":
                return ("cum", t[1])
            return None
        if name == "logical_not" and c.args:
            t = self.ev(c.args[0])
            if t and t[0] == "mask":
                return ("mask", t[1], t[2], not t[3], t[4])
            return None
        if name in ("any", "all") and c.args:
            t = self.ev(c.args[0])
            if t and t[0] == "mask":
                return ("bool", (name, t[1], t[2], t[3]), True)
            return None
        if name in ("where", "nonzero") and len(c.args) == 1:
            t = self.ev(c.args[0])
            if t and t[0] == "mask" and t[3]:
                return ("wtuple", t[1], t[4])
            return None
        if name == "flatnonzero" and c.args:
            t = self.ev(c.args[0])
            if t and t[0] == "mask" and t[3]:
                return ("poss", t[1], t[4])
            return None
        if name == "bincount" and c.args:
            m = self.ev(c.args[0])
            w = kwarg(c, "weights")
            if w is None and len(c.args) > 1:
                w = c.args[1]
            if m and m[0] == "map":
                if w is not None:
                    wt = self.ev(w)
                    if wt and wt[0] == "arr":
                        self.need("R1", same(wt[1], m[1]), c,
                                  f"bincount over a map with domain {fmt(m[1])} needs weights living on {fmt(m[1])}; "
                                  f"`{u(w)}` lives on {fmt(wt[1])}", map=fmt(m), weights=fmt(wt))
                return ("arr", m[2])
            return None
        if name in ("hstack", "concatenate") and c.args:
            t = self.ev(c.args[0])
            if t and t[0] == "lmap":
                # concatenation of the per-element hit lists: with at most one hit per element this is the
                # map from the elements that have a hit (= the membership mask of the same call)
                return ("map", ("sub", t[1], t[3], True), t[2])
        if name in ("vstack", "array", "stack") and c.args and isinstance(c.args[0], (ast.ListComp, ast.GeneratorExp)):
            comp = c.args[0]
            lm = self.ev_listmap_comp(comp)
            if lm is not None:
                return lm
            saved = dict(self.env)
            for g in comp.generators:
                self.bind_loop(g.target, g.iter)
            t = self.ev(comp.elt)
            self.env = saved
            return t if (t and t[0] == "arr") else None
        if name in ("zeros", "empty", "full", "ones") and c.args:
            shp = c.args[0]
            last = shp.elts[-1] if isinstance(shp, ast.Tuple) and shp.elts else shp
            sp = self.size_space(last)
            return ("arr", sp) if sp is not None and sp != ("rows",) else None
        if name in ("hstack", "concatenate") and c.args and isinstance(c.args[0], (ast.Tuple, ast.List)):
            return ("cat", tuple(self.ev(x) for x in c.args[0].elts))
        return None

    def ev_listmap_comp(self, comp):
        """[l[0] for l in L if len(l) > 0] over a per-element hit list L: dom -> cod.
        Without the filter: one hit per element is assumed by the code -> map(dom, cod);
        with a non-emptiness filter -> map from the members (mask of the same call)."""
        if len(comp.generators) != 1:
            return None
        g = comp.generators[0]
        t = self.ev(g.iter)
        if not (t and t[0] == "lmap" and isinstance(g.target, ast.Name)):
            return None
        v = g.target.id
        e = comp.elt
        if not (isinstance(e, ast.Subscript) and isinstance(e.value, ast.Name) and e.value.id == v
                and isinstance(e.slice, ast.Constant) and e.slice.value == 0):
            return None
        if not g.ifs:
            return ("map", t[1], t[2])
        if len(g.ifs) != 1:
            return None
        f = g.ifs[0]
        nonempty = False
        if isinstance(f, ast.Name) and f.id == v:
            nonempty = True
        elif isinstance(f, ast.Compare) and len(f.ops) == 1 and isinstance(f.left, ast.Call) and call_name(f.left) == "len" \
                and f.left.args and isinstance(f.left.args[0], ast.Name) and f.left.args[0].id == v \
                and isinstance(f.comparators[0], ast.Constant):
            k = f.comparators[0].value
            nonempty = (isinstance(f.ops[0], ast.Gt) and k == 0) or (isinstance(f.ops[0], ast.GtE) and k == 1) \
                or (isinstance(f.ops[0], ast.NotEq) and k == 0) or (isinstance(f.ops[0], ast.Eq) and k == 1)
        if not nonempty:
            return None
        return ("map", ("sub", t[1], t[3], True), t[2])

    def column_index(self, s: ast.Subscript):
        """(index expr along the tracked axis, is_plain_row_selection)"""
        sl = s.slice
        if isinstance(sl, ast.Tuple):
            if not sl.elts:
                return None, False
            lead = sl.elts[:-1]
            if all(isinstance(x, ast.Slice) and x.lower is None and x.upper is None and x.step is None for x in lead):
                return sl.elts[-1], False
            return None, False
        return sl, True

    def ev_subscript(self, s: ast.Subscript):
        tv = self.ev(s.value)
        if tv is None:
            return None
        idx, single = self.column_index(s)
        if idx is None:
            return None
        if tv[0] == "wtuple":
            if isinstance(idx, ast.Constant) and idx.value == 0:
                return ("poss", tv[1], tv[2])
            return None
        if tv[0] == "poss":
            k = None
            if isinstance(idx, ast.Constant):
                k = idx.value
            elif isinstance(idx, ast.UnaryOp) and isinstance(idx.op, ast.USub) and isinstance(idx.operand, ast.Constant):
                k = -idx.operand.value
            if k == 0:
                return ("pos", tv[1], "first", None, tv[2])
            if k == -1:
                return ("pos", tv[1], "last", None, tv[2])
            return None
        if isinstance(idx, ast.Slice):
            if idx.lower is None and idx.upper is None and idx.step is None:
                return tv
            return None
        ti = self.ev(idx)
        if ti is None:
            return None
        if tv[0] == "arr":
            X = tv[1]
            if ti[0] == "row":
                return tv if single else None
            if ti[0] == "map":
                self.need("R1", same(X, ti[2]), s,
                          f"`{u(s)}`: an array living on {fmt(X)} is indexed with a map {fmt(ti[1])}->{fmt(ti[2])} "
                          f"(entries are positions of {fmt(ti[2])})", array=fmt(tv), index=fmt(ti))
                return ("arr", ti[1])
            if ti[0] == "mask":
                self.need("R1", same(X, ti[1]), s,
                          f"`{u(s)}`: an array living on {fmt(X)} is selected with a boolean mask over {fmt(ti[1])}",
                          array=fmt(tv), index=fmt(ti))
                return ("arr", ("sub", ti[1], ti[2], ti[3]))
            if ti[0] == "lastmap":
                self.need("R1", same(X, ti[2]), s,
                          f"`{u(s)}`: an array living on {fmt(X)} is indexed with member positions of {fmt(ti[2])} (one per class of {fmt(ti[1])})",
                          array=fmt(tv), index=fmt(ti))
                self.last_gathers[id(s)] = ti[3]
                return ("arr", ti[1])
            if ti[0] == "set":
                self.need("R1", same(X, ti[1]), s,
                          f"`{u(s)}`: an array living on {fmt(X)} is indexed with positions of {fmt(ti[1])}",
                          array=fmt(tv), index=fmt(ti))
                return ("arr", ("sortedset", ti[1], ti[2]))
            if ti[0] == "pos":
                self.need("R1", same(X, ti[1]), s,
                          f"`{u(s)}`: an array living on {fmt(X)} is indexed with a position of {fmt(ti[1])}",
                          array=fmt(tv), index=fmt(ti))
                return ("col", ti[1], ti[2], ti[3], ti[4])
            if ti[0] == "poss":
                self.need("R1", same(X, ti[1]), s, f"`{u(s)}`: array on {fmt(X)} indexed with positions of {fmt(ti[1])}",
                          array=fmt(tv), index=fmt(ti))
                return ("arr", ("poss", ti[1], ti[2]))
            return None
        if tv[0] == "sortperm":
            if ti[0] == "groupend":
                self.need("R1", same(tv[2], ti[1]), s,
                          f"`{u(s)}`: positions sorted by their class in {fmt(tv[2])} are cut at group ends counted on {fmt(ti[1])}",
                          perm=fmt(tv), ends=fmt(ti))
                return ("lastmap", ti[1], tv[1], tv[3])   # per class: one member position; the LAST occurrence iff the sort is stable
            return None
        if tv[0] == "map":
            D, C = tv[1], tv[2]
            if ti[0] == "mask":
                self.need("R1", same(D, ti[1]), s,
                          f"`{u(s)}`: a map with domain {fmt(D)} is selected with a mask over {fmt(ti[1])}",
                          map=fmt(tv), index=fmt(ti))
                return ("map", ("sub", ti[1], ti[2], ti[3]), C)
            if ti[0] == "map":
                self.need("R1", same(D, ti[2]), s,
                          f"`{u(s)}`: composition of maps {fmt(ti[1])}->{fmt(ti[2])} then {fmt(D)}->{fmt(C)}",
                          outer=fmt(tv), inner=fmt(ti))
                return ("map", ti[1], C)
            if ti[0] == "pos":
                self.need("R1", same(D, ti[1]), s, f"`{u(s)}`: map with domain {fmt(D)} read at a position of {fmt(ti[1])}",
                          map=fmt(tv), index=fmt(ti))
                return ("pos", C, "any", None, None)
            return None
        return None

    # ---------------------------------------------------------------- statements
    def bind_loop(self, target: ast.expr, it: ast.expr) -> None:
        if not isinstance(target, ast.Name):
            return
        t = None
        if isinstance(it, ast.Call) and call_name(it) == "range" and len(it.args) == 1:
            sp = self.size_space(it.args[0])
            if sp == ("rows",):
                t = ("row",)
            elif sp is not None:
                t = ("pos", sp, "any", target.id, None)
        self.env[target.id] = t

    def seed_unique(self, targets: list[ast.expr], call: ast.Call) -> bool:
        flags = []
        for kw_name in ("return_index", "return_inverse", "return_counts"):
            k = kwarg(call, kw_name)
            flags.append(isinstance(k, ast.Constant) and k.value is True)
        if not (flags[0] or flags[1]):
            return False
        ax = kwarg(call, "axis")
        if ax is not None and not (isinstance(ax, ast.Constant) and ax.value in (1, -1)):
            self.unique_sites.append((call, "axis not the last one: not typed"))
            return True
        n = self.nuniq
        self.nuniq += 1
        A, U = (f"A{n}" if n else "A"), (f"U{n}" if n else "U")
        kinds = ["u"] + [k for k, fl in zip(("i", "j", "c"), flags) if fl]
        if len(targets) != len(kinds):
            self.unique_sites.append((call, "targets do not match the requested outputs"))
            return True
        if call.args and isinstance(call.args[0], ast.Name) and self.env.get(call.args[0].id) is None:
            self.env[call.args[0].id] = ("arr", A)
        elif call.args:
            t0 = self.ev(call.args[0])
            if t0 and t0[0] == "arr":
                A = t0[1]
        for tg, k in zip(targets, kinds):
            if not isinstance(tg, ast.Name):
                continue
            self.env[tg.id] = {"u": ("arr", U), "i": ("map", U, A), "j": ("map", A, U), "c": ("arr", U)}[k]
        self.unique_sites.append((call, f"{A}->{U}"))
        return True

    def intersect_types(self, call: ast.Call):
        if len(call.args) < 2:
            return None
        ta, tb = self.ev(call.args[0]), self.ev(call.args[1])
        Xa = ta[1] if ta and ta[0] == "arr" else None
        Xb = tb[1] if tb and tb[0] == "arr" else None
        if Xa is None or Xb is None:
            return None
        key = u(call)
        return [("set", Xa, key + "#ia"), ("set", Xb, key + "#ib"), ("mask", Xa, key + "#a_in_b", True, None),
                ("lmap", Xa, Xb, key + "#a_in_b")]

    def seed_intersect(self, targets: list[ast.expr], call: ast.Call) -> bool:
        if len(targets) != 4 or len(call.args) < 2:
            return False
        ta, tb = self.ev(call.args[0]), self.ev(call.args[1])
        Xa = ta[1] if ta and ta[0] == "arr" else None
        Xb = tb[1] if tb and tb[0] == "arr" else None
        if Xa is None or Xb is None:
            return False
        key = u(call)
        types = [("set", Xa, key + "#ia"), ("set", Xb, key + "#ib"), ("mask", Xa, key + "#a_in_b", True, None),
                 ("lmap", Xa, Xb, key + "#a_in_b")]
        for tg, t in zip(targets, types):
            if isinstance(tg, ast.Name):
                self.env[tg.id] = t
        return True

    def run_body(self, body: list[ast.stmt]) -> None:
        for s in body:
            self.stmt(s)

    def stmt(self, s: ast.stmt) -> None:
        if isinstance(s, ast.If):
            self.ev(s.test)
            base = dict(self.env)
            self.run_body(s.body)
            e1 = self.env
            self.env = dict(base)
            self.run_body(s.orelse)
            e2 = self.env
            merged = {}
            for k in set(e1) | set(e2):
                a, b = e1.get(k), e2.get(k)
                merged[k] = a if (a == b or b is None) else (b if a is None else None)
            self.env = merged
            return
        if isinstance(s, (ast.For, ast.AsyncFor)):
            self.bind_loop(s.target, s.iter)
            self.run_body(s.body)
            self.run_body(s.orelse)
            return
        if isinstance(s, ast.While):
            self.run_body(s.body)
            return
        if isinstance(s, (ast.With, ast.AsyncWith)):
            self.run_body(s.body)
            return
        if isinstance(s, ast.Try):
            self.run_body(s.body)
            for h in s.handlers:
                self.run_body(h.body)
            self.run_body(s.orelse)
            self.run_body(s.finalbody)
            return
        if isinstance(s, ast.Return):
            self.returns.append((s, self.ev(s.value) if s.value is not None else None))
            return
        if isinstance(s, ast.Assign) and len(s.targets) == 1:
            tg = s.targets[0]
            sub = s.value
            if isinstance(sub, ast.Subscript) and isinstance(sub.value, ast.Call) and call_name(sub.value) == "intersect_sets":
                types = self.intersect_types(sub.value)
                if types is not None:
                    picked = None
                    if isinstance(sub.slice, ast.Slice) and sub.slice.step is None:
                        lo = sub.slice.lower.value if isinstance(sub.slice.lower, ast.Constant) else (0 if sub.slice.lower is None else None)
                        hi = sub.slice.upper.value if isinstance(sub.slice.upper, ast.Constant) else (4 if sub.slice.upper is None else None)
                        if lo is not None and hi is not None:
                            picked = types[lo:hi]
                    elif isinstance(sub.slice, ast.Constant) and isinstance(sub.slice.value, int):
                        picked = types[sub.slice.value]
                    if isinstance(tg, ast.Tuple) and isinstance(picked, list) and len(picked) == len(tg.elts):
                        for el, t_ in zip(tg.elts, picked):
                            if isinstance(el, ast.Name):
                                self.env[el.id] = t_
                        return
                    if isinstance(tg, ast.Name) and isinstance(picked, tuple):
                        self.env[tg.id] = picked
                        self.assign_types.setdefault(tg.id, []).append((s, picked))
                        return
            if isinstance(tg, ast.Tuple) and isinstance(s.value, ast.Call):
                nm = call_name(s.value)
                if nm == "unique" and self.seed_unique(list(tg.elts), s.value):
                    return
                if nm == "intersect_sets" and self.seed_intersect(list(tg.elts), s.value):
                    return
                for el in tg.elts:
                    if isinstance(el, ast.Name):
                        self.env[el.id] = None
                return
            if isinstance(tg, ast.Name):
                t = self.ev(s.value)
                self.env[tg.id] = t
                self.assign_types.setdefault(tg.id, []).append((s, t))
                return
            if isinstance(tg, ast.Attribute):
                t = self.ev(s.value)
                self.assign_types.setdefault(dotted(tg) or u(tg), []).append((s, t))
                return
            if isinstance(tg, ast.Subscript):
                self.store(s, tg, s.value, aug=False)
                return
            return
        if isinstance(s, ast.AugAssign):
            if isinstance(s.target, ast.Subscript):
                self.store(s, s.target, s.value, aug=True)
            else:
                self.ev(s.value)
            return
        if isinstance(s, ast.AnnAssign) and s.value is not None and isinstance(s.target, ast.Name):
            t = self.ev(s.value)
            self.env[s.target.id] = t
            self.assign_types.setdefault(s.target.id, []).append((s, t))
            return
        if isinstance(s, ast.Expr):
            self.ev(s.value)

    def store(self, s: ast.stmt, tg: ast.Subscript, value: ast.expr, aug: bool) -> None:
        fake = ast.Subscript(value=tg.value, slice=tg.slice, ctx=ast.Load())
        ast.copy_location(fake, tg)
        tsel = self.ev_subscript(fake)
        tval = self.ev(value)
        self.stores.append((s, tg, tsel, tval, aug))


# =====================================================================================
#  anchored analysis
# =====================================================================================

def _check_intersect_shape(mod) -> None:
    """Re-derive the shape of intersect_sets' return tuple that the typing table relies on."""
    fn = mod.func("intersect_sets")
    rets = [n for n in walk_local(fn) if isinstance(n, ast.Return)]
    if len(rets) != 1 or not isinstance(rets[0].value, ast.Tuple) or len(rets[0].value.elts) != 4:
        raise AnchorError("intersect_sets: expected one `return a, b, c, d`")
    argn = [a.arg for a in fn.args.args[:2]]
    el = rets[0].value.elts
    defs: dict[str, list[ast.expr]] = {}
    for st in walk_local(fn):
        if isinstance(st, ast.Assign) and len(st.targets) == 1 and isinstance(st.targets[0], ast.Name):
            defs.setdefault(st.targets[0].id, []).append(st.value)

    def only(name):
        v = defs.get(name, [])
        return v[-1] if v else None
    for k in (0, 1):
        v = only(el[k].id) if isinstance(el[k], ast.Name) else None
        if not (isinstance(v, ast.Call) and call_name(v) == "unique"):
            raise AnchorError(f"intersect_sets: return value {k} is no longer np.unique(...) (sorted unique positions)")
    v2 = only(el[2].id) if isinstance(el[2], ast.Name) else None
    if not (isinstance(v2, ast.Call) and call_name(v2) == "zeros" and f"{argn[0]}.shape" in u(v2)
            and "bool" in u(v2)):
        raise AnchorError("intersect_sets: third return value is no longer a boolean mask over the columns of `a`")
    v3 = only(el[3].id) if isinstance(el[3], ast.Name) else None
    if not (isinstance(v3, ast.Call) and call_name(v3) == "query_ball_tree" and u(v3.func.value).startswith(argn[0])):
        raise AnchorError("intersect_sets: fourth return value is no longer a_tree.query_ball_tree(b_tree, tol)")


def _nodup_guard(test: ast.expr, it: Interp, uspace) -> str:
    """'yes' if test is a recognised 'no duplicates' condition, 'related' if it mentions an
    array of the unique space, 'no' otherwise."""
    # np.all(counts == 1) / (counts == 1).all() / counts.max() == 1 / np.max(counts) == 1
    t = it.ev(test)
    if t and t[0] == "bool" and t[2] and t[1][0] == "all" and t[1][1] == uspace:
        # mask must be `counts == 1`
        src = t[1][2]
        try:
            cmp_ = ast.parse(src, mode="eval").body
        except SyntaxError:
            cmp_ = None
        if isinstance(cmp_, ast.Compare) and isinstance(cmp_.ops[0], ast.Eq) and isinstance(cmp_.comparators[0], ast.Constant) \
                and cmp_.comparators[0].value == 1:
            return "yes"
    if t and t[0] == "bool" and (not t[2]) and t[1][0] == "any" and t[1][1] == uspace and t[1][3]:
        try:
            cmp_ = ast.parse(t[1][2], mode="eval").body
        except SyntaxError:
            cmp_ = None
        if isinstance(cmp_, ast.Compare) and isinstance(cmp_.comparators[0], ast.Constant):
            k, op = cmp_.comparators[0].value, cmp_.ops[0]
            if (isinstance(op, ast.Gt) and k == 1) or (isinstance(op, ast.GtE) and k == 2) or (isinstance(op, ast.NotEq) and k == 1):
                return "yes"
    if isinstance(test, ast.Compare) and len(test.ops) == 1 and isinstance(test.ops[0], ast.Eq):
        l, r = test.left, test.comparators[0]
        if isinstance(r, ast.Constant) and r.value == 1 and isinstance(l, ast.Call) and call_name(l) == "max":
            base = l.func.value if isinstance(l.func, ast.Attribute) and not l.args else (l.args[0] if l.args else None)
            tb = it.ev(base) if base is not None else None
            if tb and tb[0] == "arr" and tb[1] == uspace:
                return "yes"
        sl, sr = it.size_space(l), it.size_space(r)
        if sl is not None and sr is not None and {str(sl), str(sr)} == {str(uspace), "A"}:
            return "yes"
    for n in ast.walk(test):
        if isinstance(n, ast.Name):
            t = it.env.get(n.id)
            if t and t[0] == "arr" and t[1] == uspace:
                return "related"
    return "no"


def _additive_polarity(pm: dict, node: ast.AST, stop: ast.AST, flag: str):
    """True / False if node sits in the arm where `flag` is true / false, None if unguarded."""
    cur = node
    while cur is not stop and cur in pm:
        par = pm[cur]
        if isinstance(par, ast.If):
            t = par.test
            pol = None
            if isinstance(t, ast.Name) and t.id == flag:
                pol = True
            elif isinstance(t, ast.UnaryOp) and isinstance(t.op, ast.Not) and isinstance(t.operand, ast.Name) \
                    and t.operand.id == flag:
                pol = False
            if pol is not None:
                if any(cur is x for x in par.body):
                    return pol
                if any(cur is x for x in par.orelse):
                    return not pol
        cur = par
    return None


def _analyse_add(ctx: Ctx, mod, fn: ast.FunctionDef) -> None:
    q = "SparseNdArray.add"
    params = [a.arg for a in fn.args.args]
    if params[:4] != ["self", "coords", "values", "additive"]:
        raise AnchorError(f"{q}: signature changed ({params}); the parallel-parameter seed (coords, values) is unknown")

    def report(kind, ok, node, msg, facts):
        ctx.check(kind, ok, mod, q, node, msg, facts=facts)

    it = Interp(fn, report, attr_types={"self._values": ("arr", "S"), "self._coords": ("arr", "S")})
    it.env["values"] = ("arr", "A")
    # coord_array derived from `coords` is the np.unique input: typed A by seed_unique
    it.run_body(fn.body)
    if it.nuniq != 1:
        raise AnchorError(f"{q}: expected exactly one typed np.unique(..., return_index/return_inverse) site, found {it.nuniq}")
    ucall = it.unique_sites[0][0]
    if not (ucall.args and "coords" in {n.id for n in ast.walk(ucall.args[0]) if isinstance(n, ast.Name)} | _origin_names(fn, ucall.args[0])):
        raise AnchorError(f"{q}: np.unique is no longer applied to the array built from `coords`")
    pm = parent_map(fn)

    # --- consolidated values: every definition lives on U -------------------------------------
    # the consolidated array is the one selected with the membership mask in the append
    appends = {}
    for name in ("self._values", "self._coords"):
        cands = [(s, t) for s, t in it.assign_types.get(name, [])]
        if len(cands) != 1:
            raise AnchorError(f"{q}: expected one assignment to {name}, found {len(cands)}")
        appends[name] = cands[0]
    sel_types = {}
    for name, (s, t) in appends.items():
        if not (t and t[0] == "cat" and len(t[1]) == 2 and isinstance(s.value, ast.Call)
                and u(s.value.args[0].elts[0]) == name):
            raise Undecided(f"{q}: `{u(s)}` is not an append np.hstack(({name}, <new columns>))")
        new_t = t[1][1]
        ok = bool(new_t and new_t[0] == "arr" and isinstance(new_t[1], tuple) and new_t[1][0] == "sub"
                  and new_t[1][1] == "U" and new_t[1][3] is False)
        ctx.check("R3", ok, mod, q, s,
                  f"{name} must be appended with the columns of a unique-space array selected by the complement of the "
                  f"membership mask; appended part is typed {fmt(new_t)}",
                  construct=f"append {name} <- {u(s.value.args[0].elts[1])}", facts={"type": fmt(new_t)})
        sel_types[name] = new_t
    a, b = sel_types["self._values"], sel_types["self._coords"]
    ctx.check("R3", a is not None and a == b, mod, q, appends["self._values"][0],
              "coordinates and values must be appended with the same selection (lock-step)",
              construct="append lock-step _coords/_values", facts={"values": fmt(a), "coords": fmt(b)})
    # returned permutation
    rets = [(s, t) for s, t in it.returns if s.value is not None and not isinstance(pm.get(s), ast.If)]
    if len(rets) != 1:
        raise AnchorError(f"{q}: expected one main return")
    rs, rt = rets[0]
    ok = bool(rt and rt[0] == "map" and rt[2] == "A" and a is not None and rt[1] == a[1])
    ctx.check("R3", ok, mod, q, rs,
              f"returned permutation must be the first-occurrence map U->A restricted to the appended (non-member) "
              f"columns; typed {fmt(rt)}", construct=f"return {u(rs.value)}", facts={"type": fmt(rt)})

    # consolidated-values variable = base of the appended values selection
    vnew = appends["self._values"][0].value.args[0].elts[1]
    if isinstance(vnew, ast.Name) and len(it.assign_types.get(vnew.id, [])) == 1:
        vnew = it.assign_types[vnew.id][0][0].value  # a temporary holding the selected columns
    append_base = vnew.value.id if isinstance(vnew, ast.Subscript) and isinstance(vnew.value, ast.Name) else None
    if append_base is None:
        raise Undecided(f"{q}: appended values are not `<name>[:, mask]`")
    # the consolidated array is, by definition, the one built by summing duplicates over the inverse map
    summed = sorted({name for name, lst in it.assign_types.items() for s_, _t in lst
                     if any(isinstance(c, ast.Call) and call_name(c) == "bincount" for c in ast.walk(s_.value))})
    cons = summed[0] if len(summed) == 1 else append_base
    defs = it.assign_types.get(cons, [])
    if not defs:
        raise AnchorError(f"{q}: no definition of {cons}")
    for s, t in defs:
        pol = _additive_polarity(pm, s, fn, "additive")
        ok = bool(t and t[0] == "arr" and t[1] == "U")
        ctx.check("R1", ok, mod, q, s,
                  f"consolidated values `{cons}` must live on the unique space in every arm; this definition is typed {fmt(t)}",
                  construct=f"{cons} = {u(s.value)[:120]}", facts={"type": fmt(t), "additive_arm": pol})
        if pol is None:
            _undecided(ctx, f"{q}: definition of {cons} outside the additive/overwrite arms")
            continue
        if pol is True:
            # additive consolidation must sum: bincount over the inverse map
            bc = [c for c in ast.walk(s.value) if isinstance(c, ast.Call) and call_name(c) == "bincount"]
            ok = bool(bc) and all((it.ev(c.args[0]) or (None,))[0] == "map" and it.ev(c.args[0])[1:] == ("A", "U") for c in bc)
            ctx.check("R3", ok, mod, q, s,
                      "additive mode must sum duplicates with bincount over the inverse map A->U",
                      construct=f"additive consolidation {cons}", facts={"bincount": [u(c) for c in bc]})
        else:
            _check_overwrite_def(ctx, mod, q, it, pm, fn, s, cons)

    # --- column stores into the consolidated array (duplicate arm) ---------------------------
    cons_names = {cons} | {s_.value.id for s_, _ in defs if isinstance(s_.value, ast.Name)}
    cons_names |= {n for n, lst in it.assign_types.items() if len(lst) == 1 and isinstance(lst[0][0].value, ast.Name)
                   and lst[0][0].value.id in cons_names}
    n_dup = 0
    for s, tg, tsel, tval, aug in it.stores:
        base = u(tg.value)
        if base in cons_names:
            n_dup += 1
            ok_space = bool(tsel and tsel[0] == "col" and tsel[1] == "U" and tval and tval[0] == "col"
                            and tval[1] == "A" and tval[4] == ("U", tsel[3]))
            ctx.check("R1", ok_space, mod, q, s,
                      f"store into column k of `{cons}` must take the value at an A-position p with inverse[p] == k; "
                      f"target {fmt(tsel)}, value {fmt(tval)}", facts={"target": fmt(tsel), "value": fmt(tval)})
            pol = _additive_polarity(pm, s, fn, "additive")
            if pol is False and tval and tval[0] == "col":
                ctx.check("R3", tval[2] == "last", mod, q, s,
                          "overwrite mode: among duplicate coordinates the LAST occurrence wins (dictionary semantics); "
                          f"this takes the {tval[2]} one", construct=f"duplicate pick: {u(s.value)}",
                          facts={"which": tval[2]})
        elif base == "self._values":
            # read-modify-write of stored entries: both selections must be the same ordered selection
            ok_types = bool(tsel and tsel[0] == "arr" and tval and tval[0] == "arr")
            if not ok_types:
                _undecided(ctx, f"{q}: cannot type the update `{u(s)}` (target {fmt(tsel)}, value {fmt(tval)})")
                continue
            pol = _additive_polarity(pm, s, fn, "additive")
            if pol is None:
                _undecided(ctx, f"{q}: update of stored entries `{u(s)}` outside the additive/overwrite arms")
            else:
                ctx.check("R3", aug == pol and (not aug or isinstance(s.op, ast.Add)), mod, q, s,
                          f"stored entries must be {'incremented (+=)' if pol else 'overwritten (=)'} in the "
                          f"{'additive' if pol else 'overwrite'} arm; found `{'+=' if aug and isinstance(s.op, ast.Add) else ('=' if not aug else 'other op')}`",
                          construct=f"existing entries {'additive' if pol else 'overwrite'} arm uses "
                                    f"{'augmented' if aug else 'plain'} assignment")
            aligned = _aligned(tsel[1], tval[1])
            if aligned is None:
                _undecided(ctx, f"{q}: unknown pairing in `{u(s)}`: {fmt(tsel)} with {fmt(tval)}")
                continue
            ctx.check("R2", aligned, mod, q, s,
                      "update of already stored entries pairs the k-th smallest matching storage position with the k-th "
                      "matching column of the (lexicographically sorted) unique coordinates; storage order is insertion "
                      "order, so the pairs are misaligned unless storage happens to be sorted "
                      "(add [5], add [3], then add [3],[5] with 30,50 -> get gives 50,30)",
                      construct="self._values[:, ib_unique] <- consolidated[:, a_in_b]",
                      facts={"target": fmt(tsel), "value": fmt(tval), "statement": u(s),
                             "failing_input": "a.add([[5]],[500]); a.add([[3]],[300]); a.add([[3],[5]],[30,50]); a.get([[3],[5]]) == [50,30]"})
    if n_dup == 0 and not any(_additive_polarity(pm, s, fn, "additive") is False and isinstance(s.value, ast.Subscript)
                              for s, t in defs):
        _undecided(ctx, f"{q}: overwrite consolidation not recognised")

    # --- content clause: whatever reaches storage is the duplicate-consolidated array --------------------
    def base_of(e: ast.expr):
        for _ in range(4):
            if isinstance(e, ast.Name) and e.id not in cons_names and len(it.assign_types.get(e.id, [])) == 1:
                e = it.assign_types[e.id][0][0].value
            else:
                break
        if isinstance(e, ast.Subscript) and isinstance(e.value, ast.Name):
            return e.value.id
        if isinstance(e, ast.Name):
            return e.id
        return None
    writes = [("appended to storage", appends["self._values"][0], appends["self._values"][0].value.args[0].elts[1])]
    for s, tg, tsel, tval, aug in it.stores:
        if u(tg.value) == "self._values":
            writes.append(("written to already stored entries", s, s.value))
    raw = {"values"} | {n for n, lst in it.assign_types.items() if n not in cons_names and any(
        isinstance(s_.value, ast.Call) and call_name(s_.value) in PRESERVING_FUNCS and s_.value.args and u(s_.value.args[0]) == "values"
        for s_, _t in lst)}
    for what, stmt, vexpr in writes:
        b = base_of(vexpr)
        if b is None or (b not in cons_names and b not in raw):
            _undecided(ctx, f"{q}: cannot tell which array is {what} in `{u(stmt)[:80]}`")
            continue
        pol = _additive_polarity(pm, stmt, fn, "additive")
        ctx.check("R5", b in cons_names, mod, q, stmt,
                  f"values {what} must be columns of the duplicate-consolidated array `{cons}` (sum of repeated coordinates in "
                  f"additive mode, last occurrence in overwrite mode); this takes them from the raw batch `{b}`: repetitions of a "
                  f"coordinate inside the batch are lost (only one occurrence reaches storage)",
                  construct=f"{what}: columns of {'consolidated' if b in cons_names else 'raw batch'} array"
                            + ("" if pol is None else f" ({'additive' if pol else 'overwrite'} arm)"),
                  facts={"source": b, "consolidated": sorted(cons_names)})


def _undecided(ctx: Ctx, msg: str) -> None:
    """An untypable downstream site is 'undecided' only if no upstream contradiction explains it."""
    if ctx.findings:
        ctx.note("not typed (downstream of a reported contradiction): " + msg)
        return
    raise Undecided(msg)


def _origin_names(fn: ast.FunctionDef, e: ast.expr) -> set[str]:
    """names reachable through one level of local single assignments"""
    out = set()
    for n in ast.walk(e):
        if isinstance(n, ast.Name):
            for st in walk_local(fn):
                if isinstance(st, ast.Assign) and any(isinstance(t, ast.Name) and t.id == n.id for t in st.targets):
                    out |= {m.id for m in ast.walk(st.value) if isinstance(m, ast.Name)}
    return out


def _aligned(sel_t, sel_v):
    """Are two ordered selections the same sequence?  True / False / None (unknown)."""
    if sel_t == sel_v:
        return True
    kinds = {sel_t[0] if isinstance(sel_t, tuple) else sel_t, sel_v[0] if isinstance(sel_v, tuple) else sel_v}
    if kinds == {"sortedset", "sub"}:
        return False  # positions sorted in one space vs. mask order of another space
    if isinstance(sel_t, tuple) and sel_t[0] == "sortedset" and isinstance(sel_v, tuple) and sel_v[0] == "sortedset":
        return False
    return None


def _check_overwrite_def(ctx, mod, q, it: Interp, pm, fn, s: ast.Assign, cons: str) -> None:
    """A definition of the consolidated values in the overwrite arm."""
    v = s.value
    if isinstance(v, ast.Name):
        # alias of an array built under another name (e.g. after inlining a helper): check that array's definitions
        for s2, _t in it.assign_types.get(v.id, []):
            if s2 is not s:
                _check_overwrite_def(ctx, mod, q, it, pm, fn, s2, cons)
        return
    while isinstance(v, ast.Call) and isinstance(v.func, ast.Attribute) and v.func.attr in PRESERVING_METHODS:
        v = v.func.value
    if isinstance(v, ast.Subscript):
        idx, _ = it.column_index(v)
        ti = it.ev(idx) if idx is not None else None
        if ti and ti[0] == "lastmap":
            ctx.check("R3", bool(ti[3]), mod, q, s,
                      "overwrite mode keeps the LAST occurrence of a repeated coordinate. Taking the last element of each group "
                      "of an argsort of the inverse map is the last occurrence only if the sort is stable "
                      "(np.argsort(..., kind='stable')); the default sort may reorder equal keys, so an arbitrary one of the "
                      "written values is kept", construct=f"last occurrence via argsort (stable={bool(ti[3])})",
                      facts={"index": fmt(ti)})
            return
        if ti and ti[0] == "map" and ti[1:] == ("U", "A"):
            # gather through the first-occurrence map: only valid without duplicates
            verdicts = []
            cur = s
            while cur is not fn and cur in pm:
                par = pm[cur]
                if isinstance(par, ast.If) and any(cur is x for x in par.body):
                    verdicts.append(_nodup_guard(par.test, it, "U"))
                cur = par
            if "yes" in verdicts:
                ok = True
            elif "related" in verdicts:
                raise Undecided(f"{q}: guard of `{u(s)}` mentions the unique counts but is not a recognised no-duplicates test")
            else:
                ok = False
            ctx.check("R3", ok, mod, q, s,
                      "overwrite mode gathers through the first-occurrence map; that is the last occurrence only if "
                      "there are no duplicates, so the gather must be guarded by a no-duplicates test "
                      "(np.all(counts == 1) | counts.max() == 1 | equal sizes)",
                      construct=f"first-occurrence gather {u(v)}", facts={"guards": verdicts})
            return
        if ti and ti[0] == "map":
            return  # R1 has reported the space contradiction
        raise Undecided(f"{q}: overwrite-arm definition `{u(s)}` not recognised")
    # allocation followed by column stores: checked at the stores
    if isinstance(v, ast.Call) and call_name(v) in ("zeros", "empty", "full"):
        return
    raise Undecided(f"{q}: overwrite-arm definition `{u(s)}` not recognised")


def _analyse_get(ctx: Ctx, mod, fn: ast.FunctionDef) -> None:
    q = "SparseNdArray.get"
    params = [a.arg for a in fn.args.args]
    if params[:2] != ["self", "coords"]:
        raise AnchorError(f"{q}: signature changed ({params})")

    def report(kind, ok, node, msg, facts):
        ctx.check(kind, ok, mod, q, node, msg, facts=facts)

    it = Interp(fn, report, attr_types={"self._values": ("arr", "S"), "self._coords": ("arr", "S")})
    # the request array: the local built from `coords`
    req = None
    for st in fn.body:
        if isinstance(st, ast.Assign) and len(st.targets) == 1 and isinstance(st.targets[0], ast.Name) \
                and "coords" in {n.id for n in ast.walk(st.value) if isinstance(n, ast.Name)}:
            req = st.targets[0].id
            break
    if req is None:
        raise AnchorError(f"{q}: request array built from `coords` not found")
    body = list(fn.body)
    it.env["coords"] = None
    # interpret, seeding the request array after its definition
    for st in body:
        it.stmt(st)
        if isinstance(st, ast.Assign) and isinstance(st.targets[0], ast.Name) and st.targets[0].id == req:
            it.env[req] = ("arr", "Q")
    calls = [c for c in ast.walk(fn) if isinstance(c, ast.Call) and call_name(c) == "intersect_sets"]
    if len(calls) != 1:
        raise AnchorError(f"{q}: expected one intersect_sets call")
    rets = [(s, t) for s, t in it.returns if s.value is not None]
    if len(rets) != 1:
        raise AnchorError(f"{q}: expected one return")
    rs, rt = rets[0]
    if rt is None:
        raise Undecided(f"{q}: cannot type the returned expression `{u(rs.value)}`")
    ok = rt == ("arr", "Q")
    ctx.check("R4", ok, mod, q, rs,
              f"get must return the stored values in the order of the requested coordinates; returned value is typed {fmt(rt)}",
              construct=f"return {u(rs.value)}", facts={"type": fmt(rt)})
    # the guard
    g = cfgmod.build(fn)
    raises = [n for n in walk_local(fn) if isinstance(n, ast.Raise)]
    pm = parent_map(fn)
    guard_ifs = [pm[r] for r in raises if isinstance(pm.get(r), ast.If) and any(r is x for x in pm[r].body)]
    good = []
    for iff in guard_ifs:
        t = it.ev(iff.test)
        if t and t[0] == "bool":
            kind, sp, key, pol = t[1]
            truth = t[2]
            # exists non-member:  any(~m)  |  not all(m)
            exists_non = (kind == "any" and pol is False and truth) or (kind == "all" and pol is True and not truth)
            if sp == "Q" and key.endswith("#a_in_b"):
                ctx.check("R4", exists_non, mod, q, iff,
                          "the error guard must fire when ANY requested coordinate is not a member "
                          "(np.any(np.logical_not(is_mem)) | not np.all(is_mem))",
                          construct=f"raise guard: {u(iff.test)}", facts={"test": u(iff.test)})
                if exists_non:
                    good.append(iff)
            elif key.endswith("#a_in_b"):
                ctx.check("R4", False, mod, q, iff,
                          f"membership mask tested by the guard lives on {fmt(sp)}, not on the requested coordinates",
                          construct=f"raise guard: {u(iff.test)}", facts={"test": u(iff.test)})
    if not guard_ifs or not any(isinstance(it.ev(i.test), tuple) for i in guard_ifs):
        if any("is_mem" in u(i.test) or "mem" in u(i.test) for i in guard_ifs):
            raise Undecided(f"{q}: membership guard present but its form is not recognised")
        ctx.check("R4", False, mod, q, fn, "get has no guard raising on coordinates that were never inserted",
                  construct="get: missing non-member guard")
        return
    if good:
        dom = all(g.dominates(g.node_for(i), g.node_for(rs)) for i in good[:1])
        ctx.check("R4", dom, mod, q, rs, "the non-member guard must dominate the read of the stored values",
                  construct="guard dominates return", facts={"guard": u(good[0].test)})


def _sweep(ctx: Ctx) -> None:
    """Thorough tier: the same inference on every np.unique index-map site of the repo.
    Contradictions are cross-reference notes, never findings (seeds are weaker there)."""
    n_sites = n_typed = n_constraints = 0
    contradictions = []
    for m in ctx.repo.modules("src/porepy"):
        for qn, fn in m.functions():
            has = [c for c in walk_local(fn) if isinstance(c, ast.Call) and call_name(c) == "unique"
                   and any(k.arg in ("return_index", "return_inverse") for k in c.keywords)]
            if not has:
                continue
            if m.rel == FILE and qn in ("SparseNdArray.add",):
                n_sites += len(has)
                continue
            n_sites += len(has)
            local = []

            def report(kind, ok, node, msg, facts, _l=local):
                _l.append((ok, node, msg))
            it = Interp(fn, report)
            try:
                it.run_body(fn.body)
            except RecursionError:
                continue
            n_typed += it.nuniq
            n_constraints += len(local)
            for ok, node, msg in local:
                if not ok:
                    contradictions.append(f"{m.rel}:{qn}: {msg}")
    ctx.note(f"sweep: {n_sites} np.unique(return_index/return_inverse) sites in src/porepy, {n_typed} typed "
             f"(last-axis / 1-d, tuple targets), {n_constraints} index-space constraints evaluated, "
             f"{len(contradictions)} contradiction(s)")
    for c in contradictions[:20]:
        ctx.note("sweep cross-reference (not a finding): " + c)
    ctx.sample({"rule": "sweep", "sites": n_sites, "typed": n_typed, "constraints": n_constraints,
                "contradictions": contradictions[:20]})


def run(ctx: Ctx) -> None:
    mod = ctx.repo.module(FILE)
    _check_intersect_shape(mod)
    scls = mod.cls("SparseNdArray")
    add = normalise(mod, mod.func("SparseNdArray.add"), cls=scls, exclude={"intersect_sets"})
    get = normalise(mod, mod.func("SparseNdArray.get"), cls=scls, exclude={"intersect_sets"})
    _analyse_add(ctx, mod, add)
    _analyse_get(ctx, mod, get)
    # storage is only written by __init__ and add
    cls = mod.cls("SparseNdArray")
    writers = set()
    for f in cls.body:
        if isinstance(f, ast.FunctionDef):
            for n in walk_local(f):
                if isinstance(n, (ast.Assign, ast.AugAssign, ast.AnnAssign)):
                    tgts = n.targets if isinstance(n, ast.Assign) else [n.target]
                    for t in tgts:
                        base = t.value if isinstance(t, ast.Subscript) else t
                        if dotted(base) in ("self._values", "self._coords"):
                            writers.add(f.name)
    # private helpers of add (called through self.<name> from add only) count as part of add
    calls_of = {f.name: {c.func.attr for c in walk_local(f) if isinstance(c, ast.Call) and isinstance(c.func, ast.Attribute)
                         and isinstance(c.func.value, ast.Name) and c.func.value.id == "self"}
                for f in cls.body if isinstance(f, ast.FunctionDef)}
    helpers = set()
    todo = ["add"]
    while todo:
        n = todo.pop()
        for c in calls_of.get(n, ()):
            if c in calls_of and c not in helpers and c not in ("add", "get"):
                helpers.add(c)
                todo.append(c)
    helpers = {h for h in helpers if all(h not in cs or n in helpers | {"add"} for n, cs in calls_of.items())}
    writers -= helpers
    ctx.check("R3", writers <= {"__init__", "add"}, mod, "SparseNdArray", cls,
              f"storage arrays are written only by __init__ and add; writers found: {sorted(writers)}",
              construct="writers of _coords/_values", facts={"writers": sorted(writers)})
    ctx.sample({"rule": "types", "spaces": {"A": "columns of the batch passed to add", "U": "unique columns of the batch",
                                            "S": "stored columns", "Q": "columns requested from get"}})
    if ctx.tier == "thorough":
        _sweep(ctx)


def _m(name, old, new, rule, control=False, count=1):
    return dict(name=name, file=FILE, old=old, new=new, rule=rule, control=control, count=count)


MUTANTS = [
    _m("revert-fix-D5-all_2_unique", "unique_values = values[:, unique_2_all]", "unique_values = values[:, all_2_unique]",
       "R1", control=True),
    _m("bincount-wrong-map", "np.bincount(all_2_unique, weights=values[i])", "np.bincount(unique_2_all, weights=values[i])", "R1"),
    _m("where-on-wrong-map", "values[:, np.where(all_2_unique == i)[0][-1]]", "values[:, np.where(unique_2_all == i)[0][-1]]", "R1"),
    _m("first-duplicate-wins", "np.where(all_2_unique == i)[0][-1]", "np.where(all_2_unique == i)[0][0]", "R3"),
    _m("nodup-guard-removed", "            if np.all(counts == 1):", "            if True:", "R3"),
    _m("append-members-values", "            (self._values, unique_values[:, np.logical_not(is_mem)])",
       "            (self._values, unique_values[:, is_mem])", "R3"),
    _m("append-raw-values", "            (self._values, unique_values[:, np.logical_not(is_mem)])",
       "            (self._values, values[:, np.logical_not(is_mem)])", "R1"),
    _m("append-raw-coords", "new_coord = unique_coords[:, np.logical_not(is_mem)]",
       "new_coord = coord_array[:, np.logical_not(is_mem)]", "R1"),
    _m("add-intersect-args-swapped", "intersect_sets(unique_coords, self._coords)", "intersect_sets(self._coords, unique_coords)", "R1"),
    _m("return-inverse-map", "return unique_2_all[np.logical_not(is_mem)]", "return all_2_unique[np.logical_not(is_mem)]", "R1"),
    _m("additive-consolidation-overwrites", "                    np.bincount(all_2_unique, weights=values[i])\n",
       "                    values[i][unique_2_all]\n", "R3"),
    dict(name="revert-fix-D5b-sorted-storage-index", rule="R2", control=True, file=FILE, edits=[
        dict(file=FILE, old="_, _, is_mem, ind_list = intersect_sets(unique_coords, self._coords)",
             new="_, ind, is_mem, _ = intersect_sets(unique_coords, self._coords)"),
        dict(file=FILE, old="        ind = np.array([i[0] for i in ind_list if len(i) > 0], dtype=int)\n", new=""),
    ]),
    _m("storage-index-unfiltered-sorted", "ind = np.array([i[0] for i in ind_list if len(i) > 0], dtype=int)",
       "ind = np.sort(np.array([i[0] for i in ind_list if len(i) > 0], dtype=int))", "R2"),
    _m("additive-arm-overwrites-existing", "            self._values[:, ind] += unique_values[:, is_mem]", "            self._values[:, ind] = unique_values[:, is_mem]", "R3"),
    _m("overwrite-arm-adds-to-existing", "            self._values[:, ind] = unique_values[:, is_mem]", "            self._values[:, ind] += unique_values[:, is_mem]", "R3"),
    _m("duplicate-loop-over-batch", "for i in range(unique_coords.shape[1]):", "for i in range(coord_array.shape[1]):", "R1"),
    _m("seed-additive-update-first-occurrence-only", "            self._values[:, ind] += unique_values[:, is_mem]",
       "            self._values[:, ind] += values[:, unique_2_all[is_mem]]", "R5"),
    _m("overwrite-update-first-occurrence", "            self._values[:, ind] = unique_values[:, is_mem]",
       "            self._values[:, ind] = values[:, unique_2_all[is_mem]]", "R5"),
    _m("append-first-occurrence-raw", "            (self._values, unique_values[:, np.logical_not(is_mem)])",
       "            (self._values, values[:, unique_2_all[np.logical_not(is_mem)]])", "R5"),
    dict(name="seed-last-occurrence-unstable-argsort", rule="R3", file=FILE, edits=[dict(file=FILE,
         old="                unique_values = np.zeros(\n                    (self._values.shape[0], counts.size), dtype=float\n                )\n"
             "                for i in range(unique_coords.shape[1]):\n"
             "                    unique_values[:, i] = values[:, np.where(all_2_unique == i)[0][-1]]\n",
         new="                sort_ind = np.argsort(all_2_unique)\n                last_occurrence = sort_ind[np.cumsum(counts) - 1]\n"
             "                unique_values = values[:, last_occurrence].astype(float)\n")]),
    _m("get-sorted-positions", "_, _, is_mem, ind_list = intersect_sets(coord_array, self._coords)",
       "_, ind_list, is_mem, _ = intersect_sets(coord_array, self._coords)", "R4"),
    _m("get-guard-all-nonmembers", "if np.any(np.logical_not(is_mem)):", "if np.all(np.logical_not(is_mem)):", "R4"),
    _m("get-guard-removed", "        if np.any(np.logical_not(is_mem)):\n            raise ValueError(\"Inquiry on unassigned coordinate.\")\n",
       "", "R4"),
    _m("get-intersect-args-swapped", "intersect_sets(coord_array, self._coords)", "intersect_sets(self._coords, coord_array)", "R4"),
]
