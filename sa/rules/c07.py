"""C07 - Schur complement reduction reproduces the full solution.

R1 formula identity   The right-hand sides bound in assemble_schur_complement_system (block matrices, S, rhs_S, the
                      tuple stored in _Schur_complement) and in expand_schur_complement_solution (unpack by position,
                      x_s, X) are copied out of the AST into NON-COMMUTATIVE sympy terms.  With the only axiom
                      inv(A_ss)*A_ss = A_ss*inv(A_ss) = I it is verified that the expanded X satisfies
                      A_s X = b_s identically and A_p X = b_p whenever S x_p = rhs_S; the reduced unknown is prolonged
                      with the transposed projection of the *primary* variables, the secondary one with that of their
                      complement.
R2 lock-step          (matrix, vector) blocks are appended pairwise with identical row selectors; in the primary loop the
                      filtered branch sends rows idx to the primary pair and the grid complement to the secondary pair,
                      the unfiltered branch the whole equation to the primary pair; the secondary loop the whole equation
                      to the secondary pair; each list is stacked once; every equation is primary or secondary.
R3 order insensitivity lists made from sets are used only for membership tests or handed to projection_to (which
                      sorts); both loops iterate self._equations.
R4 permutation triple  default_schur_complement_inverter hands the triple produced (or cached under keys) to the inverter
                      in producer position order; producer roles (rows/cols/sizes, from the bipartite node encoding) and
                      consumer roles (from the slicer algebra  G(r) A G(c)^T ) agree position by position; the
                      un-permutation is G(c)^T B G(r).
"""
from __future__ import annotations

import ast
from typing import Optional

from ..core.astutil import (u, walk_local, call_name, kwarg, methods, parent_map, subst, body_nodoc,
                            inline_locals, enclosing_stmt, names_in)
from ..core.loader import AnchorError, Undecided
from ..core.report import Ctx
from .c06 import set_typed, classify_set_use, _norm_sel, _stores, _params, _block, _is_self_attr, _strip_keys

ES = "src/porepy/numerics/ad/equation_system.py"
MO = "src/porepy/numerics/linalg/matrix_operations.py"
CLS = "EquationSystem"
ASM = "assemble_schur_complement_system"
EXP = "expand_schur_complement_solution"
INV = "default_schur_complement_inverter"
GEN = "generate_permutation_to_block_diag_matrix"
APPLY = "invert_permuted_block_diag_matrix"

META = {
    "explanation": (
        "Extracted-formula identity for the Schur complement. Decided: (R1) straight-line abstract interpretation of the "
        "top-level assignments of assemble_schur_complement_system and expand_schur_complement_solution over "
        "non-commutative sympy symbols (A_p, A_s = stacked primary/secondary rows; b_p, b_s; R_P, R_Q = projections, "
        "their transposes; INV = inverter(A_ss)); the tuple stored in _Schur_complement is matched with its unpacking BY "
        "POSITION; sympy.expand gives a normal form (sum of words), the axiom INV*A_ss = A_ss*INV = I is applied as a word "
        "rewrite, and the residuals A_s*X - b_s and A_p*X - b_p - (S*x_p - rhs_S) must vanish identically. No orthogonality "
        "of the projections is needed for this; instead it is checked that the primary prolongation is the transpose of "
        "projection_to(<primary_variables argument>) and the secondary one that of its set complement. (R2) pairwise "
        "lock-step of the four row-block lists with identical selectors, the complement selector coming from "
        "_gridbased_equation_complement(np.delete of the same index set), completeness of the primary/secondary split of "
        "self._equations, one stacking per list. (R3) order-insensitivity of every list(set(...)). (R4) position/role "
        "agreement of the permutation triple between generate_permutation_to_block_diag_matrix, the cache dictionary and "
        "invert_permuted_block_diag_matrix, by a small gather/scatter algebra of ArraySlicer. NOT decided: invertibility and "
        "conditioning of A_ss, numerical agreement, that the cached permutation (computed once from the first sparsity "
        "pattern) is still valid for a later split or a later pattern (history hazard, noted), duplicate primary variables."),
    "rule_text": "one obligation per (identity | role clause | append pair | selector clause | stacking | list(set) use | triple position | role)",
    "trusted_base": ["python ast", "sa.core", "sympy.expand on non-commutative symbols (term normaliser only)",
                     "scipy: sparse `*` is the matrix product, sps.find returns (rows, cols, values)",
                     "ArraySlicer(domain_indices=i) @ M == M[i] (gather), ArraySlicer(range_indices=i) is its transpose (C36)"],
    "assumptions": ["inverter(A) returns the exact two-sided inverse of A", "assemble() returns (Jacobian rows, -residual) for one equation with all columns (C06)",
                    "projection_to sorts and does not permute (C05)", "np.delete(all_idx, idx) with all_idx = arange(n) is the complement of idx"],
    "accepted_forms": ["local aliases of self attributes (cache = self._secondary_block_permutation, data = self._Schur_complement) are substituted first",
                       "block loops guarded by `if name in X:` or `if name not in X: continue`; filtered/unfiltered branches in either polarity",
                       "stacking / column splitting inline or in one private (static) helper whose straight-line body is interpreted with the arguments bound",
                       "unpacking of the stored tuple by position, by index, or through an alias; .T or .transpose(); * or @; any algebraically equal regrouping",
                       "cache writes by item assignment or update({...}) / update(k=v); cache test in either polarity with the arms swapped"],
    "technique": "branch-free abstract interpretation to non-commutative polynomials (sympy.expand + one inverse axiom as word rewriting); lock-step/shape matching; gather/scatter transpose algebra for the permutation triple",
}
MIN_INSTANCES = {"R1": 6, "R2": 20, "R3": 3, "R4": 12}


# ----------------------------------------------------------------------------------------------
# non-commutative algebra (sympy as term normaliser)
# ----------------------------------------------------------------------------------------------

class NC:
    def __init__(self) -> None:
        import sympy
        self.sp = sympy
        self.rules: list[tuple[tuple[str, ...], tuple[str, ...]]] = []

    def sym(self, name: str):
        return self.sp.Symbol(name, commutative=False)

    def words(self, expr) -> dict[tuple[str, ...], object]:
        e = self.sp.expand(expr)
        out: dict[tuple[str, ...], object] = {}
        for term in self.sp.Add.make_args(e):
            c, nc = term.args_cnc()
            coeff = self.sp.Mul(*c) if c else self.sp.Integer(1)
            if not coeff.is_number:
                raise Undecided(f"non-numeric commutative factor {coeff} in extracted formula")
            word: list[str] = []
            for f in nc:
                if f.is_Pow and f.exp.is_Integer and f.exp > 0 and f.base.is_Symbol:
                    word += [f.base.name] * int(f.exp)
                elif f.is_Symbol:
                    word.append(f.name)
                else:
                    raise Undecided(f"unsupported factor {f} in extracted formula")
            word_t = self.rewrite(tuple(word))
            out[word_t] = out.get(word_t, 0) + coeff
        return {w: c for w, c in out.items() if c != 0}

    def rewrite(self, w: tuple[str, ...]) -> tuple[str, ...]:
        changed = True
        while changed:
            changed = False
            for pat, rep in self.rules:
                n = len(pat)
                for i in range(len(w) - n + 1):
                    if w[i:i + n] == pat:
                        w = w[:i] + rep + w[i + n:]
                        changed = True
                        break
        return w

    @staticmethod
    def show(words: dict) -> str:
        if not words:
            return "0"
        return " + ".join(f"({c})*" + ("*".join(w) if w else "1") for w, c in sorted(words.items(), key=lambda t: t[0]))


class SymEval:
    """Abstract interpretation of straight-line assignments over NC polynomials."""

    def __init__(self, nc: NC, fn: ast.FunctionDef, where: str):
        self.nc, self.fn, self.where = nc, fn, where
        self.env: dict[str, object] = {}
        self.transposed: dict[str, str] = {}  # symbol name -> name of its transpose

    def atom(self, name: str):
        return self.nc.sym(name)

    def T(self, val):
        if getattr(val, "is_Symbol", False):
            n = val.name
            t = self.transposed.get(n)
            if t is None:
                t = n[:-2] if n.endswith("^T") else n + "^T"
                self.transposed[n] = t
                self.transposed[t] = n
            return self.nc.sym(t)
        raise Undecided(f"{self.where}: transpose of a compound expression")

    def ev(self, e: ast.expr):
        sp = self.nc.sp
        if isinstance(e, ast.Name):
            if e.id not in self.env:
                raise Undecided(f"{self.where}: '{e.id}' has no straight-line symbolic value")
            return self.env[e.id]
        if isinstance(e, ast.Constant) and isinstance(e.value, (int, float)) and not isinstance(e.value, bool):
            return sp.nsimplify(e.value)
        if isinstance(e, ast.UnaryOp) and isinstance(e.op, (ast.USub, ast.UAdd)):
            v = self.ev(e.operand)
            return -v if isinstance(e.op, ast.USub) else v
        if isinstance(e, ast.BinOp):
            if isinstance(e.op, ast.Add):
                return self.ev(e.left) + self.ev(e.right)
            if isinstance(e.op, ast.Sub):
                return self.ev(e.left) - self.ev(e.right)
            if isinstance(e.op, (ast.Mult, ast.MatMult)):
                return self.ev(e.left) * self.ev(e.right)
            raise Undecided(f"{self.where}: operator {type(e.op).__name__} in formula {u(e)[:60]}")
        if isinstance(e, ast.Call) and isinstance(e.func, ast.Attribute) and e.func.attr == "transpose" and not e.args and not e.keywords:
            return self.T(self.ev(e.func.value))
        if isinstance(e, ast.Attribute) and e.attr == "T":
            return self.T(self.ev(e.value))
        if isinstance(e, ast.Call) and isinstance(e.func, ast.Attribute) and e.func.attr in ("tocsr", "tocsc", "copy", "toarray") and not e.args:
            return self.ev(e.func.value)
        if isinstance(e, ast.Call) and isinstance(e.func, ast.Attribute) and e.func.attr == "dot" and len(e.args) == 1:
            return self.ev(e.func.value) * self.ev(e.args[0])
        raise Undecided(f"{self.where}: cannot translate {u(e)[:70]}")


def dealias(fn: ast.FunctionDef) -> ast.FunctionDef:
    """Copy of fn in which every local that is bound exactly once to a plain `self.<attr>` (an alias of mutable state, e.g.
    `cache = self._secondary_block_permutation`) is replaced by that attribute.  Behaviour preserving: the attribute is
    never re-bound between the alias definition and its uses in the functions this is applied to (checked: no store to
    self.<attr> after the alias)."""
    import copy
    fn2 = copy.deepcopy(fn)
    aliases: dict[str, ast.expr] = {}
    for s in body_nodoc(fn2):
        if isinstance(s, ast.Assign) and len(s.targets) == 1 and isinstance(s.targets[0], ast.Name) and isinstance(s.value, ast.Attribute) \
                and isinstance(s.value.value, ast.Name) and s.value.value.id == "self" and len(_stores(fn2, s.targets[0].id)) == 1:
            attr = s.value.attr
            rebound = [x for x in walk_local(fn2) if isinstance(x, (ast.Assign, ast.AnnAssign, ast.AugAssign)) and x.lineno > s.lineno
                       and any(_is_self_attr(t, attr) for t in (x.targets if isinstance(x, ast.Assign) else [x.target]))]
            if not rebound:
                aliases[s.targets[0].id] = s.value
    if not aliases:
        return fn

    class T(ast.NodeTransformer):
        def visit_Name(self, n: ast.Name):
            if n.id in aliases and isinstance(n.ctx, ast.Load):
                return ast.copy_location(copy.deepcopy(aliases[n.id]), n)
            return n

    fn2 = T().visit(fn2)
    fn2.body = [s for s in fn2.body if not (isinstance(s, ast.Assign) and len(s.targets) == 1 and isinstance(s.targets[0], ast.Name)
                                            and s.targets[0].id in aliases)]
    ast.fix_missing_locations(fn2)
    return fn2


# ----------------------------------------------------------------------------------------------
# R2 (first: it determines which lists are primary / secondary)
# ----------------------------------------------------------------------------------------------

class Lists:
    A_prim = b_prim = A_sec = b_sec = None  # type: Optional[str]
    D = None          # name of the dict returned by _parse_equations(primary_equations)
    primary_param = None


def _empty_list(e) -> bool:
    return e is not None and ((isinstance(e, ast.List) and not e.elts) or (isinstance(e, ast.Call) and u(e.func) == "list" and not e.args and not e.keywords))


def _check_lockstep(ctx: Ctx, rel: str, fn: ast.FunctionDef, meths: dict) -> Lists:
    q = f"{CLS}.{ASM}"
    pm = parent_map(fn)
    params = _params(fn)
    top = body_nodoc(fn)
    out = Lists()
    # parsed primary rows D and complement C
    D = C = None
    for s in top:
        if isinstance(s, (ast.Assign, ast.AnnAssign)) and isinstance(s.value, ast.Call) and isinstance(s.value.func, ast.Attribute) \
                and u(s.value.func.value) == "self":
            tg = s.targets[0] if isinstance(s, ast.Assign) else s.target
            if s.value.func.attr == "_parse_equations" and isinstance(tg, ast.Name):
                a = s.value.args[0] if s.value.args else None
                if not (isinstance(a, ast.Name) and a.id in params):
                    raise Undecided(f"{q}: _parse_equations is not applied to an argument")
                D, out.primary_param = tg.id, a.id
            if s.value.func.attr == "_gridbased_equation_complement" and isinstance(tg, ast.Name):
                C = (tg.id, u(s.value.args[0]) if s.value.args else None)
    if D is None or C is None:
        raise AnchorError(f"{q}: parsed primary rows / grid complement not found")
    out.D = D
    ctx.check("R2", C[1] == D, rel, q, fn, "the excluded rows are the grid complement of the SAME parsed primary rows",
              construct=f"{C[0]} = _gridbased_equation_complement({C[1]})")
    loops = [s for s in top if isinstance(s, ast.For)]
    loops = [l for l in loops if any(isinstance(c, ast.Call) and isinstance(c.func, ast.Attribute) and c.func.attr == "append" for c in walk_local(l))]
    if len(loops) != 2:
        raise Undecided(f"{q}: expected two top-level loops appending row blocks, found {len(loops)}")

    def guard_role(loop: ast.For) -> tuple[str, ast.If]:
        body_ = [s for s in loop.body if not (isinstance(s, ast.Expr) and isinstance(s.value, ast.Constant))]
        g0 = body_[0] if body_ else None
        if isinstance(g0, ast.If) and len(g0.body) == 1 and isinstance(g0.body[0], ast.Continue) and not g0.orelse and len(body_) > 1 \
                and isinstance(g0.test, ast.Compare) and len(g0.test.ops) == 1 and isinstance(g0.test.ops[0], (ast.In, ast.NotIn)):
            # `if <not selected>: continue` followed by the block: same as `if <selected>: <block>`
            flipped = ast.Compare(left=g0.test.left, ops=[ast.NotIn() if isinstance(g0.test.ops[0], ast.In) else ast.In()],
                                  comparators=g0.test.comparators)
            synth = ast.If(test=flipped, body=body_[1:], orelse=[])
            ast.copy_location(synth, g0)
            ast.copy_location(flipped, g0.test)
            ifs = [synth]
        else:
            ifs = [s for s in loop.body if isinstance(s, ast.If)]
            if len(ifs) != 1 or len([s for s in loop.body if not isinstance(s, (ast.If, ast.Expr))]) != 0:
                raise Undecided(f"{q}: loop body is not a single guarded block")
        t = ifs[0].test
        if not (isinstance(t, ast.Compare) and len(t.ops) == 1 and isinstance(t.ops[0], (ast.In, ast.NotIn)) and u(t.left) == u(loop.target)):
            raise Undecided(f"{q}: loop guard is not a membership test of the loop variable: {u(t)}")
        x = inline_locals(fn, t.comparators[0], stop=[D])
        neg = isinstance(t.ops[0], ast.NotIn)
        b = _strip_keys(x)
        role = None
        if isinstance(b, ast.Name) and b.id == D:
            role = "primary"
        elif isinstance(b, ast.Call) and isinstance(b.func, ast.Attribute) and b.func.attr == "difference" and len(b.args) == 1:
            l, r = _strip_keys(b.func.value), _strip_keys(b.args[0])
            def unset(z):
                return _strip_keys(z.args[0]) if isinstance(z, ast.Call) and call_name(z) in ("set", "frozenset") and z.args else z
            l, r = unset(l), unset(r)
            if _is_self_attr(l, "_equations") and isinstance(r, ast.Name) and r.id == D:
                role = "secondary"
        if role is None:
            raise Undecided(f"{q}: cannot classify loop guard set {u(x)[:80]}")
        if neg:
            role = "secondary" if role == "primary" else "primary"
        return role, ifs[0]

    roles = {}
    for l in loops:
        r, iff = guard_role(l)
        roles.setdefault(r, []).append((l, iff))
    ok_split = sorted(roles) == ["primary", "secondary"] and all(len(v) == 1 for v in roles.values())
    ctx.check("R2", ok_split, rel, q, loops[0],
              "one loop handles exactly the primary equations and one exactly their complement in self._equations "
              "(every equation's rows enter the system once)", construct=f"loop roles {sorted((k, len(v)) for k, v in roles.items())}")
    if not ok_split:
        return out

    def analyse(loop: ast.For, iff: ast.If):
        """-> (M, V, list of blocks: {guard, appends:[(list, kind, sel_text)]})"""
        asm = [s for s in iff.body if isinstance(s, ast.Assign) and isinstance(s.value, ast.Call) and isinstance(s.value.func, ast.Attribute)
               and s.value.func.attr == "assemble" and u(s.value.func.value) == "self"]
        if len(asm) != 1 or not (isinstance(asm[0].targets[0], ast.Tuple) and len(asm[0].targets[0].elts) == 2):
            raise Undecided(f"{q}: loop does not assemble one equation into (matrix, rhs)")
        call = asm[0].value
        M, V = (u(x) for x in asm[0].targets[0].elts)
        eqs = kwarg(call, "equations") or (call.args[1] if len(call.args) > 1 else None)
        st = kwarg(call, "state") or (call.args[3] if len(call.args) > 3 else None)
        var = kwarg(call, "variables") or (call.args[2] if len(call.args) > 2 else None)
        ej = kwarg(call, "evaluate_jacobian") or (call.args[0] if call.args else None)
        ok = (isinstance(eqs, ast.List) and len(eqs.elts) == 1 and u(eqs.elts[0]) == u(loop.target) and var is None
              and (ej is None or (isinstance(ej, ast.Constant) and ej.value is True))
              and st is not None and u(st) in params)
        ctx.check("R2", ok, rel, q, call,
                  "each block is assemble(equations=[<loop equation>], state=<state argument>) with all columns "
                  "(no variables= restriction) - the block matrices are later cut by the two prolongations",
                  construct=u(call))
        blocks = {}
        for c in walk_local(iff):
            if isinstance(c, ast.Call) and isinstance(c.func, ast.Attribute) and c.func.attr == "append" and isinstance(c.func.value, ast.Name) and len(c.args) == 1:
                stmt = enclosing_stmt(pm, c)
                b = _block(pm, stmt)
                env = {}
                for s in b:
                    if s is stmt:
                        break
                    if isinstance(s, ast.Assign) and len(s.targets) == 1 and isinstance(s.targets[0], ast.Name):
                        env[s.targets[0].id] = subst(s.value, env)
                base, sel = _norm_sel(subst(c.args[0], {k: v for k, v in env.items() if k not in (M, V)}))
                kind = "M" if u(base) == M else ("V" if u(base) == V else None)
                if kind is None:
                    raise Undecided(f"{q}: appended block {u(c.args[0])} is derived neither from {M} nor from {V}")
                # resolve selector names to their defining lookups D[name] / C[name]
                sel_res = None
                if sel is not None:
                    sr = subst(sel, env)
                    if isinstance(sr, ast.Name):
                        v = [s for s in walk_local(iff) if isinstance(s, ast.Assign) and u(s.targets[0]) == sr.id]
                        if len(v) == 1:
                            sr = v[0].value
                    sel_res = u(sr)
                d = blocks.setdefault(id(b), {"block": b, "stmt": stmt, "appends": []})
                d["appends"].append((c.func.value.id, kind, sel_res, c))
        return M, V, list(blocks.values())

    pairing: dict[str, str] = {}

    def pair_block(d: dict, tag: str) -> dict[Optional[str], tuple[str, str]]:
        """selector -> (matrix list, vector list); records findings for unpaired appends."""
        by_sel: dict[Optional[str], dict[str, list]] = {}
        for L, kind, sel, c in d["appends"]:
            by_sel.setdefault(sel, {"M": [], "V": []})[kind].append((L, c))
        res = {}
        for sel, g in by_sel.items():
            ok = len(g["M"]) == 1 and len(g["V"]) == 1
            node = (g["M"] + g["V"])[0][1]
            ctx.check("R2", ok, rel, q, node,
                      f"[{tag}] rows selected by `{sel}` must be appended once to a matrix list and once to its rhs list "
                      f"(matrix: {[x[0] for x in g['M']]}, rhs: {[x[0] for x in g['V']]})",
                      construct=f"[{tag}] selector {sel}: matrix->{sorted(x[0] for x in g['M'])} rhs->{sorted(x[0] for x in g['V'])}",
                      desc=f"[{tag}] rows `{sel}`: one matrix append + one rhs append with the same selector")
            if ok:
                la, lb = g["M"][0][0], g["V"][0][0]
                prev = pairing.get(la)
                ctx.check("R2", prev in (None, lb) and (lb not in pairing.values() or prev == lb), rel, q, node,
                          f"[{tag}] matrix list {la} is paired with rhs list {lb} here but with {prev} elsewhere",
                          construct=f"[{tag}] pair ({la},{lb}) vs {prev}", desc=f"[{tag}] list pairing ({la},{lb}) is consistent")
                pairing.setdefault(la, lb)
                res[sel] = (la, lb)
        return res

    # ---- primary loop ----
    ploop, piff = roles["primary"][0]
    M, V, pblocks = analyse(ploop, piff)
    name = u(ploop.target)
    want_p, want_c = f"{D}[{name}]", f"{C[0]}[{name}]"
    prim_pair = sec_pair = None
    seen_filtered = seen_whole = False
    for d in pblocks:
        sels = pair_block(d, "primary loop")
        par = pm[d["stmt"]]
        if None in sels and len(sels) == 1:
            seen_whole = True
            # unfiltered: guarded by `idx is None` side
            pp_ = sels[None]
            prim_pair = prim_pair or pp_
            ctx.check("R2", pp_ == prim_pair, rel, q, d["stmt"], "unfiltered primary equations go whole to the primary pair",
                      construct=f"[primary loop] whole -> {pp_}")
            g = _none_guard(par, d["stmt"], want_p, piff, fn)
            ctx.check("R2", g is False, rel, q, d["stmt"], f"the whole-equation branch is taken exactly when {want_p} is None",
                      construct=f"[primary loop] whole-branch guard given={g}")
        else:
            seen_filtered = True
            keys = set(sels)
            ok = keys == {want_p, want_c}
            ctx.check("R2", ok, rel, q, d["stmt"],
                      f"filtered branch must append rows {want_p} (primary) and the complement {want_c} (secondary): no row is lost or duplicated",
                      construct=f"[primary loop] filtered selectors {sorted(map(str, keys))}")
            if ok:
                if prim_pair is None:
                    prim_pair = sels[want_p]
                ctx.check("R2", sels[want_p] == prim_pair, rel, q, d["stmt"], "primary rows go to the primary pair",
                          construct=f"[primary loop] {want_p} -> {sels[want_p]}")
                sec_pair = sels[want_c]
                ctx.check("R2", sec_pair != prim_pair, rel, q, d["stmt"], "excluded rows go to the secondary pair, not the primary one",
                          construct=f"[primary loop] {want_c} -> {sec_pair}")
                g = _none_guard(par, d["stmt"], want_p, piff, fn)
                ctx.check("R2", g is True, rel, q, d["stmt"], f"the filtered branch is taken exactly when {want_p} is not None",
                          construct=f"[primary loop] filtered-branch guard given={g}")
    if not (seen_filtered and seen_whole):
        ctx.check("R2", False, rel, q, ploop, "primary loop needs a filtered and an unfiltered branch",
                  construct=f"[primary loop] branches filtered={seen_filtered} whole={seen_whole}")
    # ---- secondary loop ----
    sloop, siff = roles["secondary"][0]
    _, _, sblocks = analyse(sloop, siff)
    for d in sblocks:
        sels = pair_block(d, "secondary loop")
        ok = set(sels) == {None}
        ctx.check("R2", ok, rel, q, d["stmt"], "secondary equations are appended whole", construct=f"[secondary loop] selectors {sorted(map(str, sels))}")
        if ok:
            if sec_pair is None:
                sec_pair = sels[None]
            ctx.check("R2", sels[None] == sec_pair and sels[None] != prim_pair, rel, q, d["stmt"],
                      "secondary equations go to the same pair as the excluded primary rows",
                      construct=f"[secondary loop] whole -> {sels[None]} (secondary pair {sec_pair})")
    if prim_pair is None or sec_pair is None:
        raise Undecided(f"{q}: could not identify the primary / secondary list pairs")
    out.A_prim, out.b_prim = prim_pair
    out.A_sec, out.b_sec = sec_pair
    # lists start empty, once
    for L in (out.A_prim, out.b_prim, out.A_sec, out.b_sec):
        st = _stores(fn, L)
        ok = len(st) == 1 and st[0] in top and _empty_list(getattr(st[0], "value", None)) and top.index(st[0]) < top.index(loops[0])
        ctx.check("R2", ok, rel, q, st[0] if st else fn, f"{L} starts empty before the loops", construct=f"init {L}")
    # complement helper
    comp = meths.get("_gridbased_equation_complement")
    if comp is None:
        raise AnchorError(f"{ES}:{CLS}._gridbased_equation_complement not found")
    dels = [c for c in walk_local(comp) if isinstance(c, ast.Call) and call_name(c) == "delete"]
    if len(dels) != 1 or len(dels[0].args) < 2:
        raise Undecided(f"{CLS}._gridbased_equation_complement: complement is not np.delete(all, idx)")
    cloop = [n for n in walk_local(comp) if isinstance(n, ast.For)]
    idxname = u(cloop[0].target.elts[1]) if cloop and isinstance(cloop[0].target, ast.Tuple) and len(cloop[0].target.elts) == 2 else None
    allv = inline_locals(comp, dels[0].args[0])
    ok = u(dels[0].args[1]) == idxname and isinstance(allv, ast.Call) and call_name(allv) in ("unique", "arange", "sort")
    ctx.check("R2", ok, rel, f"{CLS}._gridbased_equation_complement", dels[0],
              "complement rows = np.delete(<all row indices of the equation, sorted>, <the filtered indices of the same equation>)",
              construct=f"delete({u(allv)[:60]}, {u(dels[0].args[1])})")
    return out


def _none_guard(par: ast.AST, stmt: ast.stmt, want: str, stop: ast.AST, fn: ast.AST) -> Optional[bool]:
    """True if stmt's block is the `<x> is not None` side with x == want (after resolving the local), False for the
    `is None` side, None if not so guarded."""
    if not isinstance(par, ast.If):
        return None
    t = par.test
    if not (isinstance(t, ast.Compare) and len(t.ops) == 1 and u(t.comparators[0]) == "None" and isinstance(t.ops[0], (ast.Is, ast.IsNot))):
        return None
    x = t.left
    if isinstance(x, ast.Name):
        v = [s for s in walk_local(stop) if isinstance(s, ast.Assign) and u(s.targets[0]) == x.id]
        if len(v) == 1:
            x = v[0].value
    if u(x) != want:
        return None
    pos = isinstance(t.ops[0], ast.IsNot)
    return pos if any(s is stmt for s in par.body) else (not pos)


# ----------------------------------------------------------------------------------------------
# R1 identity
# ----------------------------------------------------------------------------------------------

def _check_identity(ctx: Ctx, rel: str, fa: ast.FunctionDef, fe: ast.FunctionDef, L: Lists, meths_all: dict) -> None:
    qa, qe = f"{CLS}.{ASM}", f"{CLS}.{EXP}"
    nc = NC()
    pa = _params(fa)
    # the inverter parameter: defaulted to self.default_schur_complement_inverter
    inv_param = None
    for s in body_nodoc(fa):
        if isinstance(s, ast.If) and isinstance(s.test, ast.Compare) and isinstance(s.test.ops[0], ast.Is) and u(s.test.comparators[0]) == "None" \
                and len(s.body) == 1 and isinstance(s.body[0], ast.Assign) and u(s.body[0].value) == f"self.{INV}" \
                and u(s.body[0].targets[0]) == u(s.test.left) and u(s.test.left) in pa:
            inv_param = u(s.test.left)
    if inv_param is None:
        raise AnchorError(f"{qa}: no parameter defaulted to self.{INV}")
    ev = SymEval(nc, fa, qa)
    proj_of: dict[str, ast.expr] = {}   # projection symbol -> argument expression
    list_atoms = {L.A_prim: "A_p", L.b_prim: "b_p", L.A_sec: "A_s", L.b_sec: "b_s"}
    stacked: dict[str, int] = {}
    state: dict = {"packed": None, "ret": None, "inv_words": None}

    class ListRef:
        def __init__(self, name: str):
            self.name = name

    for lst in list_atoms:
        ev.env[lst] = ListRef(lst)

    def assign_value(e_: SymEval, v: ast.expr, s: ast.stmt, depth: int):
        """Symbolic value of one right-hand side (may be a python list for tuple-valued helper calls)."""
        if isinstance(v, ast.Tuple):
            return [assign_value(e_, x, s, depth) for x in v.elts]
        if isinstance(v, ast.Call) and isinstance(v.func, ast.Attribute) and v.func.attr == "projection_to" and u(v.func.value) == "self" and len(v.args) == 1 \
                and depth == 0:
            nm = f"R[{u(v.args[0])}]"
            proj_of[nm] = v.args[0]
            return e_.atom(nm)
        if isinstance(v, ast.Call) and call_name(v) in ("vstack", "concatenate", "hstack", "bmat") and v.args and isinstance(v.args[0], ast.Name) \
                and isinstance(e_.env.get(v.args[0].id), ListRef):
            lst = e_.env[v.args[0].id].name
            is_mat = lst in (L.A_prim, L.A_sec)
            if (call_name(v) == "vstack") != is_mat and not (call_name(v) in ("concatenate", "hstack") and not is_mat):
                ctx.check("R2", False, rel, qa, s, f"{lst} must be stacked row-wise ({'vstack' if is_mat else 'concatenate'})", construct=u(s))
            stacked[lst] = stacked.get(lst, 0) + 1
            return e_.atom(list_atoms[lst])
        if isinstance(v, ast.Call) and isinstance(v.func, ast.Name) and v.func.id == inv_param and len(v.args) == 1 and not v.keywords and depth == 0:
            arg = e_.ev(v.args[0])
            w = nc.words(arg)
            if len(w) != 1 or list(w.values())[0] != 1:
                raise Undecided(f"{qa}: the inverted matrix is not a single product: {NC.show(w)}")
            state["inv_words"] = list(w)[0]
            nc.rules.append((("INV",) + state["inv_words"], ()))
            nc.rules.append((state["inv_words"] + ("INV",), ()))
            return e_.atom("INV")
        if isinstance(v, ast.Call) and isinstance(v.func, ast.Attribute) and isinstance(v.func.value, ast.Name) and v.func.value.id in ("self", CLS) \
                and v.func.attr.startswith("_") and v.func.attr in meths_all and depth == 0:
            # one level of private helper: interpret its straight-line body with the arguments bound
            h = meths_all[v.func.attr]
            static = any(u(d_).endswith("staticmethod") for d_ in h.decorator_list)
            hp = [a_.arg for a_ in h.args.args]
            if not static:
                hp = hp[1:]
            sub = SymEval(nc, h, f"{CLS}.{h.name}")
            sub.transposed = e_.transposed
            binds = list(zip(hp, v.args)) + [(k_.arg, k_.value) for k_ in v.keywords if k_.arg in hp]
            for p_, a_ in binds:
                if isinstance(a_, ast.Name) and isinstance(e_.env.get(a_.id), ListRef):
                    sub.env[p_] = e_.env[a_.id]
                else:
                    try:
                        sub.env[p_] = e_.ev(a_)
                    except Undecided:
                        pass
            r_ = exec_stmts(body_nodoc(h), sub, 1)
            if r_ is None:
                raise Undecided(f"{qa}: helper {h.name} has no straight-line return value")
            return r_
        if any(isinstance(n_, ast.Name) and isinstance(e_.env.get(n_.id), ListRef) for n_ in ast.walk(v)):
            raise Undecided(f"{qa}: unrecognised use of a row-block list in {u(v)[:60]}")
        return e_.ev(v)

    def exec_stmts(stmts: list, e_: SymEval, depth: int):
        """Interpret top-level assignments; returns the value of the `return` (list for a tuple) or None."""
        result = None
        for s in stmts:
            if isinstance(s, ast.Return):
                if depth == 0:
                    state["ret"] = s
                if s.value is not None:
                    try:
                        result = assign_value(e_, s.value, s, depth)
                    except Undecided:
                        if depth == 0:
                            raise
                        result = None
                continue
            if isinstance(s, (ast.Assign, ast.AnnAssign)) and s.value is not None:
                tg = s.targets[0] if isinstance(s, ast.Assign) else s.target
                v = s.value
                if isinstance(tg, ast.Attribute) and _is_self_attr(tg, "_Schur_complement") and depth == 0:
                    if not isinstance(v, ast.Tuple):
                        raise Undecided(f"{qa}: _Schur_complement is not assigned a tuple literal")
                    state["packed"] = (s, [e_.ev(x) for x in v.elts])
                    continue
                names_ = [tg] if isinstance(tg, ast.Name) else (list(tg.elts) if isinstance(tg, ast.Tuple) and all(isinstance(x, ast.Name) for x in tg.elts) else None)
                if names_ is None:
                    continue
                try:
                    val = assign_value(e_, v, s, depth)
                    if isinstance(tg, ast.Name):
                        if isinstance(val, list):
                            raise Undecided("tuple bound to one name")
                        e_.env[tg.id] = val
                    else:
                        if not isinstance(val, list) or len(val) != len(names_):
                            raise Undecided("unpacking shape")
                        for n_, x_ in zip(names_, val):
                            e_.env[n_.id] = x_
                except Undecided:
                    for n_ in names_:
                        if not isinstance(e_.env.get(n_.id), ListRef):
                            e_.env.pop(n_.id, None)  # opaque: only an error if a formula needs it
        return result

    ret_val = exec_stmts(body_nodoc(fa), ev, 0)
    packed, ret, inv_arg_words = state["packed"], state["ret"], state["inv_words"]
    for lst, nm in list_atoms.items():
        ctx.check("R2", stacked.get(lst, 0) == 1, rel, qa, fa, f"row-block list {lst} ({nm}) is stacked exactly once after the loops",
                  construct=f"stack {lst} x{stacked.get(lst, 0)}")
    if ret is None or not (isinstance(ret.value, ast.Tuple) and len(ret.value.elts) == 2):
        raise Undecided(f"{qa}: return is not (S, rhs_S)")
    if packed is None or inv_arg_words is None:
        raise AnchorError(f"{qa}: stored tuple / inverter call not found")
    if not (isinstance(ret_val, list) and len(ret_val) == 2):
        raise Undecided(f"{qa}: returned pair has no symbolic value")
    S, rhsS = ret_val

    # ---- expansion ----
    ee = SymEval(nc, fe, qe)
    ee.transposed = ev.transposed
    pe = _params(fe)
    if len(pe) != 2:
        raise AnchorError(f"{qe}: signature changed")
    ee.env[pe[1]] = ee.atom("x_p")
    X = None
    for s in body_nodoc(fe):
        if isinstance(s, ast.Return):
            if s.value is None:
                raise Undecided(f"{qe}: bare return")
            X = ee.ev(s.value)
            continue
        if isinstance(s, ast.Assign):
            tg, v = s.targets[0], s.value
            if _is_self_attr(v, "_Schur_complement") and isinstance(tg, ast.Tuple):
                ok = len(tg.elts) == len(packed[1]) and all(isinstance(t, ast.Name) for t in tg.elts)
                ctx.check("R1", ok, rel, qe, s, f"the stored tuple has {len(packed[1])} entries; the unpacking must take as many",
                          construct=f"unpack {len(tg.elts)} of {len(packed[1])}")
                if not ok:
                    return
                for t, val in zip(tg.elts, packed[1]):
                    ee.env[t.id] = val
                continue
            if isinstance(tg, ast.Name):
                vv = v
                # positional access self._Schur_complement[i]
                class Sub(ast.NodeTransformer):
                    def visit_Subscript(self_, n):
                        if _is_self_attr(n.value, "_Schur_complement") and isinstance(n.slice, ast.Constant) and isinstance(n.slice.value, int):
                            return ast.Name(id=f"__packed{n.slice.value}", ctx=ast.Load())
                        return self_.generic_visit(n)
                import copy
                vv = Sub().visit(copy.deepcopy(v))
                for i, val in enumerate(packed[1]):
                    ee.env[f"__packed{i}"] = val
                try:
                    ee.env[tg.id] = ee.ev(vv)
                except Undecided:
                    ee.env.pop(tg.id, None)
    if X is None:
        raise Undecided(f"{qe}: no returned expression")
    A_p, A_s, b_p, b_s, x_p = (nc.sym(n) for n in ("A_p", "A_s", "b_p", "b_s", "x_p"))
    res_s = nc.words(A_s * X - b_s)
    res_p = nc.words(A_p * X - b_p - (S * x_p - rhsS))
    facts = {"S": NC.show(nc.words(S)), "rhs_S": NC.show(nc.words(rhsS)), "X": NC.show(nc.words(X)),
             "axiom": f"INV*{'*'.join(inv_arg_words)} = {'*'.join(inv_arg_words)}*INV = I",
             "stored": [NC.show(nc.words(p)) for p in packed[1]]}
    ctx.sample({"rule": "R1", **facts})
    ctx.check("R1", not res_s, rel, qe, fe,
              f"secondary rows: A_s*X - b_s must vanish identically for the expanded solution; residual = {NC.show(res_s)}",
              construct=f"A_s*X - b_s == {NC.show(res_s)}", facts=facts,
              desc="A_s*X - b_s == 0 identically (X, x_s, stored tuple and its unpacking as extracted)")
    ctx.check("R1", not res_p, rel, qa, fa,
              f"primary rows: A_p*X - b_p must vanish whenever S*x_p = rhs_S; A_p*X - b_p - (S*x_p - rhs_S) = {NC.show(res_p)}",
              construct=f"A_p*X - b_p - (S*x_p - rhs_S) == {NC.show(res_p)}", facts=facts,
              desc="A_p*X - b_p == S*x_p - rhs_S identically (S, rhs_S, block matrices as extracted)")
    if res_s or res_p:
        return  # the roles below are read off X; meaningless when the identity already fails
    # ---- roles of the two prolongations ----
    xw = nc.words(X)
    lead = [w for w in xw if w and w[-1] == "x_p" and len(w) == 2]
    other = [w for w in xw if w and w[-1] != "x_p"]
    if len(lead) != 1 or not other:
        ctx.check("R1", False, rel, qe, fe, "X must be <primary prolongation>*x_p + <secondary prolongation>*x_s", construct=f"X = {NC.show(xw)}")
        return
    Ep = lead[0][0]
    Es_set = {w[0] for w in other}
    if len(Es_set) != 1:
        raise Undecided(f"{qe}: secondary part of X has several left factors: {sorted(Es_set)}")
    Es = next(iter(Es_set))

    def proj_arg(symname: str) -> Optional[ast.expr]:
        base = symname[:-2] if symname.endswith("^T") else None
        return proj_of.get(base) if base else None

    ap, as_ = proj_arg(Ep), proj_arg(Es)
    ok_T = ap is not None and as_ is not None
    ctx.check("R1", ok_T, rel, qa, fa,
              f"both prolongations must be TRANSPOSED projections (found {Ep}, {Es})", construct=f"prolongations {Ep}, {Es}")
    if not ok_T:
        return
    pv = inline_locals(fa, ap, stop=pa)
    ok_p = isinstance(pv, ast.Call) and isinstance(pv.func, ast.Attribute) and pv.func.attr == "_parse_variable_type" and pv.args \
        and isinstance(pv.args[0], ast.Name) and pv.args[0].id in pa and pv.args[0].id != L.primary_param
    ctx.check("R1", bool(ok_p), rel, qa, ap, "the reduced unknown x_p is prolonged with the projection onto the caller's primary variables",
              construct=f"primary prolongation over {u(pv)[:70]}")
    sv = inline_locals(fa, as_, stop=pa + ([ap.id] if isinstance(ap, ast.Name) else []))
    b = sv.args[0] if isinstance(sv, ast.Call) and call_name(sv) in ("list", "sorted", "tuple") and sv.args else sv
    ok_s = False
    if isinstance(b, ast.Call) and isinstance(b.func, ast.Attribute) and b.func.attr == "difference" and len(b.args) == 1:
        l = b.func.value
        l = l.args[0] if isinstance(l, ast.Call) and call_name(l) in ("set", "frozenset") and l.args else l
        r = b.args[0]
        r = r.args[0] if isinstance(r, ast.Call) and call_name(r) in ("set", "frozenset") and r.args else r
        ok_s = u(l) in ("self.variables", "self._variables.values()") and u(r) == u(ap)
    elif isinstance(b, ast.ListComp) and len(b.generators) == 1 and u(b.generators[0].iter) in ("self.variables", "self._variables.values()"):
        conds = b.generators[0].ifs
        ok_s = len(conds) == 1 and isinstance(conds[0], ast.Compare) and isinstance(conds[0].ops[0], ast.NotIn) \
            and u(conds[0].comparators[0]) == u(ap) and u(b.elt) == u(b.generators[0].target) == u(conds[0].left)
    elif isinstance(b, ast.Call) and isinstance(b.func, ast.Attribute) and b.func.attr == "_parse_variable_type":
        ok_s = False  # a parsed argument list, not a complement
    else:
        raise Undecided(f"{qa}: cannot classify the secondary variable set {u(sv)[:80]}")
    ctx.check("R1", ok_s, rel, qa, as_, "the secondary prolongation covers exactly the complement of the primary variables in self.variables",
              construct=f"secondary prolongation over {u(sv)[:80]}")


# ----------------------------------------------------------------------------------------------
# R3 order-insensitivity
# ----------------------------------------------------------------------------------------------

def _check_sets(ctx: Ctx, rel: str, fn: ast.FunctionDef) -> None:
    q = f"{CLS}.{ASM}"
    pm = parent_map(fn)
    names, nodes = set_typed(fn)
    arbitrary: dict[str, ast.AST] = {}  # names of lists in arbitrary (set) order
    for e in nodes:
        kind, why = classify_set_use(pm, e)
        if kind == "ok":
            continue
        par = pm.get(e)
        if isinstance(par, ast.Call) and call_name(par) in ("list", "tuple") and e in par.args:
            st = pm.get(par)
            if isinstance(st, (ast.Assign, ast.AnnAssign)) and st.value is par:
                tg = st.targets[0] if isinstance(st, ast.Assign) else st.target
                if isinstance(tg, ast.Name) and len(_stores(fn, tg.id)) == 1:
                    arbitrary[tg.id] = st
                    continue
        if kind == "unknown":
            raise Undecided(f"{q}: cannot classify use of set-typed `{u(e)[:60]}` ({why})")
        ctx.check("R3", False, rel, q, e, f"set-typed `{u(e)[:60]}` feeds an order: {why}", construct=f"{u(e)[:80]} :: {why}")
    for nm, st in arbitrary.items():
        uses = [n for n in walk_local(fn) if isinstance(n, ast.Name) and n.id == nm and isinstance(n.ctx, ast.Load)]
        for n in uses:
            par = pm.get(n)
            ok = None
            why = ""
            if isinstance(par, ast.Compare) and n in par.comparators and all(isinstance(o, (ast.In, ast.NotIn)) for o in par.ops):
                ok, why = True, "membership test"
            elif isinstance(par, ast.Call) and n in par.args and isinstance(par.func, ast.Attribute) and par.func.attr == "projection_to" and u(par.func.value) == "self":
                ok, why = True, "projection_to sorts the dof indices (C05 R3)"
            elif isinstance(par, ast.Call) and n in par.args and call_name(par) in ("len", "set", "sorted", "frozenset"):
                ok, why = True, f"{call_name(par)}()"
            elif isinstance(par, ast.Call) and n in par.args and isinstance(par.func, ast.Attribute) and par.func.attr in (
                    "difference", "union", "intersection", "issubset", "issuperset", "isdisjoint", "symmetric_difference"):
                ok, why = True, f"argument of set method .{par.func.attr}()"
            elif (isinstance(par, ast.For) and par.iter is n) or (isinstance(par, ast.comprehension) and par.iter is n):
                ok, why = False, "iterated: block order would follow the arbitrary set order"
            elif isinstance(par, ast.Subscript) and par.value is n:
                ok, why = False, "indexed by position"
            elif isinstance(par, ast.Return):
                ok, why = False, "returned"
            if ok is None:
                raise Undecided(f"{q}: cannot classify use of arbitrary-order list '{nm}' in {u(par)[:60] if par is not None else None}")
            ctx.check("R3", ok, rel, q, n, f"'{nm}' is list(<set>) - its order is arbitrary; use here: {why}",
                      construct=f"{nm} (list of a set) used in: {why}", desc=f"list(<set>) '{nm}' used order-insensitively ({why})")
    # both block loops iterate self._equations
    for lp in [s for s in body_nodoc(fn) if isinstance(s, ast.For)]:
        if not any(isinstance(c, ast.Call) and isinstance(c.func, ast.Attribute) and c.func.attr == "append" for c in walk_local(lp)):
            continue
        src = _strip_keys(lp.iter)
        if _is_self_attr(src, "_equations"):
            ok = True
        elif isinstance(src, ast.Name) and (src.id in arbitrary or src.id in names):
            ok = False
        elif isinstance(src, ast.Call) and call_name(src) in ("set", "frozenset", "sorted", "reversed"):
            ok = False
        elif isinstance(src, ast.Name):
            v = inline_locals(fn, src, stop=_params(fn))
            if isinstance(v, ast.Call) and isinstance(v.func, ast.Attribute) and v.func.attr == "_parse_equations":
                ok = True  # ordered like self._equations (C06 R2)
            elif isinstance(_strip_keys(v), ast.Name) and _strip_keys(v).id in _params(fn):
                ok = False
            else:
                raise Undecided(f"{q}: cannot classify block loop source {u(lp.iter)}")
        else:
            raise Undecided(f"{q}: cannot classify block loop source {u(lp.iter)}")
        ctx.check("R3", ok, rel, q, lp, "row blocks are emitted while iterating self._equations (deterministic, order the equations were set)",
                  construct=f"block loop over {u(lp.iter)}")


# ----------------------------------------------------------------------------------------------
# R4 permutation triple
# ----------------------------------------------------------------------------------------------

def _check_inverter(ctx: Ctx, rel: str, fn: ast.FunctionDef, gen_fn: ast.FunctionDef, app_fn: ast.FunctionDef) -> None:
    q = f"{CLS}.{INV}"
    pm = parent_map(fn)
    params = _params(fn)
    if len(params) != 2:
        raise AnchorError(f"{q}: signature changed")
    A = params[1]
    app_params = _params(app_fn)
    calls = [c for c in walk_local(fn) if isinstance(c, ast.Call) and call_name(c) == APPLY]
    gens = [c for c in walk_local(fn) if isinstance(c, ast.Call) and call_name(c) == GEN]
    if len(calls) != 1 or len(gens) != 1:
        raise AnchorError(f"{q}: expected one call each of {GEN} and {APPLY}")
    call, gen = calls[0], gens[0]
    # arguments by consumer position
    args: dict[int, ast.expr] = {i: a for i, a in enumerate(call.args)}
    for k in call.keywords:
        if k.arg not in app_params:
            raise Undecided(f"{q}: unknown keyword {k.arg}")
        args[app_params.index(k.arg)] = k.value
    if sorted(args) != [0, 1, 2, 3]:
        raise Undecided(f"{q}: inverter call does not pass four arguments")
    ctx.check("R4", u(args[0]) == A and len(gen.args) == 1 and u(gen.args[0]) == A, rel, q, call,
              "the permutation is generated for, and applied to, the matrix being inverted", construct=f"{GEN}({u(gen.args[0]) if gen.args else ''}) / {APPLY}({u(args[0])}, ...)")
    # the arm structure: if not cache: fresh else: cached
    gst = enclosing_stmt(pm, gen)
    arm_if = pm.get(gst)
    if not isinstance(arm_if, ast.If) or not (isinstance(gst, ast.Assign) and isinstance(gst.targets[0], ast.Tuple)):
        raise Undecided(f"{q}: the generated triple is not unpacked inside an if-arm")
    fresh_body = arm_if.body if any(s is gst for s in arm_if.body) else arm_if.orelse
    cached_body = arm_if.orelse if fresh_body is arm_if.body else arm_if.body
    t = arm_if.test
    cache_attr = None
    for n in ast.walk(t):
        if isinstance(n, ast.Attribute) and isinstance(n.value, ast.Name) and n.value.id == "self":
            cache_attr = n.attr
    neg = isinstance(t, ast.UnaryOp) and isinstance(t.op, ast.Not)
    if cache_attr is None or (neg != (fresh_body is arm_if.body)):
        if cache_attr is not None:
            ctx.check("R4", False, rel, q, arm_if, "the permutation must be generated when the cache is EMPTY and read when it is filled",
                      construct=f"if {u(t)}: fresh arm is {'body' if fresh_body is arm_if.body else 'else'}")
            return
        raise Undecided(f"{q}: cannot identify the cache test {u(t)}")
    prov: dict[str, int] = {u(x): i for i, x in enumerate(gst.targets[0].elts)}
    if len(prov) != 3:
        raise Undecided(f"{q}: generator result is not unpacked into three names")
    key_prov: dict[str, int] = {}
    sig_keys: list = []
    for s in fresh_body:
        if isinstance(s, ast.Assign) and isinstance(s.targets[0], ast.Subscript) and _is_self_attr(s.targets[0].value, cache_attr) \
                and isinstance(s.targets[0].slice, ast.Constant):
            if u(s.value) not in prov:
                # an entry derived from the matrix itself (not from the generated triple) is a validity signature
                if A in names_in(s.value) and not (names_in(s.value) & set(prov)):
                    sig_keys.append(s.targets[0].slice.value)
                    continue
                raise Undecided(f"{q}: cache entry {u(s.targets[0].slice)} is not one of the generated arrays")
            key_prov[s.targets[0].slice.value] = prov[u(s.value)]
    # bulk forms of the same writes: cache.update({...}) / cache.update(k=v, ...)
    for s in fresh_body:
        if isinstance(s, ast.Expr) and isinstance(s.value, ast.Call) and isinstance(s.value.func, ast.Attribute) and s.value.func.attr == "update" \
                and _is_self_attr(s.value.func.value, cache_attr):
            items = [(k_.arg, k_.value) for k_ in s.value.keywords if k_.arg]
            if s.value.args and isinstance(s.value.args[0], ast.Dict):
                items += [(k_.value, v_) for k_, v_ in zip(s.value.args[0].keys, s.value.args[0].values) if isinstance(k_, ast.Constant)]
            elif s.value.args:
                raise Undecided(f"{q}: unrecognised bulk cache write {u(s)[:60]}")
            for k_, v_ in items:
                if u(v_) in prov:
                    key_prov[k_] = prov[u(v_)]
                elif A in names_in(v_) and not (names_in(v_) & set(prov)):
                    sig_keys.append(k_)
                else:
                    raise Undecided(f"{q}: cache entry {k_!r} is not one of the generated arrays")
    cprov: dict[str, int] = {}
    for s in cached_body:
        if isinstance(s, ast.Assign) and isinstance(s.targets[0], ast.Name) and isinstance(s.value, ast.Subscript) \
                and _is_self_attr(s.value.value, cache_attr) and isinstance(s.value.slice, ast.Constant):
            k = s.value.slice.value
            if k not in key_prov:
                ctx.check("R4", False, rel, q, s, f"cache key {k!r} is read but never written", construct=f"read cache[{k!r}]")
                continue
            cprov[s.targets[0].id] = key_prov[k]
    ctx.check("R4", sorted(key_prov.values()) == [0, 1, 2], rel, q, arm_if, "all three generated arrays are cached under distinct keys",
              construct=f"cache keys {sorted(key_prov.items(), key=lambda t: t[1])}")
    for arm, pv in (("fresh", prov), ("cached", cprov)):
        for j in (1, 2, 3):
            nm = u(args[j])
            got = pv.get(nm)
            ctx.check("R4", got == j - 1, rel, q, args[j],
                      f"[{arm} arm] argument {j} of {APPLY} ({app_params[j]}) must be element {j - 1} of the generated triple; "
                      f"'{nm}' carries element {got}", construct=f"[{arm}] arg{j}={nm} <- triple[{got}]",
                      desc=f"[{arm} arm] argument {j} ({app_params[j]}) carries element {got} of the generated triple")
    # cache validity (added by the coordinator after defect D19): a cached permutation may only be reused for a matrix with
    # the sparsity pattern it was computed for.  Required: before the arm, a statement that empties the cache under a test that
    # reads both the cache and the current matrix (comparison of a stored signature with `A`).
    invalidations = []
    for iff in [n for n in walk_local(fn) if isinstance(n, ast.If) and n is not arm_if and n.lineno < arm_if.lineno]:
        reads_cache = any(_is_self_attr(n, cache_attr) for n in ast.walk(iff.test))
        reads_A = A in names_in(iff.test)
        clears = any((isinstance(c, ast.Call) and isinstance(c.func, ast.Attribute) and c.func.attr == "clear" and _is_self_attr(c.func.value, cache_attr))
                     for b in iff.body for c in ast.walk(b)) or any(
            isinstance(b, ast.Assign) and any(_is_self_attr(t, cache_attr) for t in b.targets) for b in iff.body)
        if reads_cache and reads_A and clears:
            invalidations.append(iff)
    sig_read = all(any(isinstance(n, ast.Subscript) and _is_self_attr(n.value, cache_attr) and isinstance(n.slice, ast.Constant) and n.slice.value == k
                       for n in ast.walk(iff.test)) for iff in invalidations for k in sig_keys) if invalidations else False
    ctx.check("R4", bool(invalidations) and bool(sig_keys) and sig_read, rel, q, arm_if,
              "the cached permutation is reused without checking that it was computed for the current matrix: a second Schur split on the same "
              "EquationSystem (or a changed sparsity pattern) reuses a stale permutation (IndexError / wrong inverse)",
              construct=f"{INV}: cached permutation reused without validity check", facts={"signature_keys": sig_keys, "invalidation_tests": [u(i.test)[:120] for i in invalidations]})

    # ---- producer roles ----------------------------------------------------------------------------
    gq = GEN
    grets = [r for r in walk_local(gen_fn) if isinstance(r, ast.Return) and r.value is not None]
    if len(grets) != 1 or not (isinstance(grets[0].value, ast.Tuple) and len(grets[0].value.elts) == 3 and all(isinstance(x, ast.Name) for x in grets[0].value.elts)):
        raise Undecided(f"{MO}:{gq}: return is not a triple of names")
    # node encoding: (int(i), int(N + j)) for i, j in zip(r, c); r, c, _ = sps.find(...)
    N = None
    for s in walk_local(gen_fn):
        if isinstance(s, ast.Assign) and isinstance(s.targets[0], ast.Tuple) and len(s.targets[0].elts) == 2 and isinstance(s.value, ast.Attribute) and s.value.attr == "shape":
            N = (u(s.targets[0].elts[0]), u(s.targets[0].elts[1]))
    find = [s for s in walk_local(gen_fn) if isinstance(s, ast.Assign) and isinstance(s.value, ast.Call) and call_name(s.value) == "find"
            and isinstance(s.targets[0], ast.Tuple) and len(s.targets[0].elts) == 3]
    enc = [n for n in walk_local(gen_fn) if isinstance(n, ast.ListComp) and isinstance(n.elt, ast.Tuple) and len(n.elt.elts) == 2
           and isinstance(n.generators[0].iter, ast.Call) and call_name(n.generators[0].iter) == "zip"]
    if N is None or len(find) != 1 or len(enc) != 1:
        raise Undecided(f"{MO}:{gq}: bipartite node encoding not recognised")
    fr, fc = u(find[0].targets[0].elts[0]), u(find[0].targets[0].elts[1])
    z = enc[0].generators[0]
    zt = [u(x) for x in z.target.elts] if isinstance(z.target, ast.Tuple) else []
    za = [u(x) for x in z.iter.args]
    if len(zt) != 2 or len(za) != 2:
        raise Undecided(f"{MO}:{gq}: encoding zip not recognised")
    tname = {zt[0]: ("row" if za[0] == fr else "col" if za[0] == fc else None), zt[1]: ("row" if za[1] == fr else "col" if za[1] == fc else None)}

    def strip_int(e):
        return e.args[0] if isinstance(e, ast.Call) and call_name(e) == "int" and len(e.args) == 1 else e

    plain_role = off_role = None
    off_by = None
    for comp_e in enc[0].elt.elts:
        e = strip_int(comp_e)
        if isinstance(e, ast.Name) and e.id in tname:
            plain_role = tname[e.id]
        elif isinstance(e, ast.BinOp) and isinstance(e.op, ast.Add):
            for a, b in ((e.left, e.right), (e.right, e.left)):
                if isinstance(a, ast.Name) and a.id in tname and isinstance(b, ast.Name):
                    off_role, off_by = tname[a.id], b.id
    if not plain_role or not off_role or {plain_role, off_role} != {"row", "col"} or off_by not in N:
        raise Undecided(f"{MO}:{gq}: node encoding is not (plain index, offset + other index)")

    def listcomp_role(lc: ast.ListComp) -> Optional[str]:
        g = lc.generators[0]
        if len(g.ifs) != 1 or not isinstance(g.ifs[0], ast.Compare) or len(g.ifs[0].ops) != 1:
            return None
        c = g.ifs[0]
        tv = u(g.target)
        if u(c.left) == tv and u(c.comparators[0]) == off_by:
            if isinstance(c.ops[0], ast.Lt) and u(lc.elt) == tv:
                return plain_role
            if isinstance(c.ops[0], ast.GtE) and isinstance(lc.elt, ast.BinOp) and isinstance(lc.elt.op, ast.Sub) and u(lc.elt.left) == tv and u(lc.elt.right) == off_by:
                return off_role
        return None

    def role_of_list(name: str, depth: int = 0) -> set[str]:
        roles: set[str] = set()
        for s in walk_local(gen_fn):
            if isinstance(s, ast.Assign) and len(s.targets) == 1 and u(s.targets[0]) == name:
                v = s.value
                if isinstance(v, ast.ListComp):
                    r = listcomp_role(v)
                    roles.add(r or "?")
                elif isinstance(v, ast.List) and not v.elts:
                    pass
                else:
                    roles.add("?")
            if isinstance(s, ast.Call) and isinstance(s.func, ast.Attribute) and u(s.func.value) == name and s.func.attr in ("extend", "append"):
                a = s.args[0]
                if isinstance(a, ast.Call) and u(a.func) == "len":
                    roles.add("sizes")
                elif isinstance(a, ast.Constant) and isinstance(a.value, int):
                    roles.add("sizes?const")
                elif isinstance(a, ast.Name) and depth < 2:
                    sub = role_of_list(a.id, depth + 1)
                    roles |= sub if sub else {"neutral"}
                else:
                    roles.add("?")
        return roles

    prod_roles: list[Optional[str]] = []
    for x in grets[0].value.elts:
        vals = [s.value for s in walk_local(gen_fn) if isinstance(s, ast.Assign) and len(s.targets) == 1 and u(s.targets[0]) == x.id]
        rs: set[str] = set()
        for v in vals:
            if isinstance(v, ast.Call) and call_name(v) == "arange":
                rs.add("neutral")  # identity permutation: same for rows and columns
            elif isinstance(v, ast.Call) and call_name(v) in ("array", "asarray") and v.args:
                a0 = v.args[0]
                if isinstance(a0, ast.Name):
                    rs |= role_of_list(a0.id)
                elif isinstance(a0, ast.List) and len(a0.elts) == 1:
                    rs.add("sizes")
                else:
                    rs.add("?")
            else:
                rs.add("?")
        rs -= {"neutral", "sizes?const"} if (rs - {"neutral", "sizes?const"}) else set()
        if "?" in rs or len(rs) != 1:
            raise Undecided(f"{MO}:{gq}: cannot determine the role of returned '{x.id}': {sorted(rs)}")
        prod_roles.append(next(iter(rs)))
    # ---- consumer roles ------------------------------------------------------------------------------
    aq = APPLY
    slicers: dict[str, tuple[str, bool]] = {}  # local name -> (index param, transposed?)
    for s in walk_local(app_fn):
        if isinstance(s, ast.Assign) and len(s.targets) == 1 and isinstance(s.targets[0], ast.Name) and isinstance(s.value, ast.Call) \
                and call_name(s.value) == "ArraySlicer":
            kws = {k.arg: k.value for k in s.value.keywords}
            if s.value.args or set(kws) - {"domain_indices", "range_indices"} or len(kws) != 1:
                raise Undecided(f"{MO}:{aq}: slicer with unsupported arguments {u(s.value)}")
            (k, v), = kws.items()
            if not (isinstance(v, ast.Name) and v.id in app_params):
                raise Undecided(f"{MO}:{aq}: slicer indices are not a parameter")
            slicers[s.targets[0].id] = (v.id, k == "range_indices")

    def talg(e: ast.expr, env: dict) -> list[tuple[str, bool]]:
        """product of (atom, transposed) factors"""
        if isinstance(e, ast.Name):
            if e.id in slicers:
                p, t_ = slicers[e.id]
                return [(f"G({p})", t_)]
            if e.id in env:
                return env[e.id]
            return [(e.id, False)]
        if isinstance(e, ast.Attribute) and e.attr == "T":
            return [(a, not t_) for a, t_ in reversed(talg(e.value, env))]
        if isinstance(e, ast.Call) and isinstance(e.func, ast.Attribute) and e.func.attr == "transpose" and not e.args:
            return [(a, not t_) for a, t_ in reversed(talg(e.func.value, env))]
        if isinstance(e, ast.BinOp) and isinstance(e.op, (ast.MatMult, ast.Mult)):
            return talg(e.left, env) + talg(e.right, env)
        raise Undecided(f"{MO}:{aq}: cannot translate {u(e)[:60]}")

    env: dict[str, list] = {}
    bd_name = inv_name = None
    sizes_param = None
    result = None
    for s in body_nodoc(app_fn):
        if isinstance(s, ast.Assign) and len(s.targets) == 1 and isinstance(s.targets[0], ast.Name):
            nm, v = s.targets[0].id, s.value
            if nm in slicers and isinstance(v, ast.Call) and call_name(v) == "ArraySlicer":
                continue
            if isinstance(v, ast.Call) and call_name(v) == "invert_diagonal_blocks":
                if len(v.args) < 2 or not isinstance(v.args[1], ast.Name):
                    raise Undecided(f"{MO}:{aq}: invert_diagonal_blocks arguments")
                bd = talg(v.args[0], env)
                sizes_param = v.args[1].id
                env[nm] = [("B", False)]
                bd_form = bd
                continue
            env[nm] = talg(v, env)
        elif isinstance(s, ast.Return) and s.value is not None:
            result = talg(s.value, env)
    if sizes_param is None or result is None:
        raise AnchorError(f"{MO}:{aq}: block-diagonal inversion / return not found")
    Aname = app_params[0]
    cons_roles: dict[str, str] = {sizes_param: "sizes"}
    ok_form = len(bd_form) == 3 and bd_form[1] == (Aname, False) and bd_form[0][0].startswith("G(") and not bd_form[0][1] \
        and bd_form[2][0].startswith("G(") and bd_form[2][1]
    ctx.check("R4", ok_form, MO, aq, app_fn, "the matrix handed to the block inverter is G(r) A G(c)^T, i.e. A[r][:, c]",
              construct=f"block-diagonal form {bd_form}")
    if ok_form:
        cons_roles[bd_form[0][0][2:-1]] = "row"
        cons_roles[bd_form[2][0][2:-1]] = "col"
        want = [bd_form[2][0], "B", bd_form[0][0]]
        ok_back = [a for a, _ in result] == want and [t_ for _, t_ in result] == [True, False, False]
        ctx.check("R4", ok_back, MO, aq, app_fn, "A^-1 = G(c)^T B^-1 G(r): the un-permutation applies the column gather transposed on the left and the row gather on the right",
                  construct=f"returned form {result}")
    cons = [cons_roles.get(p) for p in app_params[1:4]]
    for i in range(3):
        ctx.check("R4", prod_roles[i] == cons[i], MO, f"{GEN} -> {APPLY}", grets[0],
                  f"element {i} of the generated triple is the '{prod_roles[i]}' array but parameter {i + 1} ({app_params[i + 1]}) of {APPLY} is used as '{cons[i]}'",
                  construct=f"triple[{i}] role {prod_roles[i]} vs parameter {i + 1} role {cons[i]}",
                  desc=f"triple[{i}] is produced as '{prod_roles[i]}' and consumed as '{cons[i]}'")
    ctx.sample({"rule": "R4", "producer_roles": prod_roles, "consumer_roles": cons, "block_diag_form": [list(x) for x in bd_form]})


# ----------------------------------------------------------------------------------------------

def run(ctx: Ctx) -> None:
    mod = ctx.repo.module(ES)
    cls = mod.cls(CLS)
    meths = methods(cls)
    for need in (ASM, EXP, INV):
        if need not in meths:
            raise AnchorError(f"{ES}:{CLS}.{need} not found")
    mo = ctx.repo.module(MO)
    meths = dict(meths)
    for k_ in (ASM, EXP, INV):
        meths[k_] = dealias(meths[k_])
    L = _check_lockstep(ctx, mod.rel, meths[ASM], meths)
    lists = [L.A_prim, L.b_prim, L.A_sec, L.b_sec]
    if None not in lists and len(set(lists)) == 4:
        _check_identity(ctx, mod.rel, meths[ASM], meths[EXP], L, meths)
    else:
        ctx.note("R1 skipped: the primary/secondary row-block lists could not be told apart (see R2 findings)")
    _check_sets(ctx, mod.rel, meths[ASM])
    _check_inverter(ctx, mod.rel, meths[INV], mo.func(GEN), mo.func(APPLY))


# ----------------------------------------------------------------------------------------------

def _m(name, old, new, rule, control=False, count=1, file=ES):
    return dict(name=name, file=file, old=old, new=new, rule=rule, control=control, count=count)


MUTANTS = [
    dict(name="revert-fix-inverter-cache-validity", file="src/porepy/numerics/ad/equation_system.py",
         old="            self._secondary_block_permutation.clear()\n", new="            pass\n", rule="R4", control=True),

    _m("S-plus", "        S = A_pp - A_ps * inv_A_ss * A_sp\n", "        S = A_pp + A_ps * inv_A_ss * A_sp\n", "R1", control=True),
    _m("rhs-plus", "        rhs_S = b_p - A_ps * inv_A_ss * b_s\n", "        rhs_S = b_p + A_ps * inv_A_ss * b_s\n", "R1"),
    _m("rhs-without-inverse", "        rhs_S = b_p - A_ps * inv_A_ss * b_s\n", "        rhs_S = b_p - A_ps * b_s\n", "R1"),
    _m("xs-plus", "        x_s = inv_A_ss * (b_s - A_sp * reduced_solution)\n", "        x_s = inv_A_ss * (b_s + A_sp * reduced_solution)\n", "R1"),
    _m("unpack-prolongations-swapped", "inv_A_ss, b_s, A_sp, prolong_p, prolong_s = self._Schur_complement", "inv_A_ss, b_s, A_sp, prolong_s, prolong_p = self._Schur_complement", "R1", control=True),
    _m("pack-prolongations-swapped", "            A_sp,\n            primary_projection,\n            secondary_projection,\n        )", "            A_sp,\n            secondary_projection,\n            primary_projection,\n        )", "R1"),
    _m("pack-stores-A_ps", "            b_s,\n            A_sp,\n            primary_projection,", "            b_s,\n            A_ps,\n            primary_projection,", "R1"),
    _m("inverse-of-wrong-matrix", "        inv_A_ss = inverter(A_ss)\n", "        inv_A_ss = inverter(A_s)\n", "R1"),
    _m("A_ps-wrong-projection", "        A_ps = A_p * secondary_projection\n", "        A_ps = A_p * primary_projection\n", "R1"),
    _m("A_sp-from-primary-rows", "        A_sp = A_s * primary_projection\n", "        A_sp = A_p * primary_projection\n", "R1"),
    _m("X-minus", "        X = prolong_p * reduced_solution + prolong_s * x_s\n", "        X = prolong_p * reduced_solution - prolong_s * x_s\n", "R1"),
    _m("prolongation-not-transposed", "        primary_projection = primary_projection.transpose()\n        secondary_projection = secondary_projection.transpose()\n", "", "R1"),
    _m("secondary-vars-not-complement", "secondary_variables = list(set(self.variables).difference(active_variables))", "secondary_variables = list(set(self.variables).difference(secondary_equation_names))", "R1"),
    _m("A_s-stacked-from-primary", "        A_s = sps.vstack(A_sec, format=\"csr\")\n", "        A_s = sps.vstack(A_prim, format=\"csr\")\n", "R1"),
    _m("b_sec-gets-primary-rows", "                    b_sec.append(b_temp[idx_excl_p])\n", "                    b_sec.append(b_temp[idx_p])\n", "R2", control=True),
    _m("b_prim-not-sliced", "                    b_prim.append(b_temp[idx_p])\n", "                    b_prim.append(b_temp)\n", "R2"),
    _m("excluded-rows-dropped", "                    A_sec.append(A_temp[idx_excl_p])\n                    b_sec.append(b_temp[idx_excl_p])\n", "", "R2"),
    _m("excluded-rows-to-primary", "                    A_sec.append(A_temp[idx_excl_p])\n                    b_sec.append(b_temp[idx_excl_p])\n",
       "                    A_prim.append(A_temp[idx_excl_p])\n                    b_prim.append(b_temp[idx_excl_p])\n", "R2"),
    _m("secondary-rhs-to-primary-list", "                A_sec.append(A_temp)\n                b_sec.append(b_temp)\n", "                A_sec.append(A_temp)\n                b_prim.append(b_temp)\n", "R2"),
    _m("secondary-loop-ignores-state", "                A_temp, b_temp = self.assemble(equations=[name], state=state)\n                A_sec.append(A_temp)\n",
       "                A_temp, b_temp = self.assemble(equations=[name])\n                A_sec.append(A_temp)\n", "R2"),
    _m("primary-blocks-only-primary-columns", "                A_temp, b_temp = self.assemble(equations=[name], state=state)\n                idx_p = primary_rows[name]\n",
       "                A_temp, b_temp = self.assemble(equations=[name], variables=active_variables, state=state)\n                idx_p = primary_rows[name]\n", "R2"),
    _m("cache-test-inverted", "        if not self._secondary_block_permutation:\n", "        if self._secondary_block_permutation:\n", "R4"),
    _m("complement-of-other-dict", "excluded_primary_rows = self._gridbased_equation_complement(primary_rows)", "excluded_primary_rows = self._gridbased_equation_complement(self._parse_equations(None))", "R2"),
    _m("secondary-loop-over-set-list", "        for name in self._equations:\n            # Secondary equations (those not explicitly given as being primary) are\n            # assembled wholesale to the secondary block.\n            if name in secondary_equation_names:\n",
       "        for name in secondary_equation_names:\n            # Secondary equations (those not explicitly given as being primary) are\n            # assembled wholesale to the secondary block.\n            if name in secondary_equation_names:\n", "R3"),
    _m("secondary-variables-indexed", "        secondary_projection = self.projection_to(secondary_variables)\n", "        secondary_projection = self.projection_to(secondary_variables)\n        first_secondary = secondary_variables[0]\n", "R3"),
    _m("inverter-args-swapped", "            A, row_perm, col_perm, block_sizes\n", "            A, col_perm, row_perm, block_sizes\n", "R4", control=True),
    _m("cache-read-keys-swapped", "            row_perm = self._secondary_block_permutation[\"row_perm_indices\"]\n            col_perm = self._secondary_block_permutation[\"col_perm_indices\"]\n",
       "            row_perm = self._secondary_block_permutation[\"col_perm_indices\"]\n            col_perm = self._secondary_block_permutation[\"row_perm_indices\"]\n", "R4"),
    _m("seed-cached-col-perm-read-from-row-key", "            col_perm = self._secondary_block_permutation[\"col_perm_indices\"]\n",
       "            col_perm = self._secondary_block_permutation[\"row_perm_indices\"]\n", "R4"),
    _m("cache-write-swapped", "            self._secondary_block_permutation[\"col_perm_indices\"] = col_perm\n", "            self._secondary_block_permutation[\"col_perm_indices\"] = row_perm\n", "R4"),
    _m("producer-returns-cols-first", "    return row_perm, col_perm, block_sizes\n", "    return col_perm, row_perm, block_sizes\n", "R4", file=MO),
    _m("producer-lists-swapped", "            block_row_indices.extend(eq_rows_in_block)\n            block_col_indices.extend(var_cols_in_block)\n",
       "            block_row_indices.extend(var_cols_in_block)\n            block_col_indices.extend(eq_rows_in_block)\n", "R4", file=MO),
    _m("consumer-slicers-swapped", "    row_slicer = ArraySlicer(domain_indices=row_permutation)\n    col_slicer = ArraySlicer(range_indices=col_permutation)\n",
       "    row_slicer = ArraySlicer(domain_indices=col_permutation)\n    col_slicer = ArraySlicer(range_indices=row_permutation)\n", "R4", file=MO),
    _m("consumer-unpermute-wrong", "    inv_A = col_slicer @ (inv_row_slicer @ inv_A_block_diag.T).T\n", "    inv_A = inv_row_slicer @ (col_slicer @ inv_A_block_diag.T).T\n", "R4", file=MO),
]
