"""C47 - file round trips: writer/reader tables for the 3-d and 2-d fracture-network csv
files and for the txt export of named arrays."""
from __future__ import annotations

import ast
import re

from ..core.astutil import u, call_name, kwarg, walk_local, parent_map, names_in, stmts_local, dotted, inline_locals
from ..core.loader import AnchorError, Undecided
from ..core.report import Ctx
from .c34 import normalise  # behaviour-preserving rewrites shared by this rule family

IMP = "src/porepy/fracs/fracture_importer.py"
N2D = "src/porepy/fracs/fracture_network_2d.py"
N3D = "src/porepy/fracs/fracture_network_3d.py"
TXT = "src/porepy/utils/txt_io.py"

META = {
    "explanation": (
        "Writer/reader agreement decided on the syntax trees of both sides. R1 (3-d csv, domain line): the writer's "
        "column list of bounding-box keys and each reader's key->column dict are the same permutation. R2 (3-d csv, "
        "fractures; delimiters): ravel(order=o) on the 3 x n point array is undone by reshape((3, -1), order=o) with the "
        "same o; csv.writer/csv.reader/genfromtxt agree on the delimiter. R3 (txt): the loadtxt result that is paired "
        "with the header names column by column is requested as unpack=True, ndmin=2 (without ndmin a one-column file "
        "is a 1-d array and zip() pairs names with scalars - D9). R4 (2-d csv): row layout [id, p(e0), p(e1)] against the "
        "reader's point columns 1:, reshape((-1, 2)).T, even/odd start/end numbering, id column 0, header length, number "
        "of header rows written by default vs. rows skipped by default. R5 (txt): header names joined with the "
        "separator the reader splits on, comment prefix stripped, one header line skipped, column formats joined with "
        "the loader's delimiter, the three per-column accumulations run in one loop over the same list, field names of "
        "the structured array agree. R6: the default number format must keep 17 significant digits, otherwise values do "
        "not round-trip (D9b: '%2.2e' keeps 3 - known finding). R7: the 3-d writer emits the attribute in which the constructor "
        "the reader calls stores its points (followed through super().__init__), i.e. the current point set, not a snapshot "
        "attribute. R8: in the 2-d reader the edges renumbered through uniquify_point_set's old->new map are handed on "
        "together with the unique points returned by the same call (lock-step of the triple). Not decided: csv.writer emitting repr(float) "
        "(trusted language fact), geometric processing done by the network constructors after reading."),
    "rule_text": "one obligation per bounding-box key per reader, per order flag, per delimiter pair, per loader call, per layout fact",
    "trusted_base": ["python ast", "sa.core (loader, astutil)", "csv.writer writes str(float) (shortest round-trip repr)",
                     "numpy: savetxt comment prefix '# ', loadtxt/genfromtxt defaults, ravel/reshape order semantics"],
    "assumptions": ["the normaliser applied to a copy of each anchored function (guard-continue -> if/else, one level of same-module helper inlining incl. early returns, c34.normalise) preserves behaviour", "readers are used with their default arguments on files written with the writer's default arguments "
                    "unless a rule says otherwise", "header names contain no whitespace (see notes)"],
    "technique": "writer/reader table extraction and comparison (permutations, flags, separators) on the AST",
}
MIN_INSTANCES = {"R1": 12, "R2": 5, "R3": 2, "R4": 8, "R5": 7, "R6": 1, "R7": 1, "R8": 1}


def _str(e) -> str | None:
    return e.value if isinstance(e, ast.Constant) and isinstance(e.value, str) else None


def _int(e) -> int | None:
    if isinstance(e, ast.Constant) and isinstance(e.value, int) and not isinstance(e.value, bool):
        return e.value
    if isinstance(e, ast.UnaryOp) and isinstance(e.op, ast.USub) and isinstance(e.operand, ast.Constant):
        return -e.operand.value
    return None


def _local_value(fn: ast.AST, name: str) -> ast.expr | None:
    """value of a name bound exactly once in the function (plain or annotated assignment); failing that, of a
    module-level constant of the function's module"""
    def binds(stmts):
        out = []
        for s in stmts:
            if isinstance(s, ast.Assign) and len(s.targets) == 1 and isinstance(s.targets[0], ast.Name) and s.targets[0].id == name:
                out.append(s.value)
            elif isinstance(s, ast.AnnAssign) and isinstance(s.target, ast.Name) and s.target.id == name and s.value is not None:
                out.append(s.value)
        return out
    vals = binds(stmts_local(fn))
    if not vals and getattr(fn, "_module", None) is not None:
        vals = binds(fn._module.tree.body)
    return vals[0] if len(vals) == 1 else None


def _resolve(fn: ast.AST, e: ast.expr, depth: int = 4) -> ast.expr:
    """follow single-assignment local names"""
    while isinstance(e, ast.Name) and depth > 0:
        v = _local_value(fn, e.id)
        if v is None:
            break
        e, depth = v, depth - 1
    return e


def _order_flag(call: ast.Call, pos: int | None = None) -> str:
    k = kwarg(call, "order")
    if k is None and pos is not None and len(call.args) > pos:
        k = call.args[pos]
    if k is None:
        return "C"
    s = _str(k)
    if s is None:
        raise Undecided(f"order flag `{u(k)}` is not a literal")
    return s.upper()


def _delimiter(call: ast.Call, default: str) -> str:
    k = kwarg(call, "delimiter")
    if k is None:
        return default
    s = _str(k)
    if s is None:
        raise Undecided(f"delimiter `{u(k)}` is not a literal")
    return s


def _fn(mod, qual: str) -> ast.FunctionDef:
    """anchored function after the behaviour-preserving rewrites (helpers inlined, guard-continue folded)"""
    cls = mod.cls(qual.split(".")[0]) if "." in qual else None
    fn2 = normalise(mod, mod.func(qual), cls=cls)
    fn2._module = mod
    return fn2


def _rows_written(fn: ast.FunctionDef):
    """[(row expression, kind-hint, call node)] for writerow(x) / writerows(<comprehension>) calls.
    hint: 'loop' (inside a for loop or a writerows comprehension), ('if', test) otherwise."""
    pm = parent_map(fn)
    out = []
    for c in [c for c in walk_local(fn) if isinstance(c, ast.Call) and call_name(c) in ("writerow", "writerows") and c.args]:
        if call_name(c) == "writerows":
            a = _resolve(fn, c.args[0])
            if isinstance(a, (ast.GeneratorExp, ast.ListComp)) and len(a.generators) == 1:
                out.append((a.elt, "loop", c, a.generators[0]))
                continue
            raise Undecided(f"writerows argument `{u(c.args[0])[:60]}` is not a comprehension")
        p, hint = c, None
        while p in pm:
            p = pm[p]
            if isinstance(p, ast.For):
                hint = ("loop", p)
                break
            if isinstance(p, ast.If) and hint is None:
                hint = ("if", p)
        if hint is None:
            hint = ("plain", None)
        out.append((c.args[0], hint[0], c, hint[1]))
    return out


# ======================================================================================
#  3-d csv
# ======================================================================================

def _writer3d(mod):
    fn = _fn(mod, "FractureNetwork3d.to_csv")
    wcalls = [c for c in walk_local(fn) if isinstance(c, ast.Call) and call_name(c) == "writer"]
    if len(wcalls) != 1:
        raise AnchorError("FractureNetwork3d.to_csv: csv.writer(...) not found")
    dom_row = frac_row = None
    for row, hint, call, ctxnode in _rows_written(fn):
        if hint == "loop":
            frac_row = (row, call)
        elif hint == "if" and "domain" in names_in(ctxnode.test):
            dom_row = (row, call)
    if dom_row is None or frac_row is None:
        raise AnchorError("FractureNetwork3d.to_csv: domain row / fracture rows not found")
    # column list of the domain row
    arg = _resolve(fn, dom_row[0])
    cols: list[str] | None = None
    if isinstance(arg, (ast.ListComp, ast.GeneratorExp)) and len(arg.generators) == 1 and isinstance(arg.generators[0].target, ast.Name):
        g = arg.generators[0]
        it = _resolve(fn, g.iter)
        elt = arg.elt
        if isinstance(it, (ast.List, ast.Tuple)) and all(_str(e) is not None for e in it.elts) and \
                isinstance(elt, ast.Subscript) and isinstance(elt.slice, ast.Name) and elt.slice.id == g.target.id \
                and "bounding_box" in u(inline_locals(fn, elt.value)):
            cols = [_str(e) for e in it.elts]
    elif isinstance(arg, (ast.List, ast.Tuple)):
        cs = []
        for e in arg.elts:
            if isinstance(e, ast.Subscript) and _str(e.slice) is not None and "bounding_box" in u(inline_locals(fn, e.value)):
                cs.append(_str(e.slice))
        if len(cs) == len(arg.elts):
            cols = cs
    if cols is None:
        raise Undecided(f"FractureNetwork3d.to_csv: domain row `{u(arg)[:80]}` is not a recognised list of bounding-box entries")
    # fracture rows: <pts>.ravel(order=?)
    farg = _resolve(fn, frac_row[0])
    if _is_call(farg, "list") or _is_call(farg, "tuple"):
        farg = farg.args[0]
    if not (isinstance(farg, ast.Call) and call_name(farg) in ("ravel", "flatten") and isinstance(farg.func, ast.Attribute)):
        raise Undecided(f"FractureNetwork3d.to_csv: fracture row `{u(farg)[:80]}` is not <pts>.ravel(order=...)")
    base = farg.func.value
    if isinstance(base, ast.Name) and base.id in ("np", "numpy") and farg.args:   # np.ravel(x, order=..)
        base = farg.args[0]
        flag = _order_flag(farg, 1)
    else:
        flag = _order_flag(farg, 0)
    transposed = isinstance(base, ast.Attribute) and base.attr == "T"
    return fn, wcalls[0], dom_row[1], cols, farg, flag, transposed


def _is_call(e, name: str) -> bool:
    return isinstance(e, ast.Call) and call_name(e) == name


def _box_table(fn: ast.FunctionDef, a: ast.expr, qual: str):
    """key -> column index for the argument of pp.Domain(...)"""
    a = _resolve(fn, a)
    table: dict[str, int] = {}
    src: set[str] = set()

    def entry(ks, v):
        if ks is None or not (isinstance(v, ast.Subscript) and isinstance(v.value, ast.Name) and _int(v.slice) is not None):
            raise Undecided(f"{qual}: box entry `{ks}: {u(v)}` is not `<str>: <row>[<int>]`")
        table[ks] = _int(v.slice)
        src.add(v.value.id)
    if isinstance(a, ast.Dict):
        for k, v in zip(a.keys, a.values):
            entry(_str(k) if k is not None else None, v)
    elif _is_call(a, "dict") and a.keywords and not a.args:
        for kw in a.keywords:
            entry(kw.arg, kw.value)
    elif _is_call(a, "dict") and len(a.args) == 1 and _is_call(a.args[0], "zip") and len(a.args[0].args) == 2:
        keys = _resolve(fn, a.args[0].args[0])
        if not (isinstance(keys, (ast.List, ast.Tuple)) and all(_str(e) is not None for e in keys.elts)):
            raise Undecided(f"{qual}: keys of dict(zip(...)) are not string literals")
        for i, e in enumerate(keys.elts):
            table[_str(e)] = i
        src.add(u(a.args[0].args[1]))
    else:
        return None, None
    if len(src) != 1:
        raise Undecided(f"{qual}: box entries read from several arrays {sorted(src)}")
    return a, table


def _reader_bbox(fn: ast.FunctionDef, qual: str):
    doms = [c for c in walk_local(fn) if isinstance(c, ast.Call) and call_name(c) == "Domain" and c.args]
    out = []
    for c in doms:
        node, table = _box_table(fn, c.args[0], qual)
        if table is not None:
            out.append((node, table))
    if len(out) != 1:
        raise AnchorError(f"{qual}: expected one pp.Domain(<table of box entries>), found {len(out)}")
    return out[0]


def _check_3d(ctx: Ctx) -> None:
    w = ctx.repo.module(N3D)
    r = ctx.repo.module(IMP)
    wfn, wcall, dom_row, cols, frac_expr, wflag, wtransposed = _writer3d(w)
    ctx.sample({"rule": "R1", "writer_columns": cols})
    if len(set(cols)) != len(cols):
        ctx.check("R1", False, w, "FractureNetwork3d.to_csv", dom_row, f"domain row writes a key twice: {cols}",
                  construct="domain row keys distinct")
    for qual in ("network_3d_from_csv", "elliptic_network_3d_from_csv"):
        fn = _fn(r, qual)
        d, table = _reader_bbox(fn, qual)
        ctx.sample({"rule": "R1", "reader": qual, "table": table})
        if set(table) != set(cols):
            ctx.check("R1", False, r, qual, d, f"reader box keys {sorted(table)} differ from the keys the writer emits {sorted(cols)}",
                      construct="box key set")
            continue
        for key, k in sorted(table.items()):
            wk = cols.index(key)
            ctx.check("R1", wk == k, r, qual, d,
                      f"box entry '{key}': reader takes column {k}, FractureNetwork3d.to_csv writes it in column {wk} (must agree)",
                      construct=f"bbox['{key}'] <- column {k} (writer column {wk})",
                      facts={"key": key, "reader_column": k, "writer_column": wk, "writer_order": cols})
        # delimiter
        rc = [c for c in walk_local(fn) if isinstance(c, ast.Call) and call_name(c) == "reader"]
        if len(rc) != 1:
            raise AnchorError(f"{qual}: csv.reader(...) not found")
        dw, dr = _delimiter(wcall, ","), _delimiter(rc[0], ",")
        ctx.check("R2", dw == dr, r, qual, rc[0], f"csv.reader delimiter ({dr!r}) must equal the csv.writer delimiter ({dw!r})",
                  construct=f"3d delimiter reader {dr!r} writer {dw!r}")
    # fracture rows
    fn = _fn(r, "network_3d_from_csv")
    resh = [c for c in walk_local(fn) if isinstance(c, ast.Call) and call_name(c) == "reshape"]
    if len(resh) != 1:
        raise AnchorError("network_3d_from_csv: expected one reshape of the row")
    rs = resh[0]
    np_form = isinstance(rs.func, ast.Attribute) and isinstance(rs.func.value, ast.Name) and rs.func.value.id in ("np", "numpy")
    rargs = rs.args[1:] if np_form else rs.args
    shape = rargs[0] if rargs else None
    if isinstance(shape, ast.Tuple) and len(shape.elts) == 2:
        dims = (_int(shape.elts[0]), _int(shape.elts[1]))
    elif len(rargs) >= 2:
        dims = (_int(rargs[0]), _int(rargs[1]))
    else:
        dims = (None, None)
    pm = parent_map(fn)
    rtransposed = isinstance(pm.get(rs), ast.Attribute) and pm[rs].attr == "T"
    rflag = _order_flag(rs)

    def layout(flag, transposed):
        """effective layout of the flat row: 'F' = point-major (x0,y0,z0,x1,...), 'C' = coordinate-major"""
        if flag not in ("C", "F"):
            raise Undecided(f"order flag {flag!r} not handled")
        return {"C": "F", "F": "C"}[flag] if transposed else flag
    if dims == (3, -1) and not rtransposed:
        r_layout = rflag if rflag in ("C", "F") else None
    elif dims == (-1, 3) and rtransposed:
        r_layout = {"C": "F", "F": "C"}.get(rflag)
    else:
        r_layout = None
    if r_layout is None:
        raise Undecided(f"network_3d_from_csv: `{u(rs)}` is not reshape((3, -1), order=o) or reshape((-1, 3)).T")
    w_layout = layout(wflag, wtransposed)
    ctx.check("R2", r_layout == w_layout, r, "network_3d_from_csv", rs,
              f"the writer flattens the 3 x n point array {'point' if w_layout == 'F' else 'coordinate'}-major "
              f"(`{u(frac_expr)}`), the reader rebuilds it "
              f"{'point' if r_layout == 'F' else 'coordinate'}-major (`{u(rs)}`)"
              + ("" if r_layout == w_layout else ": coordinates are scrambled for n > 1"),
              construct=f"3d point layout writer {w_layout} reader {r_layout}",
              facts={"writer": u(frac_expr), "reader": u(rs)})
    # the reshaped array is what the fracture is built from, and rows are parsed as float
    arr = (rs.args[0] if np_form else rs.func.value) if isinstance(rs.func, ast.Attribute) else None
    src = _resolve(fn, arr) if arr is not None else None
    if not (isinstance(src, ast.Call) and call_name(src) in ("asarray", "array", "fromiter", "asfarray")):
        raise Undecided(f"network_3d_from_csv: source of the reshaped row `{u(src) if src is not None else None}` not recognised")
    ctx.check("R2", "float" in u(src) or call_name(src) == "asfarray", r, "network_3d_from_csv", rs,
              "fracture rows must be parsed as floats before reshaping",
              construct="3d row parsed as float", facts={"source": u(src)})
    _check_point_attribute(ctx, w, r, fn, rs, frac_expr, pm)



def _find_class(ctx: Ctx, name: str, hint_dir: str = "src/porepy/fracs"):
    for rel in ctx.repo.all_py(hint_dir):
        m = ctx.repo.module(rel)
        for n in m.tree.body:
            if isinstance(n, ast.ClassDef) and n.name == name:
                return m, n
    return None, None


def _stored_attribute(ctx: Ctx, cls_name: str, param_pos: int | None, param_kw: str | None, depth: int = 0):
    """Attribute in which the constructor of `cls_name` stores the given argument: follows super().__init__ calls.
    Returns (attribute, declaring module, declaring class node, init) or raises Undecided."""
    if depth > 4:
        raise Undecided(f"constructor chain of {cls_name} too deep")
    m, c = _find_class(ctx, cls_name)
    if c is None:
        raise Undecided(f"class {cls_name} not found under src/porepy/fracs")
    init = next((f for f in c.body if isinstance(f, ast.FunctionDef) and f.name == "__init__"), None)
    if init is None:
        if not c.bases:
            raise Undecided(f"{cls_name} has no __init__")
        return _stored_attribute(ctx, (dotted(c.bases[0]) or u(c.bases[0])).split(".")[-1], param_pos, param_kw, depth + 1)
    params = [a.arg for a in init.args.args][1:]
    if param_kw is not None:
        if param_kw not in params:
            raise Undecided(f"{cls_name}.__init__ has no parameter {param_kw}")
        P = param_kw
    else:
        if param_pos is None or param_pos >= len(params):
            raise Undecided(f"{cls_name}.__init__: positional argument {param_pos} not bound")
        P = params[param_pos]
    for st in stmts_local(init):
        tg = st.target if isinstance(st, ast.AnnAssign) else (st.targets[0] if isinstance(st, ast.Assign) and len(st.targets) == 1 else None)
        val = getattr(st, "value", None)
        if isinstance(tg, ast.Attribute) and isinstance(tg.value, ast.Name) and tg.value.id == "self" and val is not None \
                and P in names_in(val):
            return tg.attr, m, c, init
    for call in [x for x in walk_local(init) if isinstance(x, ast.Call) and isinstance(x.func, ast.Attribute) and x.func.attr == "__init__"
                 and "super" in u(x.func.value)]:
        for k, a in enumerate(call.args):
            if isinstance(a, ast.Name) and a.id == P:
                base = (dotted(c.bases[0]) or u(c.bases[0])).split(".")[-1]
                return _stored_attribute(ctx, base, k, None, depth + 1)
        for kw in call.keywords:
            if isinstance(kw.value, ast.Name) and kw.value.id == P and kw.arg:
                base = (dotted(c.bases[0]) or u(c.bases[0])).split(".")[-1]
                return _stored_attribute(ctx, base, None, kw.arg, depth + 1)
    raise Undecided(f"{cls_name}.__init__: cannot see where parameter `{P}` is stored")


def _check_point_attribute(ctx: Ctx, w, r, rfn: ast.FunctionDef, rs: ast.Call, frac_expr: ast.Call, pm: dict) -> None:
    """R7: the writer must emit the attribute in which the reader's constructor stores the points it reads back."""
    # constructor call that receives the reshaped row
    node = rs
    while node in pm and not (isinstance(pm[node], ast.Call) and pm[node] is not rs and (node in pm[node].args or any(k.value is node for k in pm[node].keywords))):
        nxt = pm[node]
        if isinstance(nxt, ast.Attribute) and nxt.attr == "T":
            node = nxt
            continue
        if isinstance(nxt, ast.keyword):
            node = nxt
            break
        break
    cons = pm.get(node)
    kwname = None
    if isinstance(node, ast.keyword):
        kwname = node.arg
        cons = pm.get(node)
    if not isinstance(cons, ast.Call):
        # through a temporary
        st = pm.get(node)
        if isinstance(st, ast.Assign) and len(st.targets) == 1 and isinstance(st.targets[0], ast.Name):
            tmp = st.targets[0].id
            cands = [c for c in walk_local(rfn) if isinstance(c, ast.Call) and (any(isinstance(a, ast.Name) and a.id == tmp for a in c.args)
                                                                                 or any(isinstance(k.value, ast.Name) and k.value.id == tmp for k in c.keywords))
                     and (call_name(c) or "").endswith("Fracture")]
            if len(cands) == 1:
                cons = cands[0]
                pos_tmp = [i for i, a in enumerate(cons.args) if isinstance(a, ast.Name) and a.id == tmp]
                kwname = next((k.arg for k in cons.keywords if isinstance(k.value, ast.Name) and k.value.id == tmp), None)
                node = cons.args[pos_tmp[0]] if pos_tmp else node
    if not isinstance(cons, ast.Call) or not (call_name(cons) or "")[:1].isupper():
        raise Undecided("network_3d_from_csv: the constructor receiving the reshaped points was not found")
    cname = call_name(cons)
    pos = next((i for i, a in enumerate(cons.args) if a is node), None) if kwname is None else None
    attr, dm, dcls, init = _stored_attribute(ctx, cname, pos, kwname)
    # what the writer emits: <loopvar>.<attr>[.T].ravel(...)
    base = frac_expr.func.value if isinstance(frac_expr.func, ast.Attribute) else None
    if isinstance(base, ast.Name) and base.id in ("np", "numpy") and frac_expr.args:
        base = frac_expr.args[0]
    if isinstance(base, ast.Attribute) and base.attr == "T":
        base = base.value
    if not (isinstance(base, ast.Attribute) and isinstance(base.value, ast.Name)):
        raise Undecided(f"FractureNetwork3d.to_csv: written array `{u(base) if base is not None else None}` is not an attribute of the loop variable")
    wattr = base.attr
    # why another attribute is wrong: classify it from the constructor
    other = ""
    if wattr != attr:
        for st in stmts_local(init):
            tg = st.target if isinstance(st, ast.AnnAssign) else (st.targets[0] if isinstance(st, ast.Assign) and len(st.targets) == 1 else None)
            if isinstance(tg, ast.Attribute) and tg.attr == wattr and getattr(st, "value", None) is not None:
                other = f" (`{wattr}` is set once in the constructor as `{u(st.value)}`: a snapshot that geometry-modifying methods do not update)"
    ctx.check("R7", wattr == attr, w, "FractureNetwork3d.to_csv", frac_expr,
              f"the reader rebuilds each fracture as {cname}(<row>), whose constructor stores the points in `.{attr}` "
              f"({dm.rel}:{dcls.name}.__init__) - that is also the attribute later geometry operations modify; the writer must emit "
              f"`.{attr}`, it emits `.{wattr}`{other}",
              construct=f"3d writer emits .{wattr}; constructor stores points in .{attr}",
              facts={"constructor": cname, "stored_in": attr, "written": wattr})


def _check_uniquify_lockstep(ctx: Ctx, mod, qual: str, fn: ast.FunctionDef, as_rule: bool) -> int:
    """R8: when index arrays are renumbered through the old->new map returned by uniquify_point_set, every later call that
    receives a renumbered array must receive the UNIQUE points of the same call, not the array that was uniquified."""
    n = 0
    body = list(stmts_local(fn))
    for st in body:
        if not (isinstance(st, ast.Assign) and isinstance(st.value, ast.Call) and call_name(st.value) == "uniquify_point_set"
                and isinstance(st.targets[0], ast.Tuple) and len(st.targets[0].elts) == 3 and st.value.args
                and isinstance(st.value.args[0], ast.Name)):
            continue
        U, _N2O, O2N = [e.id if isinstance(e, ast.Name) else None for e in st.targets[0].elts]
        src = st.value.args[0].id
        if O2N is None or O2N == "_":
            continue
        after = [x for x in body if x.lineno > st.lineno]
        # arrays renumbered through O2N
        renum = set()
        for x in after:
            if isinstance(x, ast.Assign) and isinstance(x.value, ast.Subscript) and isinstance(x.value.value, ast.Name) and x.value.value.id == O2N:
                t = x.targets[0]
                base = t.value if isinstance(t, ast.Subscript) else t
                if isinstance(base, ast.Name):
                    renum.add(base.id)
        if not renum:
            continue
        # is `src` re-bound to the unique points (same name re-used) ?
        consumers = [c for x in after for c in ast.walk(x) if isinstance(c, ast.Call) and call_name(c) != "uniquify_point_set"
                     and any(isinstance(a, ast.Name) and a.id in renum for a in list(c.args) + [k.value for k in c.keywords])]
        for c in consumers:
            names = [a.id for a in list(c.args) + [k.value for k in c.keywords] if isinstance(a, ast.Name)]
            stale = src in names and U != src
            uses_unique = U is not None and U != "_" and U in names
            if not stale and not uses_unique:
                continue  # the call does not take a point array at all
            n += 1
            msg = (f"`{u(c)[:70]}` receives `{', '.join(sorted(renum))}` renumbered through `{O2N}` (numbers of the UNIQUE points "
                   f"returned by `{u(st.value)[:50]}`) together with the point array "
                   + (f"`{src}` that was uniquified - the unique points are bound to `{U}` and not used: indices and points no longer match"
                      if stale else f"`{U}` returned by the same call"))
            if as_rule:
                ctx.check("R8", not stale, mod, qual, c, msg,
                          construct=f"renumbered indices passed with {'the un-uniquified' if stale else 'the unique'} points",
                          facts={"unique": U, "input": src, "renumbered": sorted(renum)})
            elif stale:
                ctx.note(f"sweep (not a finding) {mod.rel}:{qual}: " + msg)
    return n

# ======================================================================================
#  2-d csv
# ======================================================================================

def _list_items(e: ast.expr, env: dict, ID: str, EDGE: str):
    """items of a row-building expression: 'id', 'pt<k>@<array>', or '?<text>'"""
    def col(a):
        if _is_call(a, "list") or _is_call(a, "tuple"):
            a = a.args[0]
        if isinstance(a, ast.Subscript) and isinstance(a.slice, ast.Tuple) and len(a.slice.elts) == 2 \
                and isinstance(a.slice.elts[0], ast.Slice) and a.slice.elts[0].lower is None and a.slice.elts[0].upper is None \
                and isinstance(a.slice.elts[1], ast.Subscript) and u(a.slice.elts[1].value) == EDGE and _int(a.slice.elts[1].slice) is not None:
            return f"pt{_int(a.slice.elts[1].slice)}@{u(a.value)}"
        return None
    if isinstance(e, ast.Name) and e.id in env:
        return list(env[e.id])
    if isinstance(e, (ast.List, ast.Tuple)):
        out = []
        for x in e.elts:
            if isinstance(x, ast.Starred):
                if isinstance(x.value, ast.Name) and x.value.id in env:
                    out.extend(env[x.value.id])
                    continue
                c = col(x.value)
                out.append(c if c else f"?{u(x)}")
            elif isinstance(x, ast.Name) and x.id == ID:
                out.append("id")
            else:
                out.append(f"?{u(x)}")
        return out
    if isinstance(e, ast.BinOp) and isinstance(e.op, ast.Add):
        return _list_items(e.left, env, ID, EDGE) + _list_items(e.right, env, ID, EDGE)
    c = col(e)
    if c:
        return [c]
    return [f"?{u(e)[:40]}"]


def _check_2d(ctx: Ctx) -> None:
    w = ctx.repo.module(N2D)
    r = ctx.repo.module(IMP)
    wq, rq = "FractureNetwork2d.to_csv", "network_2d_from_csv"
    wfn = _fn(w, wq)
    rfn = _fn(r, rq)
    wcalls = [c for c in walk_local(wfn) if isinstance(c, ast.Call) and call_name(c) == "writer"]
    if len(wcalls) != 1:
        raise AnchorError(f"{wq}: csv.writer not found")
    hdr_row = data_row = None
    for row, hint, call, ctxnode in _rows_written(wfn):
        if hint == "loop":
            data_row = (row, call, ctxnode)
        elif hint == "if":
            hdr_row = (row, call, ctxnode)
    if hdr_row is None or data_row is None:
        raise AnchorError(f"{wq}: header row / data rows not found")
    # ---- header
    harg = _resolve(wfn, hdr_row[0])
    hif = hdr_row[2]
    if not (isinstance(harg, (ast.List, ast.Tuple)) and all(_str(e) is not None for e in harg.elts)):
        raise Undecided(f"{wq}: header row is not a list of string literals")
    header = [_str(e) for e in harg.elts]
    flag = hif.test.id if isinstance(hif.test, ast.Name) else None
    wargs = wfn.args
    defaults = dict(zip([a.arg for a in wargs.args][len(wargs.args) - len(wargs.defaults):], wargs.defaults))
    for ka, kd in zip(wargs.kwonlyargs, wargs.kw_defaults):
        if kd is not None:
            defaults[ka.arg] = kd
    if flag is None or flag not in defaults or not isinstance(defaults[flag], ast.Constant):
        raise Undecided(f"{wq}: header is not guarded by a boolean parameter with a literal default")
    n_hdr_default = 1 if defaults[flag].value else 0
    # ---- data rows
    drow, dc, dloop = data_row
    if isinstance(dloop, ast.comprehension):
        target, it, body = dloop.target, dloop.iter, []
    else:
        target, it, body = dloop.target, dloop.iter, dloop.body
    if not (isinstance(target, ast.Tuple) and len(target.elts) == 2 and _isenum(it) and all(isinstance(e, ast.Name) for e in target.elts)):
        raise Undecided(f"{wq}: data loop is not `for id, edge in enumerate(<edges>.T)`")
    ID, EDGE = target.elts[0].id, target.elts[1].id
    edges_src = u(it.args[0])
    env: dict[str, list] = {}
    for s in body:
        if isinstance(s, ast.Assign) and len(s.targets) == 1 and isinstance(s.targets[0], ast.Name):
            env[s.targets[0].id] = _list_items(s.value, env, ID, EDGE)
        elif isinstance(s, ast.AugAssign) and isinstance(s.target, ast.Name) and isinstance(s.op, ast.Add) and s.target.id in env:
            env[s.target.id] = env[s.target.id] + _list_items(s.value, env, ID, EDGE)
        elif isinstance(s, ast.Expr) and isinstance(s.value, ast.Call) and call_name(s.value) in ("extend", "append") \
                and isinstance(s.value.func, ast.Attribute) and u(s.value.func.value) in env and s.value.args:
            items = _list_items(s.value.args[0], env, ID, EDGE)
            if call_name(s.value) == "append" and not (len(items) == 1 and items[0] == "id"):
                items = [f"?append({u(s.value.args[0])[:30]})"]
            env[u(s.value.func.value)] = env[u(s.value.func.value)] + items
        elif isinstance(s, ast.Expr) and (s.value is dc or isinstance(s.value, ast.Constant)):
            pass
        else:
            raise Undecided(f"{wq}: statement `{u(s)[:60]}` in the data loop is not recognised")
    layout = _list_items(drow, env, ID, EDGE)
    if any(x.startswith("?") for x in layout):
        raise Undecided(f"{wq}: row layout {layout} contains unrecognised entries")
    ctx.sample({"rule": "R4", "writer_layout": layout, "header": header, "header_rows_default": n_hdr_default})
    n_lead = 0
    while n_lead < len(layout) and layout[n_lead] == "id":
        n_lead += 1
    pts_part = layout[n_lead:]
    pt_arrays = {x.split("@")[1] for x in pts_part}
    ok_pts = [x.split("@")[0] for x in pts_part] == ["pt0", "pt1"] and len(pt_arrays) == 1
    ctx.check("R4", ok_pts and n_lead == 1, w, wq, dc,
              f"a row must be [id, point(edge[0]), point(edge[1])] from one point array; it is {layout}",
              construct=f"2d row layout {[x.split('@')[0] for x in layout]}", facts={"layout": layout})
    ctx.check("R4", (edges_src.endswith(".T") or edges_src.endswith(".transpose()")) and "_edges" in edges_src, w, wq, dc,
              f"rows are produced per edge (column of the edge array): iterates `{edges_src}`", construct="2d rows iterate edges.T")

    # ---- reader
    gens = [c for c in walk_local(rfn) if isinstance(c, ast.Call) and call_name(c) == "genfromtxt"]
    if len(gens) != 1:
        raise AnchorError(f"{rq}: np.genfromtxt call not found")

    def default_of(v: ast.expr):
        """literal default carried by `kwargs.get(name, default)` or a literal itself"""
        if _is_call(v, "get") and len(v.args) == 2:
            return v.args[1]
        if _is_call(v, "pop") and len(v.args) == 2:
            return v.args[1]
        return v
    rdef: dict[str, ast.expr] = {}
    star = [k.value for k in gens[0].keywords if k.arg is None]
    for sv in star:
        if not isinstance(sv, ast.Name):
            raise Undecided(f"{rq}: **{u(sv)} passed to genfromtxt is not a local dict")
        for s in stmts_local(rfn):
            if isinstance(s, ast.Assign) and len(s.targets) == 1:
                t = s.targets[0]
                if isinstance(t, ast.Subscript) and u(t.value) == sv.id and _str(t.slice) is not None:
                    rdef[_str(t.slice)] = default_of(s.value)
                elif isinstance(t, ast.Name) and t.id == sv.id:
                    dv = s.value
                    if isinstance(dv, ast.Dict):
                        for k, v in zip(dv.keys, dv.values):
                            if k is not None and _str(k) is not None:
                                rdef[_str(k)] = default_of(v)
                    elif _is_call(dv, "dict"):
                        for kw in dv.keywords:
                            if kw.arg:
                                rdef[kw.arg] = default_of(kw.value)
    for k in gens[0].keywords:
        if k.arg is not None:
            rdef[k.arg] = default_of(k.value)
    skip = _int(rdef["skip_header"]) if "skip_header" in rdef else 0
    if skip is None:
        raise Undecided(f"{rq}: skip_header default `{u(rdef['skip_header'])}` is not a literal")
    if "delimiter" in rdef and _str(rdef["delimiter"]) is None:
        raise Undecided(f"{rq}: delimiter default `{u(rdef['delimiter'])}` is not a literal")
    delim_r = _str(rdef["delimiter"]) if "delimiter" in rdef else None
    comment_hdr = bool(header) and header[0].lstrip().startswith("#")
    ok_skip = (skip == n_hdr_default) or (skip == 0 and n_hdr_default == 1 and comment_hdr)
    ctx.check("R4", ok_skip, r, rq, gens[0],
              f"the writer emits {n_hdr_default} header row(s) by default, the reader skips {skip} row(s) by default"
              + ("" if ok_skip else (": the first fracture is lost" if skip > n_hdr_default else ": the header is parsed as data")),
              construct=f"2d header rows written {n_hdr_default} skipped {skip}",
              facts={"with_header_default": n_hdr_default, "skip_header_default": skip})
    dw = _delimiter(wcalls[0], ",")
    ctx.check("R2", delim_r == dw, r, rq, gens[0], f"genfromtxt default delimiter ({delim_r!r}) must equal the csv.writer delimiter ({dw!r})",
              construct=f"2d delimiter reader {delim_r!r} writer {dw!r}")
    # point columns
    pts_assign = None
    for s in stmts_local(rfn):
        if isinstance(s, ast.Assign) and isinstance(s.targets[0], ast.Name) and any(
                isinstance(c, ast.Call) and call_name(c) == "reshape" for c in ast.walk(s.value)) and "data" in names_in(s.value):
            pts_assign = s
            break
    if pts_assign is None:
        raise AnchorError(f"{rq}: `pts = data[:, cols].reshape((-1, 2)).T` not found")
    v = pts_assign.value
    # accepted: <rows>.reshape((-1, nd)).T in C order (consecutive pairs of a row are one point).
    # recognised wrong: <rows>.reshape((nd, -1)) - for a C-ordered (n x 2nd) selection that is coordinate-major.
    if isinstance(v, ast.Attribute) and v.attr == "T" and isinstance(v.value, ast.Call) and call_name(v.value) == "reshape":
        rs, transposed = v.value, True
    elif isinstance(v, ast.Call) and call_name(v) == "reshape":
        rs, transposed = v, False
    else:
        raise Undecided(f"{rq}: point extraction `{u(v)}` not recognised")
    shape = rs.args[0] if isinstance(rs.args[0], ast.Tuple) else ast.Tuple(elts=list(rs.args[:2]))
    dims = tuple(_int(e) for e in shape.elts)
    if len(dims) != 2 or None in dims or sorted(dims)[0] != -1:
        raise Undecided(f"{rq}: reshape dimensions `{u(shape)}` not recognised")
    nd = dims[1] if dims[0] == -1 else dims[0]
    pairs = transposed and dims[0] == -1 and _order_flag(rs) == "C"
    ctx.check("R4", pairs and nd == 2, r, rq, rs,
              f"points must be rebuilt from consecutive (x, y) pairs of each row: reshape((-1, 2)).T in C order; found `{u(v)}`",
              construct=f"2d reshape dims {dims} order {_order_flag(rs)} transposed {transposed}")
    ctx.check("R4", len(header) == n_lead + 2 * (nd or 0), w, wq, hdr_row[1],
              f"header names ({len(header)}) must match the row width 1 + 2*{nd}", construct=f"2d header width {len(header)}")
    sel = rs.func.value  # data[:, pt_cols]
    cols = sel.slice.elts[1] if isinstance(sel, ast.Subscript) and isinstance(sel.slice, ast.Tuple) and len(sel.slice.elts) == 2 else None
    if isinstance(cols, ast.Name):
        cdefs = [s.value for s in stmts_local(rfn) if isinstance(s, ast.Assign) and u(s.targets[0]) == cols.id]
        cols = cdefs[0] if cdefs else None
    first = None
    if isinstance(cols, ast.Call) and call_name(cols) == "arange" and len(cols.args) >= 2:
        first = _int(cols.args[0])
    elif isinstance(cols, ast.Slice) and cols.lower is not None and cols.upper is None:
        first = _int(cols.lower)
    if first is None:
        raise Undecided(f"{rq}: point column selection not recognised")
    ctx.check("R4", first == n_lead, r, rq, pts_assign,
              f"reader point columns start at {first}; the writer puts {n_lead} leading id column(s) before the points (must agree)",
              construct=f"2d point columns start {first} (writer lead {n_lead})")
    # edges: even = start, odd = end (non-polyline arm)
    starts = None
    vst = None
    for s in stmts_local(rfn):
        if not (isinstance(s, ast.Assign) and u(s.targets[0]) == "edges"):
            continue
        val = s.value
        ar = [c for c in ast.walk(val) if isinstance(c, ast.Call) and call_name(c) == "arange"]
        if isinstance(val, ast.Call) and call_name(val) in ("vstack", "array", "stack") and len(ar) == 2:
            ar.sort(key=lambda c: (c.lineno, c.col_offset))
            starts = [(_int(c.args[0]), _int(c.args[2]) if len(c.args) > 2 else None) for c in ar]
            vst = s
        elif isinstance(val, ast.Attribute) and val.attr == "T" and _is_call(val.value, "reshape") and len(ar) == 1 \
                and len(ar[0].args) == 1 and u(val.value.args[0] if len(val.value.args) == 1 else ast.Tuple(elts=val.value.args)) in ("(-1, 2)",) \
                and _order_flag(val.value) == "C":
            starts = [(0, 2), (1, 2)]   # arange(2n).reshape((-1, 2)).T == [[0, 2, ...], [1, 3, ...]]
            vst = s
    if vst is None:
        raise AnchorError(f"{rq}: edge numbering `edges = np.vstack((np.arange(0, 2n, 2), np.arange(1, 2n, 2)))` not found")
    ctx.check("R4", starts == [(0, 2), (1, 2)], r, rq, vst,
              f"edge k joins points 2k (start) and 2k+1 (end), the order the writer emits them; found arange starts/steps {starts}",
              construct=f"2d edge numbering {starts}")
    fid = [s for s in stmts_local(rfn) if isinstance(s, ast.Assign) and u(s.targets[0]) == "edges_frac_id"
           and isinstance(s.value, ast.Subscript) and u(s.value.value) == "data"]
    ok_id = bool(fid) and all(u(s.value) == "data[:, 0]" for s in fid)
    ctx.check("R4", ok_id, r, rq, fid[0] if fid else rfn, "the fracture id is read from column 0, where the writer puts it",
              construct="2d id column 0")
    if _check_uniquify_lockstep(ctx, r, rq, rfn, as_rule=True) == 0:
        raise Undecided(f"{rq}: no call receives the point array together with the renumbered edges (uniquify lock-step not visible)")


def _isenum(e) -> bool:
    return isinstance(e, ast.Call) and call_name(e) == "enumerate" and len(e.args) == 1


# ======================================================================================
#  txt
# ======================================================================================
FMT_RE = re.compile(r"^%[-+ #0]*(\d+)?(?:\.(\d+))?([eEfFgGrs])$")


def sig_digits(fmt: str):
    """significant decimal digits kept by a printf float format; None = not a single float spec;
    float('inf') = lossless (%r / %s)."""
    m = FMT_RE.match(fmt.strip())
    if not m:
        return None
    prec = int(m.group(2)) if m.group(2) is not None else None
    conv = m.group(3)
    if conv in "rs":
        return float("inf") if prec is None else prec
    if conv in "eE":
        return (6 if prec is None else prec) + 1
    if conv in "gG":
        return max(1, 6 if prec is None else prec)
    return 0  # fixed-point: no relative precision


def _iterable_of(loop_target: ast.expr, loop_iter: ast.expr, var: str):
    """text of the sequence the loop variable `var` runs over, for `for var in L`, `for i, var in enumerate(L)`,
    `for x, var in zip(X, L)` (any position); None if `var` is not such a variable."""
    if isinstance(loop_target, ast.Name):
        return u(loop_iter) if loop_target.id == var else None
    if isinstance(loop_target, ast.Tuple):
        names = [e.id if isinstance(e, ast.Name) else None for e in loop_target.elts]
        if var not in names:
            return None
        k = names.index(var)
        if _isenum(loop_iter) and len(names) == 2 and k == 1:
            return u(loop_iter.args[0])
        if _is_call(loop_iter, "zip") and len(loop_iter.args) == len(names) and not loop_iter.keywords:
            return u(loop_iter.args[k])
    return None


def _accumulations(fn: ast.FunctionDef, name: str):
    """How the string `name` is built: [(attribute, separator, iterated list text, node)] from
    `name += item.attr + sep` in a for loop, or `name = sep.join(item.attr for item in LIST)`."""
    pm = parent_map(fn)
    out = []
    for s in stmts_local(fn):
        if isinstance(s, ast.AugAssign) and isinstance(s.op, ast.Add) and isinstance(s.target, ast.Name) and s.target.id == name:
            loop = s
            while loop in pm and not isinstance(loop, ast.For):
                loop = pm[loop]
            if not isinstance(loop, ast.For):
                raise Undecided(f"`{u(s)}` is not inside a for loop")
            v = s.value
            attr = sep = lst = None
            if isinstance(v, ast.BinOp) and isinstance(v.op, ast.Add):
                for x, y in ((v.left, v.right), (v.right, v.left)):
                    if isinstance(x, ast.Attribute) and isinstance(x.value, ast.Name) and _str(y) is not None:
                        lst = _iterable_of(loop.target, loop.iter, x.value.id)
                        if lst is not None:
                            attr, sep = x.attr, _str(y)
            if attr is None:
                raise Undecided(f"accumulation `{u(s)}` is not `+= item.<attr> + <sep>`")
            out.append((attr, sep, lst, s))
        elif isinstance(s, ast.Assign) and len(s.targets) == 1 and isinstance(s.targets[0], ast.Name) and s.targets[0].id == name \
                and _is_call(s.value, "join") and isinstance(s.value.func, ast.Attribute) and _str(s.value.func.value) is not None \
                and s.value.args and isinstance(s.value.args[0], (ast.GeneratorExp, ast.ListComp)) and len(s.value.args[0].generators) == 1:
            g = s.value.args[0].generators[0]
            e = s.value.args[0].elt
            if isinstance(g.target, ast.Name) and isinstance(e, ast.Attribute) and isinstance(e.value, ast.Name) and e.value.id == g.target.id \
                    and not g.ifs:
                out.append((e.attr, _str(s.value.func.value), u(g.iter), s))
            else:
                raise Undecided(f"join expression `{u(s.value)[:80]}` not recognised")
    return out


def _check_txt(ctx: Ctx) -> None:
    m = ctx.repo.module(TXT)
    wq, rq = "export_data_to_txt", "read_data_from_txt"
    wfn, rfn = _fn(m, wq), _fn(m, rq)
    cls = m.cls("TxtData")

    # ---- R3 loader ---------------------------------------------------------------------
    loads = [c for c in walk_local(rfn) if isinstance(c, ast.Call) and call_name(c) in ("loadtxt", "genfromtxt")]
    if len(loads) != 1:
        raise AnchorError(f"{rq}: expected one np.loadtxt call")
    ld = loads[0]
    pm = parent_map(rfn)
    tgt = pm.get(ld)
    vname = tgt.targets[0].id if isinstance(tgt, ast.Assign) and isinstance(tgt.targets[0], ast.Name) else None
    zips = [c for c in walk_local(rfn) if _is_call(c, "zip") and len(c.args) == 2]
    pair = None
    for z in zips:
        a0, a1 = z.args
        if (vname is not None and u(a1) == vname) or a1 is ld:
            pair = (u(a0), z)
        elif (vname is not None and u(a0) == vname) or a0 is ld:
            pair = (u(a1), z)
    if pair is None:
        raise Undecided(f"{rq}: the loader result is not paired with the header names through zip(names, values)")
    NAMES = pair[0]
    unpack = kwarg(ld, "unpack")
    ndmin = kwarg(ld, "ndmin")
    ctx.check("R3", isinstance(unpack, ast.Constant) and unpack.value is True, m, rq, ld,
              "the array paired with the header names must be iterated column by column: unpack=True",
              construct=f"loadtxt unpack={u(unpack) if unpack is not None else 'absent'}")
    ctx.check("R3", _int(ndmin) == 2 if ndmin is not None else False, m, rq, ld,
              "np.loadtxt(..., unpack=True) without ndmin=2 returns a 1-d array for a one-column file (and 0-d values for a "
              "one-row file): zip(names, values) then pairs the single name with the first scalar - one exported array "
              "[1, 2, 3] reads back as {'a': 1.0}", construct=f"loadtxt ndmin={u(ndmin) if ndmin is not None else 'absent'}")
    # ---- R5 header / separators ------------------------------------------------------------
    sv = [c for c in walk_local(wfn) if isinstance(c, ast.Call) and call_name(c) == "savetxt"]
    if len(sv) != 1:
        raise AnchorError(f"{wq}: np.savetxt call not found")
    sv = sv[0]
    H, FM = kwarg(sv, "header"), kwarg(sv, "fmt")
    X = kwarg(sv, "X") or (sv.args[1] if len(sv.args) > 1 else None)
    if not (isinstance(H, ast.Name) and isinstance(FM, ast.Name) and isinstance(X, ast.Name)):
        raise Undecided(f"{wq}: savetxt arguments header/fmt/X are not local names")
    comments = kwarg(sv, "comments")
    prefix = _str(comments) if comments is not None else "# "
    if prefix is None:
        raise Undecided(f"{wq}: comments= is not a literal")
    LISTP = wfn.args.args[0].arg
    hacc, facc = _accumulations(wfn, H.id), _accumulations(wfn, FM.id)
    if len(hacc) != 1 or len(facc) != 1:
        raise Undecided(f"{wq}: header/fmt are not built by exactly one accumulation each ({len(hacc)}, {len(facc)})")
    (hattr, hsep, hlist, hnode), (fattr, fsep, flist, fnode) = hacc[0], facc[0]
    stores = [s for s in stmts_local(wfn) if isinstance(s, ast.Assign) and isinstance(s.targets[0], ast.Subscript)
              and u(s.targets[0].value) == X.id]
    if len(stores) != 1:
        raise Undecided(f"{wq}: expected one column store into `{X.id}`")
    pmw = parent_map(wfn)
    xl = stores[0]
    while xl in pmw and not isinstance(xl, ast.For):
        xl = pmw[xl]
    sval = stores[0].value
    if not (isinstance(xl, ast.For) and isinstance(sval, ast.Attribute) and isinstance(sval.value, ast.Name)):
        raise Undecided(f"{wq}: column store `{u(stores[0])}` is not `table[<field>] = item.<attr>` inside a for loop")
    DAT = sval.value.id
    xlist = _iterable_of(xl.target, xl.iter, DAT)
    if xlist is None:
        raise Undecided(f"{wq}: loop `for {u(xl.target)} in {u(xl.iter)}` around the column store not recognised")
    ctx.check("R5", hlist == flist == xlist, m, wq, stores[0],
              f"column values, header names and formats must be taken from the same list in the same order; they iterate "
              f"`{xlist}`, `{hlist}`, `{flist}`", construct=f"txt columns/header/fmt iterate {xlist} / {hlist} / {flist}")
    ctx.check("R5", xlist == LISTP, m, wq, xl, f"the columns must come from the exported list itself (`{LISTP}`); "
              f"they come from `{xlist}`", construct=f"txt loop over {xlist}")
    ctx.check("R5", (hattr, fattr) == ("header", "format"), m, wq, hnode,
              f"the header line is built from .header and the row format from .format; found .{hattr} / .{fattr}",
              construct=f"txt header from .{hattr}, fmt from .{fattr}")
    ctx.check("R5", u(stores[0].value) == f"{DAT}.array", m, wq, stores[0], "column values come from the item's .array",
              construct=f"txt column value {_alpha(stores[0].value, DAT)}")
    # structured dtype names agree
    key_w = stores[0].targets[0].slice
    dt = kwarg([c for c in walk_local(wfn) if _is_call(c, "zeros") or _is_call(c, "empty")][0], "dtype") if any(
        _is_call(c, "zeros") or _is_call(c, "empty") for c in walk_local(wfn)) else None
    key_d = None       # f-string pattern of the dtype names
    names_list_d = None  # or: the list the dtype names are drawn from
    for n in walk_local(wfn):
        if isinstance(n, ast.Tuple) and len(n.elts) == 2 and "float" in u(n.elts[1]):
            if isinstance(n.elts[0], ast.JoinedStr):
                key_d = n.elts[0]
            elif isinstance(n.elts[0], ast.Name):
                par = parent_map(wfn).get(n)
                if isinstance(par, (ast.ListComp, ast.GeneratorExp)) and len(par.generators) == 1:
                    names_list_d = _iterable_of(par.generators[0].target, par.generators[0].iter, n.elts[0].id)

    def fpat(js):
        return "".join(v.value if isinstance(v, ast.Constant) else "{}" for v in js.values)
    if isinstance(key_w, ast.JoinedStr) and isinstance(key_d, ast.JoinedStr):
        ctx.check("R5", fpat(key_w) == fpat(key_d), m, wq, stores[0],
                  f"field name pattern of the store `{fpat(key_w)}` must equal the dtype's `{fpat(key_d)}`",
                  construct=f"txt field names {fpat(key_w)} / {fpat(key_d)}")
    elif isinstance(key_w, ast.Name) and names_list_d is not None:
        names_list_w = _iterable_of(xl.target, xl.iter, key_w.id)
        if names_list_w is None:
            raise Undecided(f"{wq}: field key `{key_w.id}` of the column store is not a loop variable over a list of names")
        ctx.check("R5", names_list_w == names_list_d, m, wq, stores[0],
                  f"column k is stored under the k-th name of `{names_list_w}`; the dtype takes its names from `{names_list_d}` (must be the same list)",
                  construct=f"txt field names from {names_list_w} / {names_list_d}")
    else:
        raise Undecided(f"{wq}: field names of the structured array not recognised (store key `{u(key_w)}`)")
    # reader side: names = <header expr>.split(sep?)
    ndefs = [s for s in stmts_local(rfn) if isinstance(s, ast.Assign) and u(s.targets[0]) == NAMES]
    sp = ndefs[0].value if len(ndefs) == 1 else None
    if sp is None and _is_call(pair[1].args[0], "split"):
        sp = pair[1].args[0]
    if not (isinstance(sp, ast.Call) and call_name(sp) == "split" and isinstance(sp.func, ast.Attribute)):
        raise Undecided(f"{rq}: `{NAMES}` is not defined as <header>.split(...)")
    rsep = None if not sp.args else _str(sp.args[0])
    if sp.args and rsep is None:
        raise Undecided(f"{rq}: split separator is not a literal")
    ok_sep = (rsep is None and hsep.strip() == "" and hsep != "") or (rsep is not None and rsep == hsep)
    ctx.check("R5", ok_sep, m, rq, sp, f"header names are joined with {hsep!r} and split on {'whitespace' if rsep is None else repr(rsep)} (must agree)",
              construct=f"txt header separator writer {hsep!r} reader {rsep!r}")
    # everything the header string went through before the split
    chain: list[ast.expr] = []
    todo = [sp.func.value]
    seen: set[str] = set()
    while todo:
        e = todo.pop()
        chain.append(e)
        for n in ast.walk(e):
            if isinstance(n, ast.Name) and n.id not in seen:
                seen.add(n.id)
                todo.extend(s.value for s in stmts_local(rfn) if isinstance(s, ast.Assign) and any(u(t) == n.id for t in s.targets))
    strips = []
    first_line = False
    for e in chain:
        for n in ast.walk(e):
            if isinstance(n, ast.Call) and call_name(n) in ("lstrip", "strip", "removeprefix") and n.args and _str(n.args[0]) is not None:
                strips.append((call_name(n), _str(n.args[0])))
            if isinstance(n, ast.Subscript) and _int(n.slice) == 0:
                first_line = True
            if isinstance(n, ast.Call) and call_name(n) in ("readline", "next"):
                first_line = True
            if isinstance(n, ast.Subscript) and isinstance(n.slice, ast.Slice) and _int(n.slice.lower) == len(prefix) and n.slice.upper is None:
                strips.append(("removeprefix", prefix))
    ok_prefix = prefix == "" or any((k in ("lstrip", "strip") and set(prefix) <= set(a)) or (k == "removeprefix" and a == prefix)
                                    for k, a in strips)
    ctx.check("R5", ok_prefix, m, rq, sp,
              f"np.savetxt prefixes the header line with {prefix!r}; the reader must strip it before splitting the names "
              f"(found {strips})", construct=f"txt comment prefix {prefix!r} stripped {ok_prefix}")
    if not first_line:
        raise Undecided(f"{rq}: cannot see that the header is the FIRST line of the file")
    skiprows = kwarg(ld, "skiprows")
    ctx.check("R5", _int(skiprows) == 1 if skiprows is not None else False, m, rq, ld,
              "the writer emits exactly one header line: names are taken from the first line and the loader skips 1 row "
              f"(skiprows={u(skiprows) if skiprows is not None else 'absent'})",
              construct=f"txt skiprows {u(skiprows) if skiprows is not None else 'absent'}")
    rdel = kwarg(ld, "delimiter")
    wdel = kwarg(sv, "delimiter")
    if rdel is not None and _str(rdel) is None:
        raise Undecided(f"{rq}: delimiter not a literal")
    ok_del = (rdel is None and fsep.strip() == "" and fsep != "") or (rdel is not None and _str(rdel) == fsep)
    ctx.check("R5", ok_del, m, rq, ld,
              f"column formats are joined with {fsep!r} (that is the column separator in the file); the loader splits on "
              f"{'whitespace' if rdel is None else repr(_str(rdel))}", construct=f"txt column separator writer {fsep!r} reader "
              f"{None if rdel is None else _str(rdel)!r}")
    if wdel is not None:
        ctx.note(f"{wq}: savetxt(delimiter=...) is ignored by numpy when fmt is a full row format")

    # ---- R6 default precision ------------------------------------------------------------------
    fdef = None
    for s in cls.body:
        if isinstance(s, ast.AnnAssign) and isinstance(s.target, ast.Name) and s.target.id == "format":
            fdef = s
    if fdef is None:
        raise AnchorError("TxtData.format field not found")
    if fdef.value is None:
        ctx.check("R6", True, m, "TxtData", fdef, "no default format: the caller chooses the precision",
                  construct="TxtData.format has no default")
    else:
        fs = _str(fdef.value)
        if fs is None:
            raise Undecided("TxtData.format default is not a string literal")
        sd = sig_digits(fs)
        if sd is None:
            raise Undecided(f"TxtData.format default {fs!r} is not a single printf float format")
        ctx.check("R6", sd >= 17, m, "TxtData", fdef,
                  f"default number format {fs!r} keeps {sd} significant digit(s); a float64 needs 17 to survive the "
                  f"write/read round trip (1.2345 is read back as 1.23)" if sd < 17 else f"default format {fs!r} is lossless",
                  construct=f"TxtData.format default {fs!r}", facts={"format": fs, "significant_digits": sd})
    ctx.sample({"rule": "R5", "header_sep": hsep, "fmt_sep": fsep, "comment_prefix": prefix, "reader_split": rsep})


def _alpha(e: ast.expr, item: str) -> str:
    """text of e with the loop item renamed (stable construct under renaming)"""
    return u(e).replace(item + ".", "ITEM.") if isinstance(e, ast.Attribute) else u(e)


def _sweep(ctx: Ctx) -> None:
    n = 0
    for mod in ctx.repo.modules("src/porepy"):
        for c in [c for c in ast.walk(mod.tree) if isinstance(c, ast.Call) and call_name(c) == "TxtData"]:
            n += 1
            f = kwarg(c, "format")
            if f is None:
                ctx.note(f"{mod.rel}:{c.lineno}: TxtData(...) relies on the default format")
            elif _str(f) is not None:
                sd = sig_digits(_str(f))
                if sd is not None and sd < 17:
                    ctx.note(f"{mod.rel}:{c.lineno}: TxtData(format={_str(f)!r}) keeps {sd} significant digits (lossy)")
            else:
                ctx.note(f"{mod.rel}:{c.lineno}: TxtData(format={u(f)}) - computed format, not decided")
        for qn, fn in mod.functions():
            for r in [r for r in walk_local(fn) if isinstance(r, ast.Return) and _str(r.value) is not None]:
                if "format" in qn.lower() and sig_digits(_str(r.value)) is not None and sig_digits(_str(r.value)) < 17:
                    ctx.note(f"{mod.rel}:{qn}: returns format {_str(r.value)!r} ({sig_digits(_str(r.value))} significant digits, lossy)")
    ctx.note(f"sweep: {n} TxtData(...) constructions in src/porepy")
    n_lock = 0
    for mod in ctx.repo.modules("src/porepy"):
        for qn, fn in mod.functions():
            if any(isinstance(c, ast.Call) and call_name(c) == "uniquify_point_set" for c in walk_local(fn)):
                n_lock += _check_uniquify_lockstep(ctx, mod, qn, fn, as_rule=False)
    ctx.note(f"sweep: uniquify_point_set lock-step (unique points / old->new map) examined at {n_lock} consumer call(s) repo-wide")
    ctx.note("observation (not a rule): FractureNetwork3d.to_csv(file) writes no domain line by default (domain=None) while "
             "network_3d_from_csv(file) expects one by default (has_domain=True): with both defaults the first fracture is "
             "consumed as the bounding box and silently dropped")
    ctx.note("observation (not a rule): export_data_to_txt joins header names with blanks and read_data_from_txt splits on "
             "whitespace, so a name containing a blank ('cell diameter') comes back as two names and shifts all columns")


def run(ctx: Ctx) -> None:
    _check_3d(ctx)
    _check_2d(ctx)
    _check_txt(ctx)
    if ctx.tier == "thorough":
        _sweep(ctx)


def _m(name, file, old, new, rule, control=False, count=1):
    return dict(name=name, file=file, old=old, new=new, rule=rule, control=control, count=count)


MUTANTS = [
    _m("seed-3d-writer-original-points", N3D, 'csv_writer.writerow(f.pts.ravel(order="F"))', 'csv_writer.writerow(f.orig_pts.ravel(order="F"))', "R7"),
    _m("seed-2d-reader-stale-points", IMP, "    pts, _, old_2_new = pp.array_operations.uniquify_point_set(pts, tol=tol)",
       "    unique_pts, _, old_2_new = pp.array_operations.uniquify_point_set(pts, tol=tol)", "R8"),
    _m("2d-reader-unique-points-discarded", IMP, "    pts, _, old_2_new = pp.array_operations.uniquify_point_set(pts, tol=tol)",
       "    _, _, old_2_new = pp.array_operations.uniquify_point_set(pts, tol=tol)", "R8"),
    _m("revert-fix-D9-no-ndmin", TXT, "        unpack=True,\n        ndmin=2,\n", "        unpack=True,\n", "R3", control=True),
    _m("loadtxt-no-unpack", TXT, "        unpack=True,\n        ndmin=2,\n", "        ndmin=2,\n", "R3"),
    _m("loadtxt-ndmin-1", TXT, "ndmin=2,", "ndmin=1,", "R3"),
    _m("writer-box-order-min-max-pairs", N3D, 'order = ["xmin", "ymin", "zmin", "xmax", "ymax", "zmax"]',
       'order = ["xmin", "xmax", "ymin", "ymax", "zmin", "zmax"]', "R1", control=True),
    _m("reader-box-ymax-zmax-swapped", IMP, '                        "ymax": data[4],\n                        "zmin": data[2],\n                        "zmax": data[5],',
       '                        "ymax": data[5],\n                        "zmin": data[2],\n                        "zmax": data[4],', "R1"),
    _m("elliptic-reader-box-shifted", IMP, '"xmax": bbox_as_array[3],', '"xmax": bbox_as_array[1],', "R1"),
    _m("writer-order-C", N3D, 'csv_writer.writerow(f.pts.ravel(order="F"))', 'csv_writer.writerow(f.pts.ravel(order="C"))', "R2"),
    _m("reader-order-default", IMP, 'pts.reshape((3, -1), order="F")', "pts.reshape((3, -1))", "R2"),
    _m("reader-3d-delimiter", IMP, '        spam_reader = csv.reader(csv_file, delimiter=",")\n        # Read the domain first.\n        if has_domain:\n            read_domain',
       '        spam_reader = csv.reader(csv_file, delimiter=";")\n        # Read the domain first.\n        if has_domain:\n            read_domain', "R2"),
    _m("2d-reader-default-delimiter", IMP, 'npargs["delimiter"] = kwargs.get("delimiter", ",")', 'npargs["delimiter"] = kwargs.get("delimiter", " ")', "R2"),
    _m("2d-writer-both-endpoints-same", N2D, "                data.extend(self._pts[:, edge[1]])", "                data.extend(self._pts[:, edge[0]])", "R4"),
    _m("2d-writer-no-header-by-default", N2D, "def to_csv(self, file_name: Path, with_header: bool = True) -> None:",
       "def to_csv(self, file_name: Path, with_header: bool = False) -> None:", "R4"),
    _m("2d-reader-skips-two", IMP, 'npargs["skip_header"] = kwargs.get("skip_header", 1)', 'npargs["skip_header"] = kwargs.get("skip_header", 2)', "R4"),
    _m("2d-reader-points-from-col-0", IMP, "pt_cols = np.arange(1, num_data)", "pt_cols = np.arange(0, num_data)", "R4"),
    _m("2d-reader-reshape-coordinate-major", IMP, "pts = data[:, pt_cols].reshape((-1, 2)).T", "pts = data[:, pt_cols].reshape((2, -1))", "R4"),
    _m("2d-reader-edge-numbering", IMP, "(np.arange(0, 2 * num_fracs, 2), np.arange(1, 2 * num_fracs, 2))",
       "(np.arange(0, 2 * num_fracs, 2), np.arange(0, 2 * num_fracs, 2))", "R4"),
    _m("txt-header-joined-with-comma", TXT, '        header += data.header + " "', '        header += data.header + ","', "R5"),
    _m("txt-prefix-not-stripped", TXT, '    header = header.lstrip("# ")\n', "", "R5"),
    _m("txt-skiprows-0", TXT, "skiprows=1,", "skiprows=0,", "R5"),
    _m("txt-fmt-joined-with-comma", TXT, '        fmt += data.format + " "', '        fmt += data.format + ","', "R5"),
    _m("txt-header-from-reversed-list", TXT, '        header += data.header + " "\n        fmt += data.format + " "\n',
       '        fmt += data.format + " "\n    for data in reversed(list_of_txt_data):\n        header += data.header + " "\n', "R5"),
    _m("txt-default-format-even-shorter", TXT, 'format: str = "%2.2e"', 'format: str = "%2.1e"', "R6"),
    _m("txt-default-format-fixed-point", TXT, 'format: str = "%2.2e"', 'format: str = "%.6f"', "R6"),
]
