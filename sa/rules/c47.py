"""C47 - file round trips: writer/reader tables for the 3-d and 2-d fracture-network csv
files and for the txt export of named arrays."""
from __future__ import annotations

import ast
import re

from ..core.astutil import u, call_name, kwarg, walk_local, parent_map, names_in, stmts_local, dotted, inline_locals
from ..core.loader import AnchorError, Undecided
from ..core.report import Ctx

IMP = "src/porepy/fracs/fracture_importer.py"
N2D = "src/porepy/fracs/fracture_network_2d.py"
N3D = "src/porepy/fracs/fracture_network_3d.py"
TXT = "src/porepy/utils/txt_io.py"

META = {
    "explanation": (
        "Writer/reader agreement decided on the syntax trees of both sides. R1 (3-d csv, domain line): the writer's "
        "column list of bounding-box keys and each reader's key->column dict are the same permutation. R2 (3-d csv, "
        "fractures; delimiters): ravel(order=o) on the 3 x n point array is undone by reshape((3, -1), order=o) with the "
        "same o; csv.writer/csv.reader/genfromtxt agree on the delimiter. R3 (txt): the loadtxt result that is paired "
        "with the header names column by column is requested as unpack=True, ndmin=2 (without ndmin a one-column file "
        "is a 1-d array and zip() pairs names with scalars - D9). R4 (2-d csv): row layout [id, p(e0), p(e1)] against the "
        "reader's point columns 1:, reshape((-1, 2)).T, even/odd start/end numbering, id column 0, header length, number "
        "of header rows written by default vs. rows skipped by default. R5 (txt): header names joined with the "
        "separator the reader splits on, comment prefix stripped, one header line skipped, column formats joined with "
        "the loader's delimiter, the three per-column accumulations run in one loop over the same list, field names of "
        "the structured array agree. R6: the default number format must keep 17 significant digits, otherwise values do "
        "not round-trip (D9b: '%2.2e' keeps 3 - known finding). Not decided: csv.writer emitting repr(float) "
        "(trusted language fact), geometric processing done by the network constructors after reading."),
    "rule_text": "one obligation per bounding-box key per reader, per order flag, per delimiter pair, per loader call, per layout fact",
    "trusted_base": ["python ast", "sa.core (loader, astutil)", "csv.writer writes str(float) (shortest round-trip repr)",
                     "numpy: savetxt comment prefix '# ', loadtxt/genfromtxt defaults, ravel/reshape order semantics"],
    "assumptions": ["readers are used with their default arguments on files written with the writer's default arguments "
                    "unless a rule says otherwise", "header names contain no whitespace (see notes)"],
    "technique": "writer/reader table extraction and comparison (permutations, flags, separators) on the AST",
}
MIN_INSTANCES = {"R1": 12, "R2": 5, "R3": 2, "R4": 8, "R5": 7, "R6": 1}


def _str(e) -> str | None:
    return e.value if isinstance(e, ast.Constant) and isinstance(e.value, str) else None


def _int(e) -> int | None:
    if isinstance(e, ast.Constant) and isinstance(e.value, int) and not isinstance(e.value, bool):
        return e.value
    if isinstance(e, ast.UnaryOp) and isinstance(e.op, ast.USub) and isinstance(e.operand, ast.Constant):
        return -e.operand.value
    return None


def _local_value(fn: ast.AST, name: str) -> ast.expr | None:
    vals = [s.value for s in stmts_local(fn) if isinstance(s, ast.Assign) and len(s.targets) == 1
            and isinstance(s.targets[0], ast.Name) and s.targets[0].id == name]
    return vals[0] if len(vals) == 1 else None


def _order_flag(call: ast.Call, pos: int | None = None) -> str:
    k = kwarg(call, "order")
    if k is None and pos is not None and len(call.args) > pos:
        k = call.args[pos]
    if k is None:
        return "C"
    s = _str(k)
    if s is None:
        raise Undecided(f"order flag `{u(k)}` is not a literal")
    return s.upper()


def _delimiter(call: ast.Call, default: str) -> str:
    k = kwarg(call, "delimiter")
    if k is None:
        return default
    s = _str(k)
    if s is None:
        raise Undecided(f"delimiter `{u(k)}` is not a literal")
    return s


# ======================================================================================
#  3-d csv
# ======================================================================================

def _writer3d(mod):
    fn = mod.func("FractureNetwork3d.to_csv")
    wcalls = [c for c in walk_local(fn) if isinstance(c, ast.Call) and call_name(c) == "writer"]
    if len(wcalls) != 1:
        raise AnchorError("FractureNetwork3d.to_csv: csv.writer(...) not found")
    rows = [c for c in walk_local(fn) if isinstance(c, ast.Call) and call_name(c) == "writerow"]
    dom_row = None
    frac_row = None
    pm = parent_map(fn)
    for c in rows:
        p = c
        kind = None
        while p in pm:
            p = pm[p]
            if isinstance(p, ast.For):
                kind = "frac"
                break
            if isinstance(p, ast.If) and "domain" in names_in(p.test):
                kind = "dom"
                break
        if kind == "dom":
            dom_row = c
        elif kind == "frac":
            frac_row = c
    if dom_row is None or frac_row is None:
        raise AnchorError("FractureNetwork3d.to_csv: domain row / fracture rows not found")
    # column list of the domain row
    arg = dom_row.args[0]
    cols: list[str] | None = None
    if isinstance(arg, ast.ListComp) and len(arg.generators) == 1 and isinstance(arg.generators[0].target, ast.Name):
        g = arg.generators[0]
        it = g.iter
        if isinstance(it, ast.Name):
            it = _local_value(fn, it.id)
        elt = arg.elt
        if isinstance(it, (ast.List, ast.Tuple)) and all(_str(e) is not None for e in it.elts) and \
                isinstance(elt, ast.Subscript) and isinstance(elt.slice, ast.Name) and elt.slice.id == g.target.id \
                and "bounding_box" in u(inline_locals(fn, elt.value)):
            cols = [_str(e) for e in it.elts]
    elif isinstance(arg, (ast.List, ast.Tuple)):
        cs = []
        for e in arg.elts:
            if isinstance(e, ast.Subscript) and _str(e.slice) is not None and "bounding_box" in u(inline_locals(fn, e.value)):
                cs.append(_str(e.slice))
        if len(cs) == len(arg.elts):
            cols = cs
    if cols is None:
        raise Undecided(f"FractureNetwork3d.to_csv: domain row `{u(arg)}` is not a recognised list of bounding-box entries")
    # fracture rows: <pts>.ravel(order=?)
    farg = frac_row.args[0]
    if not (isinstance(farg, ast.Call) and call_name(farg) in ("ravel", "flatten") and isinstance(farg.func, ast.Attribute)):
        raise Undecided(f"FractureNetwork3d.to_csv: fracture row `{u(farg)}` is not <pts>.ravel(order=...)")
    transposed = isinstance(farg.func.value, ast.Attribute) and farg.func.value.attr == "T"
    flag = _order_flag(farg, 0)
    return fn, wcalls[0], dom_row, cols, frac_row, flag, transposed


def _reader_bbox(fn: ast.FunctionDef, qual: str):
    """dict literal {key: X[k]} that reaches pp.Domain(...)"""
    doms = [c for c in walk_local(fn) if isinstance(c, ast.Call) and call_name(c) == "Domain" and c.args]
    out = []
    for c in doms:
        a = c.args[0]
        if isinstance(a, ast.Name):
            a = _local_value(fn, a.id)
        if isinstance(a, ast.Dict):
            out.append(a)
    if len(out) != 1:
        raise AnchorError(f"{qual}: expected one pp.Domain(<dict literal of box entries>), found {len(out)}")
    d = out[0]
    table = {}
    src = set()
    for k, v in zip(d.keys, d.values):
        ks = _str(k) if k is not None else None
        if ks is None or not (isinstance(v, ast.Subscript) and isinstance(v.value, ast.Name) and _int(v.slice) is not None):
            raise Undecided(f"{qual}: box entry `{u(k) if k else '**'}: {u(v)}` is not `<str>: <row>[<int>]`")
        table[ks] = _int(v.slice)
        src.add(v.value.id)
    if len(src) != 1:
        raise Undecided(f"{qual}: box entries read from several arrays {sorted(src)}")
    return d, table


def _check_3d(ctx: Ctx) -> None:
    w = ctx.repo.module(N3D)
    r = ctx.repo.module(IMP)
    wfn, wcall, dom_row, cols, frac_row, wflag, wtransposed = _writer3d(w)
    ctx.sample({"rule": "R1", "writer_columns": cols})
    if len(set(cols)) != len(cols):
        ctx.check("R1", False, w, "FractureNetwork3d.to_csv", dom_row, f"domain row writes a key twice: {cols}",
                  construct="domain row keys distinct")
    for qual in ("network_3d_from_csv", "elliptic_network_3d_from_csv"):
        fn = r.func(qual)
        d, table = _reader_bbox(fn, qual)
        ctx.sample({"rule": "R1", "reader": qual, "table": table})
        if set(table) != set(cols):
            ctx.check("R1", False, r, qual, d, f"reader box keys {sorted(table)} differ from the keys the writer emits {sorted(cols)}",
                      construct="box key set")
            continue
        for key, k in sorted(table.items()):
            wk = cols.index(key)
            ctx.check("R1", wk == k, r, qual, d,
                      f"box entry '{key}': reader takes column {k}, FractureNetwork3d.to_csv writes it in column {wk} (must agree)",
                      construct=f"bbox['{key}'] <- column {k} (writer column {wk})",
                      facts={"key": key, "reader_column": k, "writer_column": wk, "writer_order": cols})
        # delimiter
        rc = [c for c in walk_local(fn) if isinstance(c, ast.Call) and call_name(c) == "reader"]
        if len(rc) != 1:
            raise AnchorError(f"{qual}: csv.reader(...) not found")
        dw, dr = _delimiter(wcall, ","), _delimiter(rc[0], ",")
        ctx.check("R2", dw == dr, r, qual, rc[0], f"csv.reader delimiter ({dr!r}) must equal the csv.writer delimiter ({dw!r})",
                  construct=f"3d delimiter reader {dr!r} writer {dw!r}")
    # fracture rows
    fn = r.func("network_3d_from_csv")
    resh = [c for c in walk_local(fn) if isinstance(c, ast.Call) and call_name(c) == "reshape"]
    if len(resh) != 1:
        raise AnchorError("network_3d_from_csv: expected one reshape of the row")
    rs = resh[0]
    shape = rs.args[0] if rs.args else None
    if isinstance(shape, ast.Tuple) and len(shape.elts) == 2:
        dims = (_int(shape.elts[0]), _int(shape.elts[1]))
    elif len(rs.args) >= 2:
        dims = (_int(rs.args[0]), _int(rs.args[1]))
    else:
        dims = (None, None)
    pm = parent_map(fn)
    rtransposed = isinstance(pm.get(rs), ast.Attribute) and pm[rs].attr == "T"
    rflag = _order_flag(rs)
    # effective layout: 'F' = point-major (x0,y0,z0,x1,...), 'C' = coordinate-major
    def layout(flag, transposed):
        if flag not in ("C", "F"):
            raise Undecided(f"order flag {flag!r} not handled")
        return {"C": "F", "F": "C"}[flag] if transposed else flag
    if dims == (3, -1):
        r_layout = layout(rflag, rtransposed) if not rtransposed else None
    elif dims == (-1, 3) and rtransposed:
        r_layout = {"C": "F", "F": "C"}[rflag]
    else:
        r_layout = None
    if r_layout is None:
        raise Undecided(f"network_3d_from_csv: `{u(rs)}` is not reshape((3, -1), order=o) or reshape((-1, 3)).T")
    w_layout = layout(wflag, wtransposed)
    ctx.check("R2", r_layout == w_layout, r, "network_3d_from_csv", rs,
              f"the writer flattens the 3 x n point array {'point' if w_layout == 'F' else 'coordinate'}-major "
              f"(ravel order={wflag!r}{', transposed' if wtransposed else ''}), the reader rebuilds it "
              f"{'point' if r_layout == 'F' else 'coordinate'}-major (`{u(rs)}`)"
              + ("" if r_layout == w_layout else ": coordinates are scrambled for n > 1"),
              construct=f"3d point layout writer {w_layout} reader {r_layout}",
              facts={"writer": u(frac_row.args[0]), "reader": u(rs)})
    # the reshaped array is what the fracture is built from, and rows are parsed as float
    arr = rs.func.value if isinstance(rs.func, ast.Attribute) else None
    src = _local_value(fn, arr.id) if isinstance(arr, ast.Name) else arr
    ok = isinstance(src, ast.Call) and call_name(src) in ("asarray", "array") and "float" in u(src)
    ctx.check("R2", bool(ok), r, "network_3d_from_csv", rs, "fracture rows must be parsed as floats before reshaping",
              construct="3d row parsed as float", facts={"source": u(src) if src is not None else None})


# ======================================================================================
#  2-d csv
# ======================================================================================

def _check_2d(ctx: Ctx) -> None:
    w = ctx.repo.module(N2D)
    r = ctx.repo.module(IMP)
    wq, rq = "FractureNetwork2d.to_csv", "network_2d_from_csv"
    wfn = w.func(wq)
    rfn = r.func(rq)
    wcalls = [c for c in walk_local(wfn) if isinstance(c, ast.Call) and call_name(c) == "writer"]
    if len(wcalls) != 1:
        raise AnchorError(f"{wq}: csv.writer not found")
    pm = parent_map(wfn)
    rows = [c for c in walk_local(wfn) if isinstance(c, ast.Call) and call_name(c) == "writerow"]
    hdr_row = data_row = None
    for c in rows:
        p = c
        while p in pm:
            p = pm[p]
            if isinstance(p, ast.For):
                data_row = (c, p)
                break
            if isinstance(p, ast.If):
                hdr_row = (c, p)
                break
    if hdr_row is None or data_row is None:
        raise AnchorError(f"{wq}: header row / data rows not found")
    # ---- header
    hc, hif = hdr_row
    harg = hc.args[0]
    if isinstance(harg, ast.Name):
        harg = _local_value(wfn, harg.id)
    if not (isinstance(harg, (ast.List, ast.Tuple)) and all(_str(e) is not None for e in harg.elts)):
        raise Undecided(f"{wq}: header row is not a list of string literals")
    header = [_str(e) for e in harg.elts]
    flag = hif.test.id if isinstance(hif.test, ast.Name) else None
    wargs = wfn.args
    defaults = dict(zip([a.arg for a in wargs.args][len(wargs.args) - len(wargs.defaults):], wargs.defaults))
    if flag is None or flag not in defaults or not isinstance(defaults[flag], ast.Constant):
        raise Undecided(f"{wq}: header is not guarded by a boolean parameter with a literal default")
    n_hdr_default = 1 if defaults[flag].value else 0
    # ---- data rows
    dc, dfor = data_row
    darg = dc.args[0]
    layout: list[str] = []
    if not isinstance(darg, ast.Name):
        raise Undecided(f"{wq}: data row `{u(darg)}` is not a local list")
    L = darg.id
    # loop targets: for k, edge in enumerate(self._edges.T)
    if not (isinstance(dfor.target, ast.Tuple) and len(dfor.target.elts) == 2 and _isenum(dfor.iter)):
        raise Undecided(f"{wq}: data loop is not `for id, edge in enumerate(<edges>.T)`")
    ID, EDGE = dfor.target.elts[0].id, dfor.target.elts[1].id
    edges_src = u(dfor.iter.args[0])
    for s in dfor.body:
        if isinstance(s, ast.Assign) and len(s.targets) == 1 and u(s.targets[0]) == L and isinstance(s.value, ast.List):
            for e in s.value.elts:
                layout.append("id" if (isinstance(e, ast.Name) and e.id == ID) else f"?{u(e)}")
        elif isinstance(s, ast.Expr) and isinstance(s.value, ast.Call) and call_name(s.value) in ("extend", "append") \
                and u(s.value.func.value) == L:
            a = s.value.args[0]
            if call_name(s.value) == "extend" and isinstance(a, ast.Subscript) and isinstance(a.slice, ast.Tuple) \
                    and len(a.slice.elts) == 2 and isinstance(a.slice.elts[0], ast.Slice) and a.slice.elts[0].lower is None \
                    and a.slice.elts[0].upper is None and isinstance(a.slice.elts[1], ast.Subscript) \
                    and u(a.slice.elts[1].value) == EDGE and _int(a.slice.elts[1].slice) is not None:
                layout.append(f"pt{_int(a.slice.elts[1].slice)}@{u(a.value)}")
            else:
                layout.append(f"?{u(a)}")
        elif isinstance(s, ast.Expr) and s.value is dc:
            pass
        elif isinstance(s, ast.Expr) and isinstance(s.value, ast.Constant):
            pass
        else:
            raise Undecided(f"{wq}: statement `{u(s)[:60]}` in the data loop is not recognised")
    if any(x.startswith("?") for x in layout):
        raise Undecided(f"{wq}: row layout {layout} contains unrecognised entries")
    ctx.sample({"rule": "R4", "writer_layout": layout, "header": header, "header_rows_default": n_hdr_default})
    n_lead = 0
    while n_lead < len(layout) and layout[n_lead] == "id":
        n_lead += 1
    pts_part = layout[n_lead:]
    pt_arrays = {x.split("@")[1] for x in pts_part}
    ok_pts = [x.split("@")[0] for x in pts_part] == ["pt0", "pt1"] and len(pt_arrays) == 1
    ctx.check("R4", ok_pts and n_lead == 1, w, wq, dfor,
              f"a row must be [id, point(edge[0]), point(edge[1])] from one point array; it is {layout}",
              construct=f"2d row layout {[x.split('@')[0] for x in layout]}", facts={"layout": layout})
    ctx.check("R4", edges_src.endswith(".T") and "_edges" in edges_src, w, wq, dfor,
              f"rows are produced per edge (column of the edge array): iterates `{edges_src}`", construct="2d rows iterate edges.T")

    # ---- reader
    gens = [c for c in walk_local(rfn) if isinstance(c, ast.Call) and call_name(c) == "genfromtxt"]
    if len(gens) != 1:
        raise AnchorError(f"{rq}: np.genfromtxt call not found")
    # defaults through npargs["x"] = kwargs.get("x", default)
    rdef = {}
    for s in stmts_local(rfn):
        if isinstance(s, ast.Assign) and isinstance(s.targets[0], ast.Subscript) and _str(s.targets[0].slice) is not None \
                and isinstance(s.value, ast.Call) and call_name(s.value) == "get" and len(s.value.args) == 2:
            rdef[_str(s.targets[0].slice)] = s.value.args[1]
    for k in gens[0].keywords:
        if k.arg is not None:
            rdef[k.arg] = k.value
    skip = _int(rdef["skip_header"]) if "skip_header" in rdef else 0
    delim_r = _str(rdef["delimiter"]) if "delimiter" in rdef else None
    if skip is None:
        raise Undecided(f"{rq}: skip_header default is not a literal")
    comment_hdr = bool(header) and header[0].lstrip().startswith("#")
    ok_skip = (skip == n_hdr_default) or (skip == 0 and n_hdr_default == 1 and comment_hdr)
    ctx.check("R4", ok_skip, r, rq, gens[0],
              f"the writer emits {n_hdr_default} header row(s) by default, the reader skips {skip} row(s) by default"
              + ("" if ok_skip else (": the first fracture is lost" if skip > n_hdr_default else ": the header is parsed as data")),
              construct=f"2d header rows written {n_hdr_default} skipped {skip}",
              facts={"with_header_default": n_hdr_default, "skip_header_default": skip})
    dw = _delimiter(wcalls[0], ",")
    ctx.check("R2", delim_r == dw, r, rq, gens[0], f"genfromtxt default delimiter ({delim_r!r}) must equal the csv.writer delimiter ({dw!r})",
              construct=f"2d delimiter reader {delim_r!r} writer {dw!r}")
    # point columns
    pts_assign = None
    for s in stmts_local(rfn):
        if isinstance(s, ast.Assign) and isinstance(s.targets[0], ast.Name) and any(
                isinstance(c, ast.Call) and call_name(c) == "reshape" for c in ast.walk(s.value)) and "data" in names_in(s.value):
            pts_assign = s
            break
    if pts_assign is None:
        raise AnchorError(f"{rq}: `pts = data[:, cols].reshape((-1, 2)).T` not found")
    v = pts_assign.value
    # accepted: <rows>.reshape((-1, nd)).T in C order (consecutive pairs of a row are one point).
    # recognised wrong: <rows>.reshape((nd, -1)) - for a C-ordered (n x 2nd) selection that is coordinate-major.
    if isinstance(v, ast.Attribute) and v.attr == "T" and isinstance(v.value, ast.Call) and call_name(v.value) == "reshape":
        rs, transposed = v.value, True
    elif isinstance(v, ast.Call) and call_name(v) == "reshape":
        rs, transposed = v, False
    else:
        raise Undecided(f"{rq}: point extraction `{u(v)}` not recognised")
    shape = rs.args[0] if isinstance(rs.args[0], ast.Tuple) else ast.Tuple(elts=list(rs.args[:2]))
    dims = tuple(_int(e) for e in shape.elts)
    if len(dims) != 2 or None in dims or sorted(dims)[0] != -1:
        raise Undecided(f"{rq}: reshape dimensions `{u(shape)}` not recognised")
    nd = dims[1] if dims[0] == -1 else dims[0]
    pairs = transposed and dims[0] == -1 and _order_flag(rs) == "C"
    ctx.check("R4", pairs and nd == 2, r, rq, rs,
              f"points must be rebuilt from consecutive (x, y) pairs of each row: reshape((-1, 2)).T in C order; found `{u(v)}`",
              construct=f"2d reshape dims {dims} order {_order_flag(rs)} transposed {transposed}")
    ctx.check("R4", len(header) == n_lead + 2 * (nd or 0), w, wq, hc,
              f"header names ({len(header)}) must match the row width 1 + 2*{nd}", construct=f"2d header width {len(header)}")
    sel = rs.func.value  # data[:, pt_cols]
    cols = sel.slice.elts[1] if isinstance(sel, ast.Subscript) and isinstance(sel.slice, ast.Tuple) and len(sel.slice.elts) == 2 else None
    if isinstance(cols, ast.Name):
        cdefs = [s.value for s in stmts_local(rfn) if isinstance(s, ast.Assign) and u(s.targets[0]) == cols.id]
        cols = cdefs[0] if cdefs else None
    first = None
    if isinstance(cols, ast.Call) and call_name(cols) == "arange" and len(cols.args) >= 2:
        first = _int(cols.args[0])
    elif isinstance(cols, ast.Slice) and cols.lower is not None and cols.upper is None:
        first = _int(cols.lower)
    if first is None:
        raise Undecided(f"{rq}: point column selection not recognised")
    ctx.check("R4", first == n_lead, r, rq, pts_assign,
              f"reader point columns start at {first}; the writer puts {n_lead} leading id column(s) before the points (must agree)",
              construct=f"2d point columns start {first} (writer lead {n_lead})")
    # edges: even = start, odd = end (non-polyline arm)
    vst = None
    for s in stmts_local(rfn):
        if isinstance(s, ast.Assign) and u(s.targets[0]) == "edges" and isinstance(s.value, ast.Call) and call_name(s.value) == "vstack" \
                and sum(1 for c in ast.walk(s.value) if isinstance(c, ast.Call) and call_name(c) == "arange") == 2:
            vst = s
    if vst is None:
        raise AnchorError(f"{rq}: `edges = np.vstack((np.arange(0, 2n, 2), np.arange(1, 2n, 2)))` not found")
    ar = [c for c in ast.walk(vst.value) if isinstance(c, ast.Call) and call_name(c) == "arange"]
    ar.sort(key=lambda c: (c.lineno, c.col_offset))
    starts = [(_int(c.args[0]), _int(c.args[2]) if len(c.args) > 2 else None) for c in ar]
    ctx.check("R4", starts == [(0, 2), (1, 2)], r, rq, vst,
              f"edge k joins points 2k (start) and 2k+1 (end), the order the writer emits them; found arange starts/steps {starts}",
              construct=f"2d edge numbering {starts}")
    fid = [s for s in stmts_local(rfn) if isinstance(s, ast.Assign) and u(s.targets[0]) == "edges_frac_id"
           and isinstance(s.value, ast.Subscript) and u(s.value.value) == "data"]
    ok_id = bool(fid) and all(u(s.value.slice) in ("(slice(None, None, None), 0)", ":, 0") or u(s.value) == "data[:, 0]" for s in fid)
    ctx.check("R4", ok_id, r, rq, fid[0] if fid else rfn, "the fracture id is read from column 0, where the writer puts it",
              construct="2d id column 0")


def _isenum(e) -> bool:
    return isinstance(e, ast.Call) and call_name(e) == "enumerate" and len(e.args) == 1


# ======================================================================================
#  txt
# ======================================================================================
FMT_RE = re.compile(r"^%[-+ #0]*(\d+)?(?:\.(\d+))?([eEfFgGrs])$")


def sig_digits(fmt: str):
    """significant decimal digits kept by a printf float format; None = not a single float spec;
    float('inf') = lossless (%r / %s)."""
    m = FMT_RE.match(fmt.strip())
    if not m:
        return None
    prec = int(m.group(2)) if m.group(2) is not None else None
    conv = m.group(3)
    if conv in "rs":
        return float("inf") if prec is None else prec
    if conv in "eE":
        return (6 if prec is None else prec) + 1
    if conv in "gG":
        return max(1, 6 if prec is None else prec)
    return 0  # fixed-point: no relative precision


def _check_txt(ctx: Ctx) -> None:
    m = ctx.repo.module(TXT)
    wq, rq = "export_data_to_txt", "read_data_from_txt"
    wfn, rfn = m.func(wq), m.func(rq)
    cls = m.cls("TxtData")

    # ---- R3 loader ---------------------------------------------------------------------
    loads = [c for c in walk_local(rfn) if isinstance(c, ast.Call) and call_name(c) in ("loadtxt", "genfromtxt")]
    if len(loads) != 1:
        raise AnchorError(f"{rq}: expected one np.loadtxt call")
    ld = loads[0]
    pm = parent_map(rfn)
    tgt = pm.get(ld)
    vname = tgt.targets[0].id if isinstance(tgt, ast.Assign) and isinstance(tgt.targets[0], ast.Name) else None
    if vname is None:
        raise Undecided(f"{rq}: loader result is not bound to a name")
    iterated = None
    for f in [n for n in walk_local(rfn) if isinstance(n, ast.For)]:
        if vname in names_in(f.iter):
            iterated = f
    if iterated is None:
        raise Undecided(f"{rq}: loader result is not iterated per column")
    if not (isinstance(iterated.iter, ast.Call) and call_name(iterated.iter) == "zip" and len(iterated.iter.args) == 2):
        raise Undecided(f"{rq}: pairing of names and columns is not zip(names, values)")
    NAMES = u(iterated.iter.args[0]) if u(iterated.iter.args[1]) == vname else u(iterated.iter.args[1])
    unpack = kwarg(ld, "unpack")
    ndmin = kwarg(ld, "ndmin")
    ctx.check("R3", isinstance(unpack, ast.Constant) and unpack.value is True, m, rq, ld,
              "the array paired with the header names must be iterated column by column: unpack=True",
              construct=f"loadtxt unpack={u(unpack) if unpack is not None else 'absent'}")
    ctx.check("R3", _int(ndmin) == 2 if ndmin is not None else False, m, rq, ld,
              "np.loadtxt(..., unpack=True) without ndmin=2 returns a 1-d array for a one-column file (and 0-d values for a "
              "one-row file): zip(names, values) then pairs the single name with the first scalar - one exported array "
              "[1, 2, 3] reads back as {'a': 1.0}", construct=f"loadtxt ndmin={u(ndmin) if ndmin is not None else 'absent'}")
    # ---- R5 header / separators ------------------------------------------------------------
    sv = [c for c in walk_local(wfn) if isinstance(c, ast.Call) and call_name(c) == "savetxt"]
    if len(sv) != 1:
        raise AnchorError(f"{wq}: np.savetxt call not found")
    sv = sv[0]
    H, FM, X = kwarg(sv, "header"), kwarg(sv, "fmt"), kwarg(sv, "X")
    if not (isinstance(H, ast.Name) and isinstance(FM, ast.Name) and isinstance(X, ast.Name)):
        raise Undecided(f"{wq}: savetxt arguments header/fmt/X are not local names")
    comments = kwarg(sv, "comments")
    prefix = _str(comments) if comments is not None else "# "
    if prefix is None:
        raise Undecided(f"{wq}: comments= is not a literal")
    # accumulation loop
    accs = {}
    for s in stmts_local(wfn):
        if isinstance(s, ast.AugAssign) and isinstance(s.op, ast.Add) and isinstance(s.target, ast.Name) and s.target.id in (H.id, FM.id):
            accs.setdefault(s.target.id, []).append(s)
    if len(accs.get(H.id, [])) != 1 or len(accs.get(FM.id, [])) != 1:
        raise Undecided(f"{wq}: header/fmt are not accumulated by exactly one `+=` each")
    pmw = parent_map(wfn)

    def loop_of(s):
        p = s
        while p in pmw and not isinstance(p, ast.For):
            p = pmw[p]
        return p if isinstance(p, ast.For) else None
    hl, fl = loop_of(accs[H.id][0]), loop_of(accs[FM.id][0])
    stores = [s for s in stmts_local(wfn) if isinstance(s, ast.Assign) and isinstance(s.targets[0], ast.Subscript)
              and u(s.targets[0].value) == X.id]
    if len(stores) != 1:
        raise Undecided(f"{wq}: expected one column store into `{X.id}`")
    xl = loop_of(stores[0])
    same_loop = hl is not None and hl is fl and hl is xl
    ctx.check("R5", same_loop, m, wq, stores[0],
              "column values, header names and formats must be accumulated in one loop over the same list (lock-step)",
              construct="txt columns/header/fmt one loop")
    if not same_loop:
        return
    if not (_isenum(hl.iter) and isinstance(hl.target, ast.Tuple) and len(hl.target.elts) == 2):
        raise Undecided(f"{wq}: accumulation loop is not `for idx, data in enumerate(<list>)`")
    IDX, DAT = hl.target.elts[0].id, hl.target.elts[1].id
    LIST = u(hl.iter.args[0])
    ctx.check("R5", LIST == wfn.args.args[0].arg, m, wq, hl, f"the loop must run over the exported list itself (`{wfn.args.args[0].arg}`); "
              f"it runs over `{LIST}`", construct=f"txt loop over {LIST}")

    def sep_of(aug, attr):
        v = aug.value
        if isinstance(v, ast.BinOp) and isinstance(v.op, ast.Add):
            l, r_ = v.left, v.right
            if u(l) == f"{DAT}.{attr}" and _str(r_) is not None:
                return _str(r_)
            if u(r_) == f"{DAT}.{attr}" and _str(l) is not None:
                return _str(l)
        return None
    hsep, fsep = sep_of(accs[H.id][0], "header"), sep_of(accs[FM.id][0], "format")
    if hsep is None or fsep is None:
        raise Undecided(f"{wq}: accumulations are not `+= data.header + <sep>` / `+= data.format + <sep>`")
    ctx.check("R5", u(stores[0].value) == f"{DAT}.array", m, wq, stores[0], "column values come from the same item as name and format",
              construct=f"txt column value {u(stores[0].value)}")
    # structured dtype names agree
    key_w = stores[0].targets[0].slice
    apps = [c for c in walk_local(wfn) if isinstance(c, ast.Call) and call_name(c) == "append" and c.args and isinstance(c.args[0], ast.Tuple)]
    key_d = apps[0].args[0].elts[0] if apps else None
    if not (isinstance(key_w, ast.JoinedStr) and isinstance(key_d, ast.JoinedStr)):
        raise Undecided(f"{wq}: structured field names are not f-strings")

    def fpat(js):
        return "".join(v.value if isinstance(v, ast.Constant) else "{}" for v in js.values)
    ctx.check("R5", fpat(key_w) == fpat(key_d), m, wq, stores[0],
              f"field name pattern of the store `{fpat(key_w)}` must equal the dtype's `{fpat(key_d)}`",
              construct=f"txt field names {fpat(key_w)} / {fpat(key_d)}")
    # reader side
    # names = header.split(sep?)
    ndefs = [s for s in stmts_local(rfn) if isinstance(s, ast.Assign) and u(s.targets[0]) == NAMES]
    if len(ndefs) != 1 or not (isinstance(ndefs[0].value, ast.Call) and call_name(ndefs[0].value) == "split"):
        raise Undecided(f"{rq}: `{NAMES}` is not defined as <header>.split(...)")
    sp = ndefs[0].value
    rsep = None if not sp.args else _str(sp.args[0])
    if sp.args and rsep is None:
        raise Undecided(f"{rq}: split separator is not a literal")
    ok_sep = (rsep is None and hsep.strip() == "" and hsep != "") or (rsep is not None and rsep == hsep)
    ctx.check("R5", ok_sep, m, rq, sp, f"header names are joined with {hsep!r} and split on {'whitespace' if rsep is None else repr(rsep)} (must agree)",
              construct=f"txt header separator writer {hsep!r} reader {rsep!r}")
    HV = u(sp.func.value)
    hchain = [s for s in stmts_local(rfn) if isinstance(s, ast.Assign) and u(s.targets[0]) == HV]
    strips = []
    first_line = False
    for s in hchain:
        v = s.value
        if isinstance(v, ast.Call) and call_name(v) in ("lstrip", "strip", "removeprefix") and v.args and _str(v.args[0]) is not None:
            strips.append((call_name(v), _str(v.args[0])))
        if isinstance(v, ast.Subscript) and _int(v.slice) == 0:
            first_line = True
    ok_prefix = prefix == "" or any((k in ("lstrip", "strip") and set(prefix) <= set(a)) or (k == "removeprefix" and a == prefix)
                                    for k, a in strips)
    ctx.check("R5", ok_prefix, m, rq, sp,
              f"np.savetxt prefixes the header line with {prefix!r}; the reader must strip it before splitting the names "
              f"(found {strips})", construct=f"txt comment prefix {prefix!r} stripped {ok_prefix}")
    skiprows = kwarg(ld, "skiprows")
    ctx.check("R5", first_line and _int(skiprows) == 1 if skiprows is not None else False, m, rq, ld,
              "the writer emits exactly one header line: names are taken from line 0 and the loader skips 1 row "
              f"(skiprows={u(skiprows) if skiprows is not None else 'absent'})",
              construct=f"txt skiprows {u(skiprows) if skiprows is not None else 'absent'}")
    rdel = kwarg(ld, "delimiter")
    wdel = kwarg(sv, "delimiter")
    if rdel is not None and _str(rdel) is None:
        raise Undecided(f"{rq}: delimiter not a literal")
    ok_del = (rdel is None and fsep.strip() == "" and fsep != "") or (rdel is not None and _str(rdel) == fsep)
    ctx.check("R5", ok_del, m, rq, ld,
              f"column formats are joined with {fsep!r} (that is the column separator in the file); the loader splits on "
              f"{'whitespace' if rdel is None else repr(_str(rdel))}", construct=f"txt column separator writer {fsep!r} reader "
              f"{None if rdel is None else _str(rdel)!r}")
    if wdel is not None:
        ctx.note(f"{wq}: savetxt(delimiter=...) is ignored by numpy when fmt is a full row format")

    # ---- R6 default precision ------------------------------------------------------------------
    fdef = None
    for s in cls.body:
        if isinstance(s, ast.AnnAssign) and isinstance(s.target, ast.Name) and s.target.id == "format":
            fdef = s
    if fdef is None:
        raise AnchorError("TxtData.format field not found")
    if fdef.value is None:
        ctx.check("R6", True, m, "TxtData", fdef, "no default format: the caller chooses the precision",
                  construct="TxtData.format has no default")
    else:
        fs = _str(fdef.value)
        if fs is None:
            raise Undecided("TxtData.format default is not a string literal")
        sd = sig_digits(fs)
        if sd is None:
            raise Undecided(f"TxtData.format default {fs!r} is not a single printf float format")
        ctx.check("R6", sd >= 17, m, "TxtData", fdef,
                  f"default number format {fs!r} keeps {sd} significant digit(s); a float64 needs 17 to survive the "
                  f"write/read round trip (1.2345 is read back as 1.23)" if sd < 17 else f"default format {fs!r} is lossless",
                  construct=f"TxtData.format default {fs!r}", facts={"format": fs, "significant_digits": sd})
    ctx.sample({"rule": "R5", "header_sep": hsep, "fmt_sep": fsep, "comment_prefix": prefix, "reader_split": rsep})


def _sweep(ctx: Ctx) -> None:
    n = 0
    for mod in ctx.repo.modules("src/porepy"):
        for c in [c for c in ast.walk(mod.tree) if isinstance(c, ast.Call) and call_name(c) == "TxtData"]:
            n += 1
            f = kwarg(c, "format")
            if f is None:
                ctx.note(f"{mod.rel}:{c.lineno}: TxtData(...) relies on the default format")
            elif _str(f) is not None:
                sd = sig_digits(_str(f))
                if sd is not None and sd < 17:
                    ctx.note(f"{mod.rel}:{c.lineno}: TxtData(format={_str(f)!r}) keeps {sd} significant digits (lossy)")
            else:
                ctx.note(f"{mod.rel}:{c.lineno}: TxtData(format={u(f)}) - computed format, not decided")
        for qn, fn in mod.functions():
            for r in [r for r in walk_local(fn) if isinstance(r, ast.Return) and _str(r.value) is not None]:
                if "format" in qn.lower() and sig_digits(_str(r.value)) is not None and sig_digits(_str(r.value)) < 17:
                    ctx.note(f"{mod.rel}:{qn}: returns format {_str(r.value)!r} ({sig_digits(_str(r.value))} significant digits, lossy)")
    ctx.note(f"sweep: {n} TxtData(...) constructions in src/porepy")
    ctx.note("observation (not a rule): FractureNetwork3d.to_csv(file) writes no domain line by default (domain=None) while "
             "network_3d_from_csv(file) expects one by default (has_domain=True): with both defaults the first fracture is "
             "consumed as the bounding box and silently dropped")
    ctx.note("observation (not a rule): export_data_to_txt joins header names with blanks and read_data_from_txt splits on "
             "whitespace, so a name containing a blank ('cell diameter') comes back as two names and shifts all columns")


def run(ctx: Ctx) -> None:
    _check_3d(ctx)
    _check_2d(ctx)
    _check_txt(ctx)
    if ctx.tier == "thorough":
        _sweep(ctx)


def _m(name, file, old, new, rule, control=False, count=1):
    return dict(name=name, file=file, old=old, new=new, rule=rule, control=control, count=count)


MUTANTS = [
    _m("revert-fix-D9-no-ndmin", TXT, "        unpack=True,\n        ndmin=2,\n", "        unpack=True,\n", "R3", control=True),
    _m("loadtxt-no-unpack", TXT, "        unpack=True,\n        ndmin=2,\n", "        ndmin=2,\n", "R3"),
    _m("loadtxt-ndmin-1", TXT, "ndmin=2,", "ndmin=1,", "R3"),
    _m("writer-box-order-min-max-pairs", N3D, 'order = ["xmin", "ymin", "zmin", "xmax", "ymax", "zmax"]',
       'order = ["xmin", "xmax", "ymin", "ymax", "zmin", "zmax"]', "R1", control=True),
    _m("reader-box-ymax-zmax-swapped", IMP, '                        "ymax": data[4],\n                        "zmin": data[2],\n                        "zmax": data[5],',
       '                        "ymax": data[5],\n                        "zmin": data[2],\n                        "zmax": data[4],', "R1"),
    _m("elliptic-reader-box-shifted", IMP, '"xmax": bbox_as_array[3],', '"xmax": bbox_as_array[1],', "R1"),
    _m("writer-order-C", N3D, 'csv_writer.writerow(f.pts.ravel(order="F"))', 'csv_writer.writerow(f.pts.ravel(order="C"))', "R2"),
    _m("reader-order-default", IMP, 'pts.reshape((3, -1), order="F")', "pts.reshape((3, -1))", "R2"),
    _m("reader-3d-delimiter", IMP, '        spam_reader = csv.reader(csv_file, delimiter=",")\n        # Read the domain first.\n        if has_domain:\n            read_domain',
       '        spam_reader = csv.reader(csv_file, delimiter=";")\n        # Read the domain first.\n        if has_domain:\n            read_domain', "R2"),
    _m("2d-reader-default-delimiter", IMP, 'npargs["delimiter"] = kwargs.get("delimiter", ",")', 'npargs["delimiter"] = kwargs.get("delimiter", " ")', "R2"),
    _m("2d-writer-both-endpoints-same", N2D, "                data.extend(self._pts[:, edge[1]])", "                data.extend(self._pts[:, edge[0]])", "R4"),
    _m("2d-writer-no-header-by-default", N2D, "def to_csv(self, file_name: Path, with_header: bool = True) -> None:",
       "def to_csv(self, file_name: Path, with_header: bool = False) -> None:", "R4"),
    _m("2d-reader-skips-two", IMP, 'npargs["skip_header"] = kwargs.get("skip_header", 1)', 'npargs["skip_header"] = kwargs.get("skip_header", 2)', "R4"),
    _m("2d-reader-points-from-col-0", IMP, "pt_cols = np.arange(1, num_data)", "pt_cols = np.arange(0, num_data)", "R4"),
    _m("2d-reader-reshape-coordinate-major", IMP, "pts = data[:, pt_cols].reshape((-1, 2)).T", "pts = data[:, pt_cols].reshape((2, -1))", "R4"),
    _m("2d-reader-edge-numbering", IMP, "(np.arange(0, 2 * num_fracs, 2), np.arange(1, 2 * num_fracs, 2))",
       "(np.arange(0, 2 * num_fracs, 2), np.arange(0, 2 * num_fracs, 2))", "R4"),
    _m("txt-header-joined-with-comma", TXT, '        header += data.header + " "', '        header += data.header + ","', "R5"),
    _m("txt-prefix-not-stripped", TXT, '    header = header.lstrip("# ")\n', "", "R5"),
    _m("txt-skiprows-0", TXT, "skiprows=1,", "skiprows=0,", "R5"),
    _m("txt-fmt-joined-with-comma", TXT, '        fmt += data.format + " "', '        fmt += data.format + ","', "R5"),
    _m("txt-header-from-reversed-list", TXT, '        header += data.header + " "\n        fmt += data.format + " "\n',
       '        fmt += data.format + " "\n    for data in reversed(list_of_txt_data):\n        header += data.header + " "\n', "R5"),
    _m("txt-default-format-even-shorter", TXT, 'format: str = "%2.2e"', 'format: str = "%2.1e"', "R6"),
    _m("txt-default-format-fixed-point", TXT, 'format: str = "%2.2e"', 'format: str = "%.6f"', "R6"),
]
